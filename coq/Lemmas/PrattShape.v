(* Every argument list in a tree returned by the reference parser follows the
   args grammar of parser.py ([shaped], Model/Pratt.v). *)
From Coq Require Import List ZArith Bool Arith Lia.
From YV Require Import Common.Corr Model.OpTable Model.Pratt.
Import ListNotations.

Section Shape.
Variable T : table.

Definition sh_expr_stmt (f : nat) : Prop :=
  forall p ts x r, expr T f p ts = Some (x, r) -> shaped x.
Definition sh_loop_stmt (f : nat) : Prop :=
  forall p l ts x r, shaped l -> loop T f p l ts = Some (x, r) -> shaped x.
Definition sh_slots_stmt (f : nat) : Prop :=
  forall st ts a r, slots T f st ts = Some (a, r) -> shaped_args a /\ shape_from st a.
Definition sh_named_stmt (f : nat) : Prop :=
  forall ts a r, named T f ts = Some (a, r) -> shaped_args a /\ all_named a /\ a <> ANil.

Lemma named_tail_sh : forall f, sh_expr_stmt f -> sh_named_stmt f ->
  forall x r a rest, shaped x ->
    match expr T f None r with
    | Some (y, TComma :: r2) => match named T f r2 with
                                | Some (a, r3) => Some (ANamed x y a, r3)
                                | None => None
                                end
    | Some (y, r2) => Some (ANamed x y ANil, r2)
    | None => None
    end = Some (a, rest) ->
    exists y a', a = ANamed x y a' /\ shaped y /\ shaped_args a' /\ all_named a'.
Proof.
  intros f He Hn x r a rest Sx H.
  destruct (expr T f None r) as [[y r2]|] eqn:E; [|discriminate].
  apply He in E.
  destruct r2 as [|t r2].
  { inversion H; subst. exists y, ANil. cbn. auto. }
  destruct t; try solve [inversion H; subst; exists y, ANil; cbn; auto].
  destruct (named T f r2) as [[a' r3]|] eqn:N; [|discriminate].
  apply Hn in N. destruct N as [N1 [N2 _]]. inversion H; subst. exists y, a'. auto.
Qed.

Lemma shape_all : forall f, sh_expr_stmt f /\ sh_loop_stmt f /\ sh_slots_stmt f /\ sh_named_stmt f.
Proof.
  induction f as [|f [IHe [IHl [IHs IHn]]]].
  { split; [|split; [|split]]; unfold sh_expr_stmt, sh_loop_stmt, sh_slots_stmt, sh_named_stmt; intros; discriminate. }
  assert (He : sh_expr_stmt (S f)).
  { intros p ts x r H. simpl expr in H.
    destruct ts as [|t ts]; [discriminate|].
    destruct t; try discriminate.
    - refine (IHl p _ _ x r _ H); cbn [shaped]; auto.
    - destruct (pre T o) as [q|]; [|discriminate].
      destruct (expr T f (Some q) ts) as [[y r']|] eqn:E; [|discriminate].
      apply IHe in E. refine (IHl p _ _ x r _ H); cbn [shaped]; auto.
    - destruct (slots T f S0 ts) as [[a r0]|] eqn:E; [|discriminate].
      destruct r0 as [|t0 r0]; [discriminate|]. destruct t0; try discriminate.
      apply IHs in E. destruct E as [E1 E2]. refine (IHl p _ _ x r _ H); cbn [shaped]; auto.
    - destruct (expr T f None ts) as [[y r0]|] eqn:E; [|discriminate].
      destruct r0 as [|t0 r0]; [discriminate|]. destruct t0; try discriminate.
      apply IHe in E. refine (IHl p _ _ x r _ H); cbn [shaped]; auto.
    - destruct (slots T f S0 ts) as [[a r0]|] eqn:E; [|discriminate].
      destruct r0 as [|t0 r0]; [discriminate|]. destruct t0; try discriminate.
      apply IHs in E. destruct E as [E1 E2]. refine (IHl p _ _ x r _ H); cbn [shaped]; auto.
    - destruct (slots T f S0 ts) as [[a r0]|] eqn:E; [|discriminate].
      destruct r0 as [|t0 r0]; [discriminate|]. destruct t0; try discriminate.
      apply IHs in E. destruct E as [E1 E2]. refine (IHl p _ _ x r _ H); cbn [shaped]; auto. }
  assert (Hl : sh_loop_stmt (S f)).
  { intros p l ts x r Sl H. simpl loop in H.
    destruct ts as [|t ts]; [inversion H; subst; exact Sl|].
    destruct t; try (inversion H; subst; exact Sl).
    - destruct (bin T o) as [q|].
      + destruct (continues q p); [|inversion H; subst; exact Sl].
        destruct (expr T f (Some q) ts) as [[y r']|] eqn:E; [|discriminate].
        apply IHe in E. refine (IHl p _ _ x r _ H); cbn [shaped]; auto.
      + destruct (suf T o) as [q|]; [|inversion H; subst; exact Sl].
        destruct (continues q p); [|inversion H; subst; exact Sl].
        refine (IHl p _ _ x r _ H); cbn [shaped]; auto.
    - destruct (callr T) as [q|]; [|inversion H; subst; exact Sl].
      destruct (continues q p); [|inversion H; subst; exact Sl].
      destruct (slots T f S0 ts) as [[a r0]|] eqn:E; [|discriminate].
      destruct r0 as [|t0 r0]; [discriminate|]. destruct t0; try discriminate.
      apply IHs in E. destruct E as [E1 E2]. refine (IHl p _ _ x r _ H); cbn [shaped]; auto.
    - destruct (bin T sym_index) as [q|]; [|inversion H; subst; exact Sl].
      destruct (continues q p); [|inversion H; subst; exact Sl].
      destruct (slots T f S0 ts) as [[a r0]|] eqn:E; [|discriminate].
      destruct r0 as [|t0 r0]; [discriminate|]. destruct t0; try discriminate.
      apply IHs in E. destruct E as [E1 E2]. refine (IHl p _ _ x r _ H); cbn [shaped]; auto. }
  assert (Hn : sh_named_stmt (S f)).
  { intros ts a r H. simpl named in H.
    destruct (expr T f None ts) as [[x r0]|] eqn:E; [|discriminate].
    destruct r0 as [|t0 r0]; [discriminate|]. destruct t0; try discriminate.
    apply IHe in E. destruct (named_tail_sh f IHe IHn x r0 a r E H) as [y [a' [Ha [Sy [Sa Na]]]]].
    subst a. split; [cbn [shaped_args]; auto|]. split; [exact Na|discriminate]. }
  assert (Hs : sh_slots_stmt (S f)).
  { intros st ts a r H. simpl slots in H.
    assert (G : (if match ts with t :: _ => is_closer t | [] => false end
       then match st with S0 => Some (ANil, ts) | _ => None end
       else match expr T f None ts with
        | Some (x, TComma :: r) => match slots T f SV r with Some (a, r') => Some (AVal x a, r') | None => None end
        | Some (x, TMap :: r) =>
            if named_ok st then
              match expr T f None r with
              | Some (y, TComma :: r2) => match named T f r2 with Some (a, r3) => Some (ANamed x y a, r3) | None => None end
              | Some (y, r2) => Some (ANamed x y ANil, r2)
              | None => None
              end
            else None
        | Some (x, r) => Some (AVal x ANil, r)
        | None => None
        end) = Some (a, r) -> shaped_args a /\ shape_from st a).
    { intros G.
      destruct (match ts with t :: _ => is_closer t | [] => false end).
      { destruct st; try discriminate. inversion G; subst. split; [exact I|reflexivity]. }
      destruct (expr T f None ts) as [[x r0]|] eqn:E; [|discriminate].
      apply IHe in E.
      destruct r0 as [|t0 r0].
      { inversion G; subst. cbn. auto. }
      destruct t0; try solve [inversion G; subst; cbn; auto].
      - destruct (slots T f SV r0) as [[a' r']|] eqn:E2; [|discriminate].
        apply IHs in E2. destruct E2 as [E2 E3]. inversion G; subst.
        split; [cbn [shaped_args]; auto|]. destruct a'; cbn; auto.
      - destruct (named_ok st) eqn:NO; [|discriminate].
        destruct (named_tail_sh f IHe IHn x r0 a r E G) as [y [a' [Ha [Sy [Sa Na]]]]].
        subst a. split; [cbn [shaped_args]; auto|]. cbn [shape_from]. auto. }
    destruct ts as [|t ts]; [apply G; exact H|].
    destruct t; try (apply G; exact H).
    destruct (slots T f (after_empty st) ts) as [[a' r']|] eqn:E; [|discriminate].
    apply IHs in E. inversion H; subst. exact E. }
  exact (conj He (conj Hl (conj Hs Hn))).
Qed.

Theorem parse_shaped : forall ts t, parse T ts = Some t -> shaped t.
Proof.
  intros ts t H. unfold parse in H.
  destruct (expr T (2 * length ts + 2) None ts) as [[x r]|] eqn:E; [|discriminate].
  destruct r; [|discriminate]. inversion H; subst.
  exact (proj1 (shape_all _) _ _ _ _ E).
Qed.

End Shape.
