(* Round-trip of string literals through the lexer model: the scanner of the
   string rules reads exactly the spelled body (induction over the value), the
   escape decoder gives the value back; verbatim strings round-trip exactly on
   the strings accepted by [vb_ok], and the string "\" has no verbatim spelling. *)
From Coq Require Import List ZArith Bool Arith Lia.
From YV Require Import Common.Corr Model.Lexer Model.Literals Lemmas.LexerTotal.
Import ListNotations.
Open Scope Z_scope.

(* a quote character the lexer can start a string token with: not a word
   character, not ignored *)
Definition quote_ok (cfg : lexcfg) (q : Z) : bool := negb (is_w cfg q) && negb (memz q (ignore cfg)).

Lemma firstn_app_exact : forall (a b : text), firstn (length a) (a ++ b) = a.
Proof. induction a as [|x a IH]; intro b; cbn; [reflexivity|]. rewrite IH. reflexivity. Qed.

Lemma skipn_app_exact : forall (a b : text), skipn (length a) (a ++ b) = b.
Proof. induction a as [|x a IH]; intro b; cbn; [reflexivity|]. apply IH. Qed.

Section RT.
Variable cfg : lexcfg.

(* a text that is one token *)
Lemma lex_single : forall c r k v,
  memz c (ignore cfg) = false ->
  match_token cfg None (c :: r) = MTok k (S (length r)) v ->
  lex cfg (c :: r) = ([mkTok k 0 (S (length r)) v], EndOk).
Proof.
  intros c r k v Hi Hm. unfold lex. cbn [length]. cbn [lex_loop]. rewrite Hi, Hm.
  cbn [skipn]. rewrite skipn_all. cbn [lex_loop]. reflexivity.
Qed.

(* the first four rules cannot start at a non-word character other than '$' *)
Lemma m_dollar_nw : forall c r, c <> 36 -> m_dollar cfg (c :: r) = MNone.
Proof. intros c r H. cbn. apply Z.eqb_neq in H. rewrite H. reflexivity. Qed.

Lemma m_number_nw : forall c r, is_w cfg c = false -> m_number cfg None (c :: r) = MNone.
Proof. intros c r H. unfold m_number, bnd, isw, hd_opt. rewrite H. reflexivity. Qed.

Lemma m_func_nw : forall c r, is_w cfg c = false -> m_func cfg None (c :: r) = MNone.
Proof. intros c r H. unfold m_func, bnd, isw. rewrite H. reflexivity. Qed.

Lemma m_keyword_nw : forall c r, is_w cfg c = false -> m_keyword cfg None (c :: r) = MNone.
Proof.
  intros c r H. unfold m_keyword. destruct (starts_dunder (c :: r)); [reflexivity|].
  unfold bnd, isw. rewrite H. reflexivity.
Qed.

Lemma match_token_nonword : forall c r, is_w cfg c = false -> c <> 36 ->
  match_token cfg None (c :: r) =
  match m_string cfg 39 false (c :: r) with MNone =>
  match m_string cfg 34 false (c :: r) with MNone =>
  match m_string cfg 96 true (c :: r) with MNone =>
  match m_ops (op_strs cfg) (c :: r) with MNone => m_literal cfg (c :: r)
  | m => m end | m => m end | m => m end | m => m end.
Proof.
  intros c r W D. unfold match_token.
  rewrite (m_dollar_nw c r D), (m_number_nw c r W), (m_func_nw c r W), (m_keyword_nw c r W). reflexivity.
Qed.

Lemma quote_ok_parts : forall q, quote_ok cfg q = true -> is_w cfg q = false /\ memz q (ignore cfg) = false.
Proof.
  intros q H. unfold quote_ok in H. apply andb_prop in H. destruct H as [A B].
  apply negb_true_iff in A. apply negb_true_iff in B. split; assumption.
Qed.

(* ---------- single- and double-quoted strings ---------- *)
Lemma esc_with_cons : forall q a s,
  esc_with q (a :: s) = (if (a =? 92) || (a =? q) then [92; a] else [a]) ++ esc_with q s.
Proof. reflexivity. Qed.

(* the regex q([^q\\]|\\.)*q scans exactly the spelled body *)
Lemma scan_spelled : forall q, q <> 92 -> q <> 10 -> forall s rest,
  scan_body q false (esc_with q s ++ q :: rest) = Some (length (esc_with q s)).
Proof.
  intros q Q1 Q2. induction s as [|a s IH]; intro rest.
  - cbn. rewrite Z.eqb_refl. reflexivity.
  - rewrite esc_with_cons. destruct ((a =? 92) || (a =? q)) eqn:E.
    + assert (A10 : (a =? 10) = false).
      { apply orb_true_iff in E. destruct E as [E|E]; apply Z.eqb_eq in E; subst a; [reflexivity|].
        apply Z.eqb_neq. exact Q2. }
      assert (Q92 : (92 =? q) = false) by (apply Z.eqb_neq; intro; apply Q1; symmetry; assumption).
      cbn [app scan_body length]. rewrite Q92. cbn [Z.eqb Pos.eqb]. rewrite A10. rewrite IH. reflexivity.
    + apply orb_false_iff in E. destruct E as [E1 E2].
      cbn [app scan_body length]. rewrite E1, E2. rewrite IH. reflexivity.
Qed.

(* ... and the escape decoder gives the value back *)
Lemma decode_spelled : forall q, q = 39 \/ q = 34 -> forall s, decode_from cfg 0 (esc_with q s) = Some s.
Proof.
  intros q Hq. induction s as [|a s IH]; [reflexivity|].
  rewrite esc_with_cons. destruct ((a =? 92) || (a =? q)) eqn:E.
  - apply orb_true_iff in E. destruct E as [E|E]; apply Z.eqb_eq in E; subst a.
    + cbn [app]. change (decode_from cfg 0 (92 :: 92 :: esc_with q s)) with
        (option_map (cons 92) (decode_from cfg 0 (esc_with q s))). rewrite IH. reflexivity.
    + destruct Hq; subst q; cbn [app].
      * change (decode_from cfg 0 (92 :: 39 :: esc_with 39 s)) with
          (option_map (cons 39) (decode_from cfg 0 (esc_with 39 s))). rewrite IH. reflexivity.
      * change (decode_from cfg 0 (92 :: 34 :: esc_with 34 s)) with
          (option_map (cons 34) (decode_from cfg 0 (esc_with 34 s))). rewrite IH. reflexivity.
  - apply orb_false_iff in E. destruct E as [E1 E2].
    cbn [app decode_from]. rewrite E1. rewrite IH. reflexivity.
Qed.

Lemma m_string_spelled : forall q, q = 39 \/ q = 34 -> forall s,
  m_string cfg q false (spell q s) = MTok K_QSTR (S (length (esc_with q s ++ [q]))) (VText s).
Proof.
  intros q Hq s. unfold spell. cbn [m_string]. rewrite Z.eqb_refl.
  rewrite scan_spelled; [| destruct Hq; subst; discriminate | destruct Hq; subst; discriminate].
  rewrite firstn_app_exact. unfold decode_escapes. rewrite (decode_spelled q Hq).
  rewrite app_length. cbn [length]. f_equal. lia.
Qed.

Theorem sq_roundtrip : quote_ok cfg 39 = true -> forall s,
  lex cfg (spell_sq s) = ([mkTok K_QSTR 0 (length (spell_sq s)) (VText s)], EndOk).
Proof.
  intros Q s. destruct (quote_ok_parts _ Q) as [W I]. unfold spell_sq, spell. cbn [length].
  apply lex_single; [exact I|]. rewrite match_token_nonword; [|exact W|discriminate].
  fold (spell 39 s). rewrite (m_string_spelled 39 (or_introl eq_refl)). reflexivity.
Qed.

Theorem dq_roundtrip : quote_ok cfg 34 = true -> forall s,
  lex cfg (spell_dq s) = ([mkTok K_QSTR 0 (length (spell_dq s)) (VText s)], EndOk).
Proof.
  intros Q s. destruct (quote_ok_parts _ Q) as [W I]. unfold spell_dq, spell. cbn [length].
  apply lex_single; [exact I|]. rewrite match_token_nonword; [|exact W|discriminate].
  change (m_string cfg 39 false (34 :: esc_with 34 s ++ [34])) with MNone.
  fold (spell 34 s). rewrite (m_string_spelled 34 (or_intror eq_refl)). reflexivity.
Qed.

(* ---------- verbatim strings ---------- *)
Lemma vesc_cons : forall a s, vesc (a :: s) = (if a =? 96 then [92; 96] else [a]) ++ vesc s.
Proof. reflexivity. Qed.

Lemma vesc_hd : forall s, hd_opt (vesc s) <> Some 96.
Proof.
  intros [|a s]; [discriminate|]. rewrite vesc_cons. destruct (a =? 96) eqn:E; cbn; [discriminate|].
  intros [= H]. subst a. discriminate.
Qed.

(* whatever the string: undoing the escaping of back quotes gives it back *)
Lemma unesc_vesc : forall s, unesc_bq (vesc s) = s.
Proof.
  induction s as [|a s IH]; [reflexivity|]. rewrite vesc_cons. destruct (a =? 96) eqn:E.
  - apply Z.eqb_eq in E. subst a. cbn [app].
    change (unesc_bq (92 :: 96 :: vesc s)) with (96 :: unesc_bq (vesc s)). rewrite IH. reflexivity.
  - cbn [app]. pose proof (vesc_hd s) as Hd. destruct (vesc s) as [|d r'] eqn:EV.
    + cbn in IH. subst s. reflexivity.
    + cbn [hd_opt] in Hd. assert (D : (d =? 96) = false) by (apply Z.eqb_neq; intro; subst; apply Hd; reflexivity).
      cbn [unesc_bq]. rewrite D, andb_false_r. cbn [unesc_bq] in IH. rewrite IH. reflexivity.
Qed.

(* the scanner reads exactly the spelled body when the string is in the guard *)
Lemma scan_vesc : forall s odd rest, vb_ok_from odd s = true ->
  scan_body 96 odd (vesc s ++ 96 :: rest) = Some (length (vesc s)).
Proof.
  induction s as [|a s IH]; intros odd rest H.
  - cbn in H. apply negb_true_iff in H. subst odd. reflexivity.
  - rewrite vesc_cons. cbn [vb_ok_from] in H. destruct (a =? 92) eqn:E92.
    + apply Z.eqb_eq in E92. subst a. cbn [Z.eqb Pos.eqb app scan_body length].
      destruct odd; cbn [negb] in H; cbn [Z.eqb Pos.eqb]; rewrite (IH _ rest H); reflexivity.
    + destruct (a =? 96) eqn:E96.
      * apply Z.eqb_eq in E96. subst a. apply andb_prop in H. destruct H as [H1 H2].
        apply negb_true_iff in H1. subst odd. cbn [app scan_body length Z.eqb Pos.eqb].
        rewrite (IH _ rest H2). reflexivity.
      * cbn [app scan_body length]. destruct odd.
        -- apply andb_prop in H. destruct H as [H1 H2]. apply negb_true_iff in H1. rewrite H1.
           rewrite (IH _ rest H2). reflexivity.
        -- rewrite E96, E92. rewrite (IH _ rest H). reflexivity.
Qed.

Theorem verbatim_roundtrip : quote_ok cfg 96 = true -> forall s, vb_ok s = true ->
  lex cfg (spell_verbatim s) = ([mkTok K_QSTR 0 (length (spell_verbatim s)) (VText s)], EndOk).
Proof.
  intros Q s G. destruct (quote_ok_parts _ Q) as [W I]. unfold spell_verbatim. cbn [length].
  apply lex_single; [exact I|]. rewrite match_token_nonword; [|exact W|discriminate].
  change (m_string cfg 39 false (96 :: vesc s ++ [96])) with MNone.
  change (m_string cfg 34 false (96 :: vesc s ++ [96])) with MNone.
  cbn [m_string]. cbn [Z.eqb Pos.eqb]. rewrite (scan_vesc s false [] G).
  rewrite firstn_app_exact, unesc_vesc. rewrite app_length. cbn [length]. f_equal. lia.
Qed.

(* the coarser guard of the design implies the exact one *)
Lemma vb_coarse_impl : forall s odd bs, (odd = true -> bs = true) ->
  vb_coarse_from bs s = true -> vb_ok_from odd s = true.
Proof.
  induction s as [|a s IH]; intros odd bs Imp H; cbn [vb_coarse_from vb_ok_from] in *.
  - destruct odd; [rewrite (Imp eq_refl) in H; discriminate|reflexivity].
  - destruct (a =? 92) eqn:E92.
    + apply (IH _ true); [reflexivity|exact H].
    + destruct (a =? 96) eqn:E96; cbn [orb] in H.
      * apply andb_prop in H. destruct H as [H1 H2]. apply negb_true_iff in H1. subst bs.
        destruct odd; [specialize (Imp eq_refl); discriminate|]. cbn. apply (IH _ false); [discriminate|exact H2].
      * destruct (a =? 10) eqn:E10.
        -- apply andb_prop in H. destruct H as [H1 H2]. apply negb_true_iff in H1. subst bs.
           destruct odd; [specialize (Imp eq_refl); discriminate|]. apply (IH _ false); [discriminate|exact H2].
        -- destruct odd; cbn; apply (IH _ false); try discriminate; exact H.
Qed.

Theorem verbatim_roundtrip_coarse : quote_ok cfg 96 = true -> forall s, vb_coarse s = true ->
  lex cfg (spell_verbatim s) = ([mkTok K_QSTR 0 (length (spell_verbatim s)) (VText s)], EndOk).
Proof.
  intros Q s G. apply verbatim_roundtrip; [exact Q|]. apply (vb_coarse_impl s false false); [discriminate|exact G].
Qed.

(* nothing but backslash-backquote is touched *)
Lemma unesc_bq_identity : forall s, has_bsbq s = false -> unesc_bq s = s.
Proof.
  induction s as [|c r IH]; [reflexivity|]. cbn [has_bsbq unesc_bq]. destruct r as [|d r']; [reflexivity|].
  intro H. apply orb_false_iff in H. destruct H as [H1 H2]. rewrite H1. rewrite (IH H2). reflexivity.
Qed.

Lemma m_string_verbatim_value : forall body rest,
  scan_body 96 false (body ++ 96 :: rest) = Some (length body) ->
  m_string cfg 96 true (96 :: body ++ 96 :: rest) = MTok K_QSTR (length body + 2) (VText (unesc_bq body)).
Proof.
  intros body rest H. cbn [m_string Z.eqb Pos.eqb]. rewrite H. rewrite firstn_app_exact. reflexivity.
Qed.

(* ---------- the string "\" has no verbatim spelling ---------- *)
Lemma unesc_bq_single : forall b c, unesc_bq b = [c] -> b = [c] \/ (b = [92; 96] /\ c = 96).
Proof.
  intros [|x [|y r]] c; cbn [unesc_bq]; [discriminate|intros [= <-]; left; reflexivity|].
  destruct ((x =? 92) && (y =? 96)) eqn:E.
  - intros [= <- Hr]. apply andb_prop in E. destruct E as [E1 E2]. apply Z.eqb_eq in E1, E2. subst.
    destruct r as [|z r]; [right; split; reflexivity|]. cbn [unesc_bq] in Hr.
    destruct r; [discriminate|]. destruct (_ && _); discriminate.
  - intros [= <- Hr]. destruct r as [|z r]; [discriminate|]. destruct ((y =? 92) && (z =? 96)); discriminate.
Qed.

Lemma m_ops_value : forall l s k n v, m_ops l s = MTok k n v -> exists lit, v = VText lit /\ prefixb lit s = true.
Proof.
  induction l as [|[name lit] l IH]; intros s k n v; cbn [m_ops]; [discriminate|].
  destruct (prefixb lit s) eqn:E; [|apply IH]. intros [= _ _ <-]. exists lit. split; [reflexivity|exact E].
Qed.

Theorem verbatim_backslash_unspellable : quote_ok cfg 96 = true -> forall body,
  lex cfg (96 :: body ++ [96]) <> ([mkTok K_QSTR 0 (length (96 :: body ++ [96])) (VText [92])], EndOk).
Proof.
  intros Q body. destruct (quote_ok_parts _ Q) as [W I]. unfold lex. cbn [length]. cbn [lex_loop]. rewrite I.
  rewrite match_token_nonword; [|exact W|discriminate].
  change (m_string cfg 39 false (96 :: body ++ [96])) with MNone.
  change (m_string cfg 34 false (96 :: body ++ [96])) with MNone.
  cbn [m_string Z.eqb Pos.eqb].
  destruct (scan_body 96 false (body ++ [96])) as [n|] eqn:ES.
  - (* a string token: it must span the text and denote "\" *)
    match goal with |- (let '(l, e) := ?X in _) <> _ => destruct X as [l e] end.
    intros [= Hn Hv Hl He]. rewrite app_length in Hn. cbn [length] in Hn.
    assert (n = length body) by lia. subst n. rewrite firstn_app_exact in Hv.
    apply unesc_bq_single in Hv. destruct Hv as [Hv|[_ Hv]]; [|discriminate]. subst body.
    cbn in ES. discriminate.
  - (* no string token here: an operator or literal starting with the back quote cannot denote "\" *)
    destruct (m_ops (op_strs cfg) (96 :: body ++ [96])) as [|k n v| |] eqn:EO.
    + cbn [m_literal]. destruct (memz 96 (literals cfg)).
      * match goal with |- (let '(l, e) := ?X in _) <> _ => destruct X as [l e] end. intro H. inversion H.
      * destruct (error_yaql cfg); discriminate.
    + apply m_ops_value in EO. destruct EO as (lit & -> & P).
      match goal with |- (let '(l, e) := ?X in _) <> _ => destruct X as [l e] end.
      intro H. inversion H. subst. cbn in P. discriminate.
    + discriminate.
    + discriminate.
Qed.

(* ---------- the evaluation route, and the three styles agree ---------- *)
Lemma eval_of_lex : forall s n v, lex cfg s = ([mkTok K_QSTR 0 n v], EndOk) -> eval_literal cfg s = Some v.
Proof. intros s n v H. unfold eval_literal, literal_obs. rewrite H. reflexivity. Qed.

Theorem quoted_styles_agree : quote_ok cfg 39 = true -> quote_ok cfg 34 = true -> forall s,
  eval_literal cfg (spell_sq s) = Some (VText s) /\ eval_literal cfg (spell_dq s) = Some (VText s).
Proof.
  intros Q1 Q2 s. split; [exact (eval_of_lex _ _ _ (sq_roundtrip Q1 s))|exact (eval_of_lex _ _ _ (dq_roundtrip Q2 s))].
Qed.

Theorem styles_agree : quote_ok cfg 39 = true -> quote_ok cfg 34 = true -> quote_ok cfg 96 = true ->
  forall s, vb_ok s = true ->
  eval_literal cfg (spell_sq s) = Some (VText s) /\ eval_literal cfg (spell_dq s) = Some (VText s) /\
  eval_literal cfg (spell_verbatim s) = Some (VText s).
Proof.
  intros Q1 Q2 Q3 s G. destruct (quoted_styles_agree Q1 Q2 s) as [A B].
  split; [exact A|]. split; [exact B|]. exact (eval_of_lex _ _ _ (verbatim_roundtrip Q3 s G)).
Qed.

End RT.
