(* C15 - the integer functions meet their arithmetic specifications at any magnitude. *)
From Coq Require Import List ZArith Bool Lia.
From YV Require Import Model.ScalarsFns.
Import ListNotations.
Local Open Scope Z_scope.

Lemma round_to_spec : forall a p, 0 < p ->
  let r := round_to a p in
  (p | r) /\ 2 * Z.abs (r - a) <= p /\ (2 * Z.abs (r - a) = p -> Z.even (r / p) = true) /\
  (forall m, (p | m) -> Z.abs (r - a) <= Z.abs (m - a)).
Proof.
  intros a p Hp r. subst r. unfold round_to.
  pose proof (Z.div_mod a p ltac:(lia)) as E. pose proof (Z.mod_pos_bound a p Hp) as B.
  set (q := a / p) in *. set (r := a mod p) in *.
  assert (Near : forall t, (t = q * p \/ t = (q + 1) * p) ->
            forall m, (p | m) -> Z.abs (t - a) <= p - Z.abs (t - a) -> Z.abs (t - a) <= Z.abs (m - a)).
  { intros t Ht m [k ->] Hh.
    assert (k <= q \/ k >= q + 1) as [Hk|Hk] by lia.
    - assert (k * p <= q * p) by (apply Z.mul_le_mono_nonneg_r; lia). destruct Ht; subst t; lia.
    - assert ((q + 1) * p <= k * p) by (apply Z.mul_le_mono_nonneg_r; lia). destruct Ht; subst t; lia. }
  destruct (2 * r <? p) eqn:C1; [|destruct (2 * r >? p) eqn:C2; [|destruct (Z.even q) eqn:C3]].
  - split; [exists q; reflexivity|]. split; [lia|]. split; [lia|]. intros m Hm. apply Near; auto. lia.
  - split; [exists (q + 1); reflexivity|]. split; [lia|]. split; [lia|]. intros m Hm. apply Near; auto. lia.
  - split; [exists q; reflexivity|]. split; [lia|]. split.
    + intros _. rewrite Z.div_mul by lia. exact C3.
    + intros m Hm. apply Near; auto. lia.
  - split; [exists (q + 1); reflexivity|]. split; [lia|]. split.
    + intros _. rewrite Z.div_mul by lia. rewrite Z.even_add, C3. reflexivity.
    + intros m Hm. apply Near; auto. lia.
Qed.

Lemma int_functions_exact : forall a b c : Z,
  (* abs, sign *)
  (exists r, int_fn FAbs [a] = Some r /\ 0 <= r /\ (r = a \/ r = - a)) /\
  (exists s, int_fn FSign [a] = Some s /\ a = s * Z.abs a /\ (s = 1 \/ s = 0 \/ s = -1)) /\
  (* min, max *)
  int_fn FMax [a; b] = Some (Z.max a b) /\ int_fn FMin [a; b] = Some (Z.min a b) /\
  (* pow: exact repeated multiplication; with a modulus the result lies between 0 and c *)
  int_fn FPow [a; 0] = Some 1 /\
  (0 <= b -> exists r, int_fn FPow [a; b] = Some r /\ int_fn FPow [a; b + 1] = Some (a * r)) /\
  (0 <= b -> c <> 0 -> exists r m, int_fn FPow [a; b] = Some r /\ int_fn FPowMod [a; b; c] = Some m /\
                                   (c | r - m) /\ (0 <= m < c \/ c < m <= 0)) /\
  (* round: the identity for ndigits >= 0; otherwise the nearest multiple of 10^(-ndigits),
     ties to the even multiple *)
  int_fn FRound [a] = Some a /\ (0 <= b -> int_fn FRoundN [a; b] = Some a) /\
  (b < 0 -> exists r, int_fn FRoundN [a; b] = Some r /\ let p := 10 ^ (- b) in
             (p | r) /\ 2 * Z.abs (r - a) <= p /\ (2 * Z.abs (r - a) = p -> Z.even (r / p) = true) /\
             (forall m, (p | m) -> Z.abs (r - a) <= Z.abs (m - a))) /\
  (* bitwise operations: two's complement, bit by bit, on integers of any size *)
  (exists x o e n, int_fn FAnd [a; b] = Some x /\ int_fn FOr [a; b] = Some o /\ int_fn FXor [a; b] = Some e /\
     int_fn FNot [a] = Some n /\ n = - a - 1 /\
     forall i, Z.testbit x i = Z.testbit a i && Z.testbit b i /\
               Z.testbit o i = Z.testbit a i || Z.testbit b i /\
               Z.testbit e i = xorb (Z.testbit a i) (Z.testbit b i)) /\
  (* shifts: multiplication / floor division by a power of two *)
  (0 <= b -> int_fn FShl [a; b] = Some (a * 2 ^ b) /\ int_fn FShr [a; b] = Some (a / 2 ^ b)).
Proof.
  intros a b c.
  split; [|split; [|split; [|split; [|split; [|split; [|split; [|split; [|split; [|split; [|split]]]]]]]]]].
  - exists (Z.abs a). cbn. split; [reflexivity|]. lia.
  - cbn [int_fn]. destruct (a >? 0) eqn:E1; [|destruct (a <? 0) eqn:E2]; eexists; (split; [reflexivity|]); lia.
  - cbn [int_fn]. destruct (b >? a) eqn:E; f_equal; lia.
  - cbn [int_fn]. destruct (b >? a) eqn:E; f_equal; lia.
  - reflexivity.
  - intros Hb. cbn [int_fn]. destruct (b <? 0) eqn:E1; [lia|]. destruct (b + 1 <? 0) eqn:E2; [lia|].
    exists (a ^ b). split; [reflexivity|]. rewrite Z.pow_add_r by lia. rewrite Z.pow_1_r. f_equal. lia.
  - intros Hb Hc. cbn [int_fn]. destruct (b <? 0) eqn:E1; [lia|]. destruct (c =? 0) eqn:E2; [lia|]. cbn [orb].
    exists (a ^ b), ((a ^ b) mod c). split; [reflexivity|]. split; [reflexivity|]. split.
    + exists ((a ^ b) / c). pose proof (Z.div_mod (a ^ b) c Hc). lia.
    + destruct (Z_lt_le_dec 0 c); [left; apply Z.mod_pos_bound; lia | right; apply Z.mod_neg_bound; lia].
  - reflexivity.
  - intros Hb. cbn [int_fn]. destruct (b >=? 0) eqn:E; [reflexivity|lia].
  - intros Hb. cbn [int_fn]. destruct (b >=? 0) eqn:E; [lia|].
    exists (round_to a (10 ^ (- b))). split; [reflexivity|]. apply round_to_spec. apply Z.pow_pos_nonneg; lia.
  - exists (Z.land a b), (Z.lor a b), (Z.lxor a b), (Z.lnot a).
    do 4 (split; [reflexivity|]). split; [unfold Z.lnot; lia|].
    intros i. rewrite Z.land_spec, Z.lor_spec, Z.lxor_spec. auto.
  - intros Hb. cbn [int_fn]. destruct (b <? 0) eqn:E; [lia|].
    rewrite Z.shiftl_mul_pow2, Z.shiftr_div_pow2 by lia. split; reflexivity.
Qed.
