(* Facts about the regenerated simple case mapping (Gen/CaseMap.v, Model/CaseMap.v).  The
   table facts are finite: closed by computation over the whole table on every run. *)
From Coq Require Import List ZArith Bool Lia ZifyBool.
From YV Require Import Common.Corr Model.Strings Gen.CaseMap Model.CaseMap.
Import ListNotations.
Open Scope Z_scope.

Lemma zlookup_in c d : forall l, zlookup c l = Some d -> In (c, d) l.
Proof.
  induction l as [|[k v] r IH]; cbn; [discriminate|]. destruct (Z.eqb c k) eqn:E.
  - intro H. injection H as <-. apply Z.eqb_eq in E. subst. left. reflexivity.
  - intro H. right. apply IH. exact H.
Qed.

(* the table is idempotent: the image of a mapped code point is not mapped further *)
Lemma upper_table_idem : forallb (fun cd => Z.eqb (uni_upper_c (snd cd)) (snd cd)) upper_pairs = true.
Proof. vm_compute. reflexivity. Qed.
Lemma lower_table_idem : forallb (fun cd => Z.eqb (uni_lower_c (snd cd)) (snd cd)) lower_pairs = true.
Proof. vm_compute. reflexivity. Qed.

(* on ASCII the table is the ASCII mapping of Model/Strings.v *)
Lemma upper_table_ascii : forallb (fun c => Z.eqb (uni_upper_c c) (upper_c c)) (zrange 0 128) = true.
Proof. vm_compute. reflexivity. Qed.
Lemma lower_table_ascii : forallb (fun c => Z.eqb (uni_lower_c c) (lower_c c)) (zrange 0 128) = true.
Proof. vm_compute. reflexivity. Qed.

(* the images stay in the Basic Multilingual Plane *)
Lemma tables_in_bmp :
  forallb (fun cd => (0 <=? snd cd) && (snd cd <? 65536)) upper_pairs
  && forallb (fun cd => (0 <=? snd cd) && (snd cd <? 65536)) lower_pairs = true.
Proof. vm_compute. reflexivity. Qed.

Lemma uni_upper_c_idem c : uni_upper_c (uni_upper_c c) = uni_upper_c c.
Proof.
  unfold uni_upper_c at 2 3. destruct (zlookup c upper_pairs) as [d|] eqn:E.
  - apply zlookup_in in E. pose proof upper_table_idem as H. rewrite forallb_forall in H.
    specialize (H _ E). cbn in H. lia.
  - unfold uni_upper_c. rewrite E. reflexivity.
Qed.
Lemma uni_lower_c_idem c : uni_lower_c (uni_lower_c c) = uni_lower_c c.
Proof.
  unfold uni_lower_c at 2 3. destruct (zlookup c lower_pairs) as [d|] eqn:E.
  - apply zlookup_in in E. pose proof lower_table_idem as H. rewrite forallb_forall in H.
    specialize (H _ E). cbn in H. lia.
  - unfold uni_lower_c. rewrite E. reflexivity.
Qed.

Lemma in_zrange c : forall k a, a <= c < a + Z.of_nat k -> In c (zrange a k).
Proof.
  induction k as [|k IH]; intros a H; [lia|]. cbn [zrange].
  destruct (Z.eq_dec a c) as [->|Hne]; [left; reflexivity|]. right. apply IH. lia.
Qed.

Lemma uni_upper_c_ascii c : 0 <= c < 128 -> uni_upper_c c = upper_c c.
Proof.
  intro H. pose proof upper_table_ascii as T. rewrite forallb_forall in T.
  specialize (T c (in_zrange c 128 0 ltac:(lia))). lia.
Qed.
Lemma uni_lower_c_ascii c : 0 <= c < 128 -> uni_lower_c c = lower_c c.
Proof.
  intro H. pose proof lower_table_ascii as T. rewrite forallb_forall in T.
  specialize (T c (in_zrange c 128 0 ltac:(lia))). lia.
Qed.

Lemma case_unicode_spec s :
  length (uni_upper s) = length s /\ length (uni_lower s) = length s /\
  uni_upper (uni_upper s) = uni_upper s /\ uni_lower (uni_lower s) = uni_lower s /\
  (is_ascii s = true -> uni_upper s = ascii_upper s /\ uni_lower s = ascii_lower s).
Proof.
  unfold uni_upper, uni_lower, ascii_upper, ascii_lower. rewrite !map_length, !map_map.
  split; [reflexivity|]. split; [reflexivity|].
  split; [apply map_ext; apply uni_upper_c_idem|]. split; [apply map_ext; apply uni_lower_c_idem|].
  intro Ha. unfold is_ascii in Ha. rewrite forallb_forall in Ha.
  split; apply map_ext_in; intros c Hc; specialize (Ha c Hc); [apply uni_upper_c_ascii|apply uni_lower_c_ascii]; lia.
Qed.

(* a mapped code point is a table row; an unmapped one is unchanged *)
Lemma uni_upper_c_spec c : (In (c, uni_upper_c c) upper_pairs) \/ uni_upper_c c = c.
Proof. unfold uni_upper_c. destruct (zlookup c upper_pairs) eqn:E; [left; apply zlookup_in; exact E|right; reflexivity]. Qed.
Lemma uni_lower_c_spec c : (In (c, uni_lower_c c) lower_pairs) \/ uni_lower_c c = c.
Proof. unfold uni_lower_c. destruct (zlookup c lower_pairs) eqn:E; [left; apply zlookup_in; exact E|right; reflexivity]. Qed.
