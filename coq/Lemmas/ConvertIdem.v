(* Results of convert_output are well-formed plain containers (hashable,
   pairwise different keys and set elements) and are fixed points of
   convert_output: finalising twice is finalising once. *)
From Coq Require Import List ZArith Bool Lia.
From YV Require Import Common.Corr Model.Convert Lemmas.ConvertBase Lemmas.ConvertSpec.
Import ListNotations.

(* plain AND a real Python dict/set: hashable, pairwise different keys/elements *)
Fixpoint wfb (o : opts) (r : val) : bool :=
  match r with
  | VNull | VBool _ | VInt _ | VFloat _ | VStr _ => true
  | VDict kvs => forallb (fun kv => wfb o (fst kv) && wfb o (snd kv) && hashable (fst kv)) kvs && nodupb (map fst kvs)
  | VList l => forallb (wfb o) l
  | VTuple l => negb (t2l o) && forallb (wfb o) l
  | VSet l => negb (s2l o) && forallb (fun x => wfb o x && hashable x) l && nodupb l
  | VFDict _ | VFSet _ | VIter _ | VView _ _ | VOrd _ => false
  end.

(* ---- dict(...) and set(...) produce pairwise different keys / elements ------------ *)
Lemma nodupb_snoc l x : nodupb l = true -> existsb (fun y => py_eqb y x) l = false -> nodupb (l ++ [x]) = true.
Proof.
  induction l as [|y r IH]; simpl; intros Hn He; [reflexivity|].
  apply andb_true_iff in Hn. destruct Hn as [H1 H2].
  apply orb_false_iff in He. destruct He as [E1 E2].
  rewrite IH by assumption. rewrite andb_true_r.
  rewrite existsb_app. simpl. rewrite E1. apply negb_true_iff in H1. rewrite H1. reflexivity.
Qed.

Lemma set_add_nodup l x : nodupb l = true -> nodupb (set_add l x) = true.
Proof.
  intro H. unfold set_add. destruct (existsb (fun y => py_eqb y x) l) eqn:E; [exact H|].
  apply nodupb_snoc; assumption.
Qed.

Lemma set_of_nodupb xs : nodupb (set_of xs) = true.
Proof.
  unfold set_of. assert (G : forall acc, nodupb acc = true -> nodupb (fold_left set_add xs acc) = true).
  { induction xs as [|x r IH]; intros acc Ha; simpl; [exact Ha|]. apply IH. apply set_add_nodup. exact Ha. }
  apply G. reflexivity.
Qed.

Lemma dict_set_keys acc k v :
  map fst (dict_set acc k v) = map fst acc \/
  (existsb (fun y => py_eqb y k) (map fst acc) = false /\ map fst (dict_set acc k v) = map fst acc ++ [k]).
Proof.
  induction acc as [|kv r IH]; simpl.
  - right. split; reflexivity.
  - destruct (py_eqb (fst kv) k) eqn:E; simpl.
    + left. reflexivity.
    + destruct IH as [IH|[I1 I2]]; [left; rewrite IH; reflexivity|].
      right. rewrite I1, I2. split; reflexivity.
Qed.

Lemma dict_set_nodup acc k v : nodupb (map fst acc) = true -> nodupb (map fst (dict_set acc k v)) = true.
Proof.
  intro H. destruct (dict_set_keys acc k v) as [E|[E1 E2]]; [rewrite E; exact H|].
  rewrite E2. apply nodupb_snoc; assumption.
Qed.

Lemma dict_of_nodupb ps : nodupb (map fst (dict_of ps)) = true.
Proof.
  unfold dict_of. assert (G : forall acc, nodupb (map fst acc) = true ->
    nodupb (map fst (fold_left (fun acc p => dict_set acc (fst p) (snd p)) ps acc)) = true).
  { induction ps as [|p r IH]; intros acc Ha; simpl; [exact Ha|]. apply IH. apply dict_set_nodup. exact Ha. }
  apply G. reflexivity.
Qed.

(* ---- results are well-formed ---------------------------------------------------------- *)
Section WF.
  Variable o : opts.
  Let P := fun v => forall r, convert_output o v = Ok r -> wfb o r = true.

  Lemma mapM_wf {A} (f : A -> res val) l ys :
    Forall (fun x => forall y, f x = Ok y -> wfb o y = true) l -> mapM f l = Ok ys ->
    forallb (wfb o) ys = true.
  Proof.
    intros F E. apply Forall_forallb. apply mapM_Forall2 in E.
    apply (Forall2_Forall_r _ _ _ _ E). exact F.
  Qed.

  Lemma seq_out_wf b xs : forallb (wfb o) xs = true -> wfb o (seq_out o b xs) = true.
  Proof.
    intro H. unfold seq_out. destruct b; simpl; [|exact H].
    destruct (t2l o) eqn:E; simpl; [exact H | rewrite E; simpl; exact H].
  Qed.

  Lemma listlike_wf b l r : Forall P l -> co_listlike o b l = Ok r -> wfb o r = true.
  Proof.
    intros F H. unfold co_listlike in H. destruct (mapM (convert_output o) l) as [xs|e] eqn:E; [|discriminate H].
    injection H as <-. apply seq_out_wf. apply (mapM_wf _ _ _ F E).
  Qed.

  Lemma setlike_wf l r : Forall P l -> co_setlike o l = Ok r -> wfb o r = true.
  Proof.
    intros F H. unfold co_setlike in H. destruct (mapM (convert_output o) l) as [xs|e] eqn:E; [|discriminate H].
    pose proof (mapM_wf _ _ _ F E) as Hp.
    destruct (s2l o) eqn:Es.
    - injection H as <-. exact Hp.
    - unfold build_set in H. destruct (forallb hashable xs) eqn:Hh; [|discriminate H]. injection H as <-.
      simpl. rewrite Es, set_of_nodupb. simpl. rewrite andb_true_r. apply Forall_forallb.
      assert (G : Forall (fun x => wfb o x && hashable x = true) (set_of xs)).
      { apply (set_of_Forall (fun x => wfb o x && hashable x = true)).
        apply Forall_forall. intros x Hin. rewrite forallb_forall in Hp, Hh. rewrite (Hp x Hin), (Hh x Hin). reflexivity. }
      exact G.
  Qed.

  Lemma pair_wf kv p : P (fst kv) /\ P (snd kv) -> conv_pair o kv = Ok p ->
    wfb o (fst p) = true /\ wfb o (snd p) = true.
  Proof.
    intros [Hk Hv] H. unfold conv_pair in H.
    destruct (convert_output o (fst kv)) as [ck|e] eqn:Ek; [|discriminate H].
    destruct (convert_output o (snd kv)) as [cv|e] eqn:Ev; [|discriminate H].
    injection H as <-. simpl. split; [apply Hk; exact Ek | apply Hv; exact Ev].
  Qed.

  Lemma mapping_wf kvs r : Forall (fun kv => P (fst kv) /\ P (snd kv)) kvs ->
    co_mapping o kvs = Ok r -> wfb o r = true.
  Proof.
    intros F H. unfold co_mapping in H. destruct (mapM (conv_pair o) kvs) as [ps|e] eqn:E; [|discriminate H].
    unfold build_dict in H. destruct (forallb _ ps) eqn:Hh; [|discriminate H]. injection H as <-.
    simpl. rewrite dict_of_nodupb, andb_true_r. apply Forall_forallb.
    assert (G : Forall (fun p => (wfb o (fst p) = true /\ hashable (fst p) = true) /\ wfb o (snd p) = true) (dict_of ps)).
    { apply (dict_of_Forall (fun v => wfb o v = true /\ hashable v = true) (fun v => wfb o v = true)).
      apply mapM_Forall2 in E. rewrite forallb_forall in Hh.
      assert (G1 : Forall (fun p => wfb o (fst p) = true /\ wfb o (snd p) = true) ps).
      { apply (Forall2_Forall_r _ _ _ _ E). apply (Forall_impl _ (fun kv Hkv p Hp => pair_wf kv p Hkv Hp) F). }
      rewrite Forall_forall in *. intros p Hin. destruct (G1 p Hin) as [A B]. repeat split; try assumption.
      apply Hh. exact Hin. }
    refine (Forall_impl _ _ G). intros p [[A B] C]. rewrite A, B, C. reflexivity.
  Qed.

  Lemma wf_all : forall v, P v.
  Proof.
    induction v using val_induction; unfold P; intros r Hr.
    - injection Hr as <-; reflexivity.
    - injection Hr as <-; reflexivity.
    - injection Hr as <-; reflexivity.
    - injection Hr as <-; reflexivity.
    - injection Hr as <-; reflexivity.
    - rewrite co_tuple in Hr. eapply listlike_wf; eassumption.
    - rewrite co_list in Hr. eapply listlike_wf; eassumption.
    - rewrite co_fdict in Hr. eapply mapping_wf; eassumption.
    - rewrite co_dict in Hr. eapply mapping_wf; eassumption.
    - rewrite co_fset in Hr. eapply setlike_wf; eassumption.
    - rewrite co_set in Hr. eapply setlike_wf; eassumption.
    - rewrite co_iter in Hr. eapply listlike_wf; eassumption.
    - destruct k.
      + rewrite co_keys in Hr. destruct (mapM _ kvs) as [xs|e] eqn:E; [|discriminate Hr]. injection Hr as <-.
        simpl. refine (mapM_wf _ _ _ _ E). apply (Forall_impl _ (fun kv Hkv => proj1 Hkv) H).
      + rewrite co_values in Hr. destruct (mapM _ kvs) as [xs|e] eqn:E; [|discriminate Hr]. injection Hr as <-.
        simpl. refine (mapM_wf _ _ _ _ E). apply (Forall_impl _ (fun kv Hkv => proj2 Hkv) H).
      + rewrite co_items in Hr. destruct (mapM _ kvs) as [xs|e] eqn:E; [|discriminate Hr]. injection Hr as <-.
        simpl. refine (mapM_wf _ _ _ _ E). refine (Forall_impl _ _ H).
        intros kv Hkv y Hy. unfold conv_item in Hy.
        destruct (conv_pair o kv) as [p|e] eqn:Ep; [|discriminate Hy]. injection Hy as <-.
        destruct (pair_wf kv p Hkv Ep) as [H1 H2]. apply seq_out_wf. simpl. rewrite H1, H2. reflexivity.
    - rewrite co_ord in Hr. eapply listlike_wf; eassumption.
  Qed.

  (* ---- well-formed plain values are fixed points ------------------------------------------ *)
  Lemma mapM_fix {A} (f : A -> res A) l : Forall (fun x => f x = Ok x) l -> mapM f l = Ok l.
  Proof. intro F. rewrite (mapM_map_ok f (fun x => x) l F). rewrite map_id. reflexivity. Qed.

  Lemma wf_fix : forall r, wfb o r = true -> convert_output o r = Ok r.
  Proof.
    induction r using val_induction; intro W; try reflexivity; try discriminate W.
    - (* tuple *)
      simpl in W. apply andb_true_iff in W. destruct W as [Wt W]. apply negb_true_iff in Wt.
      rewrite co_tuple. unfold co_listlike. rewrite mapM_fix.
      + unfold seq_out. rewrite Wt. reflexivity.
      + rewrite forallb_forall in W. rewrite Forall_forall in *. intros x Hin. apply H; [exact Hin | apply W; exact Hin].
    - (* list *)
      simpl in W. rewrite co_list. unfold co_listlike. rewrite mapM_fix; [reflexivity|].
      rewrite forallb_forall in W. rewrite Forall_forall in *. intros x Hin. apply H; [exact Hin | apply W; exact Hin].
    - (* dict *)
      simpl in W. apply andb_true_iff in W. destruct W as [W N]. rewrite forallb_forall in W.
      rewrite co_dict. unfold co_mapping. rewrite mapM_fix.
      + unfold build_dict.
        assert (Hh : forallb (fun p => hashable (fst p)) kvs = true).
        { apply forallb_forall. intros kv Hin. specialize (W kv Hin). apply andb_true_iff in W. apply W. }
        rewrite Hh, (dict_of_nodup kvs N). reflexivity.
      + rewrite Forall_forall in *. intros kv Hin. specialize (W kv Hin).
        apply andb_true_iff in W. destruct W as [W _]. apply andb_true_iff in W. destruct W as [Wk Wv].
        unfold conv_pair. rewrite (proj1 (H kv Hin) Wk), (proj2 (H kv Hin) Wv). destruct kv; reflexivity.
    - (* set *)
      simpl in W. apply andb_true_iff in W. destruct W as [W N]. apply andb_true_iff in W. destruct W as [Ws W].
      apply negb_true_iff in Ws. rewrite forallb_forall in W.
      rewrite co_set. unfold co_setlike. rewrite mapM_fix.
      + rewrite Ws. unfold build_set.
        assert (Hh : forallb hashable l = true).
        { apply forallb_forall. intros x Hin. specialize (W x Hin). apply andb_true_iff in W. apply W. }
        rewrite Hh, (set_of_nodup l N). reflexivity.
      + rewrite Forall_forall in *. intros x Hin. specialize (W x Hin). apply andb_true_iff in W.
        apply H; [exact Hin | apply W].
  Qed.
End WF.

Theorem convert_output_wf : forall o v r, convert_output o v = Ok r -> wfb o r = true.
Proof. intros o v r. apply wf_all. Qed.

Theorem convert_output_idem : forall o v r, convert_output o v = Ok r -> convert_output o r = Ok r.
Proof. intros o v r H. apply wf_fix. apply (convert_output_wf o v r H). Qed.

(* ---- a simple sufficient condition: scalar keys and scalar set elements ------------------ *)
(* whatever else the value contains - views, iterators, ordering objects, frozen
   containers at any depth - finalisation succeeds under every option combination *)
Fixpoint scalar_keyed (v : val) : bool :=
  match v with
  | VNull | VBool _ | VInt _ | VFloat _ | VStr _ => true
  | VTuple l => forallb scalar_keyed l
  | VList l => forallb scalar_keyed l
  | VIter l => forallb scalar_keyed l
  | VOrd l => forallb scalar_keyed l
  | VFDict kvs => forallb (fun kv => is_scalar (fst kv) && scalar_keyed (snd kv)) kvs
  | VDict kvs => forallb (fun kv => is_scalar (fst kv) && scalar_keyed (snd kv)) kvs
  | VView _ kvs => forallb (fun kv => is_scalar (fst kv) && scalar_keyed (snd kv)) kvs
  | VFSet l => forallb is_scalar l
  | VSet l => forallb is_scalar l
  end.

Lemma scalar_guard o v : is_scalar v = true -> guard o v = true.
Proof. destruct v; simpl; intro H; try discriminate H; reflexivity. Qed.

Lemma forallb_impl_Forall {A} (p q : A -> bool) l :
  Forall (fun x => p x = true -> q x = true) l -> forallb p l = true -> forallb q l = true.
Proof.
  intro F. induction F as [|x r Hx _ IH]; simpl; intro H; [reflexivity|].
  apply andb_true_iff in H. destruct H as [H1 H2]. rewrite (Hx H1), (IH H2). reflexivity.
Qed.

Lemma scalar_keyed_guard o : forall v, scalar_keyed v = true -> guard o v = true.
Proof.
  assert (KV : forall kvs, Forall (fun kv : val * val =>
              (scalar_keyed (fst kv) = true -> guard o (fst kv) = true) /\
              (scalar_keyed (snd kv) = true -> guard o (snd kv) = true)) kvs ->
            forallb (fun kv => is_scalar (fst kv) && scalar_keyed (snd kv)) kvs = true ->
            forallb (fun kv => guard o (fst kv) && guard o (snd kv) && key_ok o (fst kv)) kvs = true).
  { intros kvs F. apply forallb_impl_Forall. refine (Forall_impl _ _ F). intros kv [_ Hv] H.
    apply andb_true_iff in H. destruct H as [Hk Hs].
    rewrite (scalar_guard o _ Hk), (Hv Hs), (scalar_key_ok o _ Hk). reflexivity. }
  assert (ST : forall l, forallb is_scalar l = true ->
            forallb (fun x => guard o x && (s2l o || key_ok o x)) l = true).
  { intro l. apply forallb_impl_Forall. apply Forall_forall. intros x _ Hx.
    rewrite (scalar_guard o _ Hx), (scalar_key_ok o _ Hx), orb_true_r. reflexivity. }
  induction v using val_induction; try reflexivity; cbn [scalar_keyed guard].
  - apply forallb_impl_Forall; assumption.
  - apply forallb_impl_Forall; assumption.
  - apply KV; assumption.
  - apply KV; assumption.
  - apply ST.
  - apply ST.
  - apply forallb_impl_Forall; assumption.
  - destruct k; apply forallb_impl_Forall; refine (Forall_impl _ _ H); intros kv [Hk Hv] Hs;
      apply andb_true_iff in Hs; destruct Hs as [S1 S2].
    + apply scalar_guard. exact S1.
    + apply Hv. exact S2.
    + rewrite (scalar_guard o _ S1), (Hv S2). reflexivity.
  - apply forallb_impl_Forall; assumption.
Qed.

(* ---- historic: the view branch before the repair of F7 ------------------------------------ *)
(* KeysView / ItemsView are collections.abc.Set, so they took the Set branch. *)
Definition view_elems (k : vkind) (kvs : list (val * val)) : list val :=
  match k with
  | KKeys => map fst kvs
  | KValues => map snd kvs
  | KItems => map (fun kv => VTuple [fst kv; snd kv]) kvs
  end.
Definition finalize_view_before_fix (o : opts) (k : vkind) (kvs : list (val * val)) : res val :=
  match k with
  | KValues => co_listlike o false (view_elems k kvs)
  | _ => co_setlike o (view_elems k kvs)
  end.

Lemma items_failed_before_fix o kvs : kvs <> [] -> t2l o = true -> s2l o = false ->
  finalize_view_before_fix o KItems kvs = Err PyType.
Proof.
  intros Hne Ht Hs. unfold finalize_view_before_fix, co_setlike, view_elems.
  destruct kvs as [|kv r]; [contradiction Hne; reflexivity|]. cbn [map mapM].
  rewrite co_tuple. unfold co_listlike.
  destruct (mapM (convert_output o) [fst kv; snd kv]) as [xs|[]]; [|reflexivity].
  unfold seq_out. rewrite Ht. simpl.
  destruct (mapM (convert_output o) _) as [ys|[]]; [|reflexivity].
  rewrite Hs. reflexivity.
Qed.
