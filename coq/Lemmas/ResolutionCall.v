(* call(name, args, kwargs) versus the direct call: receiver form and lazy (Lambda) parameters *)
From Coq Require Import List ZArith Bool Arith Lia.
From YV Require Import Common.Corr Model.Resolution Lemmas.ResolutionBind.
Import ListNotations.

(* the value a delivered argument stands for once it is used: a plain value is itself, the wrapper
   Lambda() builds evaluates its expression / returns its value when called, an expression object
   evaluates to its value *)
Definition arg_value (a : arg) : option value :=
  match a with
  | AConst v | ARaw v | AExpr _ v => Some v
  | ANoValue => Some VMarker
  | AMapC _ _ | AMapE _ _ _ => None
  end.
Definition force (b : bval) : option value :=
  match b with
  | BVal v => Some v
  | BCallable a | BExprObj a => arg_value a
  | BHid _ => None
  end.

(* what call() hands over instead of an argument expression: its value *)
Definition evaluated (a : arg) : arg :=
  match a with AConst v | AExpr _ v => ARaw v | _ => a end.

Section Sub.
Variable sub : tag -> tag -> bool.

(* a Lambda() parameter accepts the value exactly as it accepts the expression, and what it delivers
   forces to the same value: call() and the direct call differ at lazy parameters only in WHEN the
   argument is evaluated *)
Lemma lambda_call_equiv p a :
  pkind p = KLambda -> arg_value a <> None ->
  match deliver sub p (Some (Some (evaluated a))), deliver sub p (Some (Some a)) with
  | Some b1, Some b2 => force b1 = force b2
  | _, _ => False
  end.
Proof.
  intros Hk Ha. unfold deliver, Resolution.checked. rewrite Hk. cbn [check convert].
  destruct a as [v|i v|v| |k v|k i v]; cbn [evaluated]; try (exfalso; apply Ha; reflexivity);
    try (destruct v; reflexivity); reflexivity.
Qed.

(* receiver form: the receiver is the first positional argument of the binding, a plain value in both
   call forms, so C12_call_function applies unchanged *)
Lemma call_function_receiver ps r args kw :
  NoDup (bound_names ps) -> forallb eager_kind ps = true ->
  get_delegate sub ps (ARaw r :: map to_raw args) (raw_kw kw) = get_delegate sub ps (ARaw r :: args) kw.
Proof. intros N T. exact (call_function_typed sub ps (ARaw r :: args) kw N T). Qed.

End Sub.
