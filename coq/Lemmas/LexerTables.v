(* Every operator table a host can build gives a well-formed lexer configuration
   (so the totality theorems of Lemmas/LexerTotal.v apply to every customised
   engine), provided no operator symbol is empty. *)
From Coq Require Import List ZArith Bool Arith Lia.
From YV Require Import Common.Corr Model.OpTable Model.Lexer Model.LexerTables Lemmas.LexerTotal.
Import ListNotations.

Lemma str_eqb_refl : forall s : text, str_eqb s s = true.
Proof. induction s as [|c r IH]; [reflexivity|]. cbn. rewrite Z.eqb_refl, IH. reflexivity. Qed.

Lemma mem_text_In : forall (x : text) l, In x l -> mem_text x l = true.
Proof.
  induction l as [|y l IH]; [contradiction|]. intros [->|H]; cbn.
  - rewrite str_eqb_refl. reflexivity.
  - rewrite (IH H). apply orb_true_r.
Qed.

Lemma mem_text_app : forall (x : text) a b, mem_text x (a ++ b) = mem_text x a || mem_text x b.
Proof. induction a as [|y a IH]; intro b; [reflexivity|]. cbn. rewrite IH, orb_assoc. reflexivity. Qed.

(* the two stable sorts only permute *)
Lemma forallb_insert_name : forall P r l, forallb P (insert_name r l) = P r && forallb P l.
Proof.
  induction l as [|y t IH]; cbn [insert_name forallb]; [reflexivity|]. destruct (str_ltb (r_name y) (r_name r)); cbn [forallb]; [|reflexivity].
  rewrite IH. destruct (P y), (P r); reflexivity.
Qed.
Lemma forallb_sort_names : forall P l, forallb P (sort_names l) = forallb P l.
Proof. unfold sort_names. induction l as [|x l IH]; [reflexivity|]. cbn [fold_right forallb]. rewrite forallb_insert_name, IH. reflexivity. Qed.
Lemma forallb_insert_len : forall P r l, forallb P (insert_len r l) = P r && forallb P l.
Proof.
  induction l as [|y t IH]; cbn [insert_len forallb]; [reflexivity|]. destruct (r_relen r <? r_relen y)%nat; cbn [forallb]; [|reflexivity].
  rewrite IH. destruct (P y), (P r); reflexivity.
Qed.
Lemma forallb_sort_len : forall P l, forallb P (sort_len l) = forallb P l.
Proof. unfold sort_len. induction l as [|x l IH]; [reflexivity|]. cbn [fold_right forallb]. rewrite forallb_insert_len, IH. reflexivity. Qed.

Lemma forallb_map : forall (A B : Type) (f : A -> B) P l, forallb P (map f l) = forallb (fun x => P (f x)) l.
Proof. induction l as [|x l IH]; [reflexivity|]. cbn. rewrite IH. reflexivity. Qed.

Definition nonempty_lit (r : text * text) : bool := negb (Nat.eqb (length (snd r)) O).

Lemma row_ok_nonempty : forall r, row_ok r = true -> negb (Nat.eqb (length (b_sym r)) O) = true.
Proof. intros r H. unfold row_ok in H. apply andb_prop in H. tauto. Qed.

Section Table.
Variable B : built.
Variable base : lexcfg.
Hypothesis TOK : table_okb B = true.

Lemma rows_ok : forallb row_ok (rows B) = true.
Proof. unfold table_okb in TOK. apply andb_prop in TOK. tauto. Qed.

(* no string rule matches the empty string *)
Lemma table_ops_nonempty : ops_nonempty (cfg_of_table B base).
Proof.
  unfold ops_nonempty. cbn [op_strs cfg_of_table]. rewrite forallb_map. unfold sorted_rules.
  rewrite forallb_sort_len, forallb_sort_names. unfold string_rules. rewrite !forallb_app.
  apply andb_true_intro. split.
  - rewrite forallb_map. apply forallb_forall. intros r Hr. cbn [snd r_lit]. apply filter_In in Hr. destruct Hr as [Hr _].
    pose proof rows_ok as R. rewrite forallb_forall in R. apply row_ok_nonempty, R, Hr.
  - apply andb_true_intro. split.
    + unfold table_okb in TOK. apply andb_prop in TOK. destruct TOK as [_ T]. destruct (nvop B); [cbn; rewrite T; reflexivity|reflexivity].
    + apply andb_true_intro. split; [destruct (has_sym sym_index B)|destruct (has_sym sym_map B)]; reflexivity.
Qed.

(* every token type t_KEYWORD_STRING can give a word is a declared token *)
Lemma table_names_declared :
  forallb (fun r => mem_text (snd r) (tok_names (cfg_of_table B base))) (op_table (cfg_of_table B base)) = true.
Proof.
  cbn [op_table tok_names cfg_of_table]. rewrite forallb_map. apply forallb_forall. intros r Hr. cbn [snd].
  pose proof rows_ok as R. rewrite forallb_forall in R. specialize (R _ Hr). unfold row_ok in R.
  apply andb_prop in R. destruct R as [_ R]. unfold table_tokens. rewrite !mem_text_app.
  destruct (str_eqb (b_sym r) sym_index) eqn:E1.
  - assert (M : mem_text (b_name r) base_tokens = true).
    { unfold base_tokens. cbn [mem_text]. rewrite R. repeat rewrite orb_true_r. reflexivity. }
    rewrite M. reflexivity.
  - destruct (str_eqb (b_sym r) sym_map) eqn:E2.
    + assert (M : mem_text (b_name r) base_tokens = true).
      { unfold base_tokens. cbn [mem_text]. rewrite R. repeat rewrite orb_true_r. reflexivity. }
      rewrite M. reflexivity.
    + assert (M : mem_text (b_name r) (map b_name (filter (fun r => negb (is_bracket_sym (b_sym r))) (rows B))) = true).
      { apply mem_text_In. apply in_map. apply filter_In. split; [exact Hr|]. unfold is_bracket_sym. rewrite E1, E2. reflexivity. }
      rewrite M. repeat rewrite orb_true_r. reflexivity.
Qed.

Lemma table_keywords_declared :
  forallb (fun r => mem_text (snd r) (tok_names (cfg_of_table B base))) (keywords (cfg_of_table B base)) = true.
Proof.
  cbn [keywords tok_names cfg_of_table]. apply forallb_forall. intros r Hr. unfold table_tokens. rewrite !mem_text_app.
  assert (M : mem_text (snd r) (map snd (keywords base)) = true) by (apply mem_text_In, in_map, Hr).
  rewrite M. repeat rewrite orb_true_r. reflexivity.
Qed.

Theorem cfg_of_table_wf : base_okb base = true -> cfg_wfb (cfg_of_table B base) = true.
Proof.
  intro BO. unfold base_okb in BO. apply andb_prop in BO. destruct BO as [BO G3]. apply andb_prop in BO. destruct BO as [G1 G2].
  unfold cfg_wfb. rewrite table_ops_nonempty, table_names_declared, table_keywords_declared.
  cbn [guard_escape guard_number error_yaql cfg_of_table tok_names]. rewrite G1, G2, G3. reflexivity.
Qed.
End Table.

(* ---------- what _build_operator_table builds is such a table ---------- *)
Lemma forallb_set_row : forall r rs, row_ok r = true -> forallb row_ok rs = true -> forallb row_ok (set_row r rs) = true.
Proof.
  induction rs as [|x t IH]; intros Hr H; cbn [set_row forallb]; [rewrite Hr; reflexivity|].
  cbn [forallb] in H. apply andb_prop in H. destruct H as [Hx Ht].
  destruct (str_eqb (b_sym x) (b_sym r)); cbn [forallb]; [rewrite Hr, Ht; reflexivity|].
  rewrite Hx, (IH Hr Ht). reflexivity.
Qed.

Lemma name_for_ok : forall s old gen name gen', name_for s old gen = (name, gen') ->
  (if str_eqb s sym_index then str_eqb K_INDEXER name else if str_eqb s sym_map then str_eqb K_MAP name else true) = true.
Proof.
  intros s old gen name gen'. unfold name_for. destruct (str_eqb s sym_index); [intros [= <- _]; reflexivity|].
  destruct (str_eqb s sym_map); [intros [= <- _]; reflexivity|reflexivity].
Qed.

Definition nv_ok (nv : option str) : bool := match nv with Some s => negb (Nat.eqb (length s) O) | None => true end.

Lemma build_loop_ok : forall ops prec gen rs nv Bt,
  ops_symbols_nonempty ops = true -> forallb row_ok rs = true -> nv_ok nv = true ->
  build_loop ops prec gen rs nv = Some Bt -> table_okb Bt = true.
Proof.
  induction ops as [|e ops IH]; intros prec gen rs nv Bt NE RS NV H.
  - cbn in H. injection H as <-. unfold table_okb. cbn [rows nvop]. rewrite RS. exact NV.
  - cbn [ops_symbols_nonempty forallb] in NE. apply andb_prop in NE. destruct NE as [NEe NEr].
    destruct e as [|s k al]; [exact (IH _ _ _ _ _ NEr RS NV H)|].
    assert (ROW : forall up bp name,
              (if str_eqb s sym_index then str_eqb K_INDEXER name else if str_eqb s sym_map then str_eqb K_MAP name else true) = true ->
              row_ok {| b_sym := s; b_up := up; b_bp := bp; b_name := name; b_alias := al |} = true).
    { intros up bp name Hn. unfold row_ok. cbn [b_sym b_name]. rewrite NEe, Hn. reflexivity. }
    assert (STEP : forall k', match new_levels k' prec (old_row s rs) with
                              | None => None
                              | Some (up', bp') =>
                                let '(name, gen') := name_for s (old_row s rs) gen in
                                build_loop ops prec gen' (set_row {| b_sym := s; b_up := up'; b_bp := bp'; b_name := name; b_alias := al |} rs) nv
                              end = Some Bt -> table_okb Bt = true).
    { intros k' H'. destruct (new_levels k' prec (old_row s rs)) as [[up' bp']|]; [|discriminate].
      destruct (name_for s (old_row s rs) gen) as [name gen'] eqn:EN.
      eapply IH; [exact NEr| |exact NV|exact H']. apply forallb_set_row; [|exact RS]. apply ROW.
      exact (name_for_ok _ _ _ _ _ EN). }
    destruct k; cbn [build_loop] in H; try exact (STEP _ H).
    destruct nv as [x|]; [discriminate|]. eapply IH; [exact NEr|exact RS| |exact H]. cbn. exact NEe.
Qed.

Theorem build_table_ok : forall ops Bt, ops_symbols_nonempty ops = true -> build_table ops = Some Bt -> table_okb Bt = true.
Proof. intros ops Bt NE H. exact (build_loop_ok ops 1%Z 1%Z [] None Bt NE eq_refl eq_refl H). Qed.

(* every engine a host can build *)
Theorem cfg_of_ops_wf : forall ops base cfg, ops_symbols_nonempty ops = true -> base_okb base = true ->
  cfg_of_ops ops base = Some cfg -> cfg_wfb cfg = true.
Proof.
  intros ops base cfg NE BO H. unfold cfg_of_ops in H. destruct (build_table ops) as [Bt|] eqn:E; [|discriminate].
  injection H as <-. apply cfg_of_table_wf; [exact (build_table_ok ops Bt NE E)|exact BO].
Qed.
