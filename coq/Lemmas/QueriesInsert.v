(* insert: the tuple overload (list.insert) and the iterator overload (generator)
   agree for non-negative positions; for negative ones the generator drops the value (F18). *)
From Coq Require Import List ZArith Bool Arith Lia ZifyBool.
From YV Require Import Model.Queries.
Import ListNotations.

Section Insert.
  Context {A : Type}.

  Lemma iter_insert_from_past n pos (v : A) l : (pos < n)%Z -> iter_insert_from n pos v l = l.
  Proof.
    revert n. induction l as [|t r IH]; intros n H; cbn [iter_insert_from].
    - assert (Q : (pos >? n - 1)%Z = false) by lia. rewrite Q. reflexivity.
    - assert (Q : (n =? pos)%Z = false) by lia. rewrite Q, IH; [reflexivity | lia].
  Qed.

  Lemma iter_insert_negative l pos (v : A) : (pos < 0)%Z -> iter_insert_l l pos v = l.
  Proof. intro H. apply iter_insert_from_past. exact H. Qed.

  Lemma iter_insert_from_at n pos (v : A) l : (n <= pos)%Z ->
    iter_insert_from n pos v l = firstn (Z.to_nat (pos - n)) l ++ v :: skipn (Z.to_nat (pos - n)) l.
  Proof.
    revert n. induction l as [|t r IH]; intros n H; cbn [iter_insert_from].
    - assert (Q : (pos >? n - 1)%Z = true) by lia. rewrite Q, firstn_nil, skipn_nil. reflexivity.
    - destruct (n =? pos)%Z eqn:E.
      + replace (Z.to_nat (pos - n)) with 0%nat by lia. cbn [firstn skipn app].
        rewrite iter_insert_from_past by lia. reflexivity.
      + rewrite IH by lia. replace (Z.to_nat (pos - n)) with (S (Z.to_nat (pos - (n + 1)))) by lia. reflexivity.
  Qed.

  Lemma insert_agree_nonneg l pos (v : A) : (0 <= pos)%Z -> iter_insert_l l pos v = list_insert_l l pos v.
  Proof.
    intro H. unfold iter_insert_l, list_insert_l, norm_pos. rewrite iter_insert_from_at by exact H.
    assert (Q : (pos <? 0)%Z = false) by lia. rewrite Q. rewrite Z.sub_0_r.
    destruct (Z_le_gt_dec pos (Z.of_nat (length l))) as [L|L].
    - replace (Z.min pos (Z.of_nat (length l))) with pos by lia. reflexivity.
    - replace (Z.min pos (Z.of_nat (length l))) with (Z.of_nat (length l)) by lia.
      rewrite Nat2Z.id. rewrite !firstn_all2, !skipn_all2 by lia. reflexivity.
  Qed.
End Insert.
