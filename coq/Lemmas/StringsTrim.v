(* Proofs about trim / norm / isEmpty / startsWith / endsWith / characters / toCharArray / * *)
From Coq Require Import List ZArith Bool Lia ZifyBool Arith Sorted.
From YV Require Import Common.Corr Model.Strings Lemmas.StringsSlice Lemmas.StringsFind.
Import ListNotations.
Open Scope Z_scope.

Definition all_in (f : Z -> bool) (p : str) : Prop := Forall (fun c => f c = true) p.
Definition head_out (f : Z -> bool) (s : str) : Prop := forall c r, s = c :: r -> f c = false.
Definition last_out (f : Z -> bool) (s : str) : Prop := forall u c, s = u ++ [c] -> f c = false.

Lemma lstrip_spec f s : exists p, s = p ++ lstrip f s /\ all_in f p /\ head_out f (lstrip f s).
Proof.
  induction s as [|c r IH].
  - exists []. split; [reflexivity|]. split; [constructor|]. intros c r H. discriminate.
  - cbn [lstrip]. destruct (f c) eqn:E.
    + destruct IH as (p & Hp & Ha & Hh). exists (c :: p). split; [cbn; congruence|].
      split; [constructor; assumption|exact Hh].
    + exists []. split; [reflexivity|]. split; [constructor|]. intros c' r' H. injection H as <- <-. exact E.
Qed.

Lemma rstrip_spec f s : exists q, s = rstrip f s ++ q /\ all_in f q /\ last_out f (rstrip f s).
Proof.
  induction s as [|c r IH].
  - exists []. split; [reflexivity|]. split; [constructor|]. intros u c H. destruct u; discriminate.
  - cbn [rstrip]. destruct IH as (q & Hq & Ha & Hl). destruct (rstrip f r) as [|x r'] eqn:Er.
    + destruct (f c) eqn:E.
      * exists (c :: q). split; [cbn in *; congruence|]. split; [constructor; assumption|].
        intros u c' H. destruct u; discriminate.
      * exists q. split; [cbn in *; congruence|]. split; [exact Ha|].
        intros u c' H. destruct u as [|a u].
        -- injection H as <-. exact E.
        -- injection H as _ H. destruct u; discriminate.
    + exists q. split; [cbn in *; congruence|]. split; [exact Ha|].
      intros u c' H. destruct u as [|a u]; [discriminate|]. injection H as _ H. exact (Hl u c' H).
Qed.

Lemma rstrip_head f s : head_out f s -> head_out f (rstrip f s).
Proof.
  intros Hh c r H. destruct s as [|a s']; [discriminate|].
  cbn [rstrip] in H. destruct (rstrip f s') eqn:E.
  - destruct (f a) eqn:Ea; [discriminate|]. injection H as <- _. exact Ea.
  - injection H as <- _. apply (Hh a s'). reflexivity.
Qed.

(* trim: what is removed is a prefix and a suffix made of set characters only, and it is
   maximal: the result neither starts nor ends with a set character *)
Lemma strip_spec f s : exists p q,
  s = p ++ strip f s ++ q /\ all_in f p /\ all_in f q /\ head_out f (strip f s) /\ last_out f (strip f s).
Proof.
  unfold strip. destruct (lstrip_spec f s) as (p & Hp & Hap & Hh).
  destruct (rstrip_spec f (lstrip f s)) as (q & Hq & Haq & Hl).
  exists p, q. split; [congruence|]. split; [exact Hap|]. split; [exact Haq|].
  split; [apply rstrip_head; exact Hh|exact Hl].
Qed.

Lemma memb_In c cs : memb c cs = true <-> In c cs.
Proof.
  induction cs as [|d r IH]; cbn; [split; [discriminate|tauto]|].
  rewrite orb_true_iff, IH, Z.eqb_eq. split; intros [H|H]; auto.
Qed.

(* ---- norm / isEmpty ------------------------------------------------------------- *)
Lemma norm_isempty s chars : is_empty s true chars = true <-> norm s chars = None.
Proof.
  unfold is_empty, norm. destruct s as [s|]; [|tauto].
  destruct (is_nil (strip (charset chars) s)); split; congruence.
Qed.

Lemma norm_some s chars v : norm (Some s) chars = Some v <-> v = trim s chars /\ v <> [].
Proof.
  unfold norm, trim. destruct (strip (charset chars) s) as [|c r] eqn:E; cbn [is_nil].
  - split; [discriminate|]. intros [-> H]. congruence.
  - split; [intro H; injection H as <-; split; congruence|]. intros [-> _]. reflexivity.
Qed.

Lemma is_empty_notrim s chars : is_empty (Some s) false chars = true <-> s = [].
Proof. unfold is_empty, is_nil. destruct s; split; congruence. Qed.

(* ---- startsWith / endsWith ----------------------------------------------------------- *)
Lemma starts_with_spec s ps : starts_with s ps = true <-> exists p, In p ps /\ exists t, s = p ++ t.
Proof.
  unfold starts_with. rewrite existsb_exists. split; intros (p & Hin & H); exists p; split; try exact Hin;
    apply prefixb_iff; exact H.
Qed.

Lemma ends_with_spec s ps : ends_with s ps = true <-> exists p, In p ps /\ exists t, s = t ++ p.
Proof.
  unfold ends_with. rewrite existsb_exists. split; intros (p & Hin & H); exists p; split; try exact Hin.
  - apply prefixb_iff in H as [t Ht]. exists (rev t).
    rewrite <- (rev_involutive s), Ht, rev_app_distr, rev_involutive. reflexivity.
  - destruct H as [t ->]. apply prefixb_iff. exists (rev t). apply rev_app_distr.
Qed.

(* ---- toCharArray, len, * ---------------------------------------------------------------- *)
Lemma to_char_array_spec s :
  concat (to_char_array s) = s /\ join [] (to_char_array s) = s /\ length (to_char_array s) = length s.
Proof.
  unfold to_char_array. split; [|split].
  - induction s as [|c r IH]; [reflexivity|]. cbn. rewrite IH. reflexivity.
  - induction s as [|c r IH]; [reflexivity|]. cbn [map]. destruct r as [|d r]; [reflexivity|].
    cbn [map] in *. change (join [] ([c] :: [d] :: map (fun c0 => [c0]) r)) with (c :: join [] ([d] :: map (fun c0 => [c0]) r)).
    rewrite IH. reflexivity.
  - apply map_length.
Qed.

Lemma str_mul_spec s n :
  (n <= 0 -> str_mul s n = []) /\ (0 <= n -> zlen (str_mul s n) = n * zlen s) /\
  str_mul s (n + 1) = (if n <? 0 then str_mul s (n + 1) else s ++ str_mul s n).
Proof.
  unfold str_mul. split; [|split].
  - intro H. replace (Z.to_nat n) with O by lia. reflexivity.
  - intro H. rewrite <- (Z2Nat.id n) at 2 by exact H. generalize (Z.to_nat n) as k. intro k.
    induction k as [|k IH]; [reflexivity|]. cbn [repeat_str]. unfold zlen in *. rewrite app_length. lia.
  - destruct (n <? 0) eqn:E; [reflexivity|]. replace (Z.to_nat (n + 1)) with (S (Z.to_nat n)) by lia. reflexivity.
Qed.

(* ---- characters -------------------------------------------------------------------------- *)
Lemma insert_sorted_in c x l : In x (insert_sorted c l) <-> x = c \/ In x l.
Proof.
  induction l as [|d r IH]; cbn [insert_sorted].
  - cbn. intuition.
  - destruct (c <? d) eqn:E1; [cbn; intuition|]. destruct (c =? d) eqn:E2.
    + apply Z.eqb_eq in E2. subst d. cbn. intuition.
    + cbn [In]. rewrite IH. intuition.
Qed.

Lemma insert_sorted_sorted c l : StronglySorted Z.lt l -> StronglySorted Z.lt (insert_sorted c l).
Proof.
  induction l as [|d r IH]; intro H; cbn [insert_sorted].
  - constructor; constructor.
  - apply StronglySorted_inv in H as [Hr Hd].
    destruct (c <? d) eqn:E1.
    + constructor; [constructor; assumption|]. constructor; [lia|].
      eapply Forall_impl; [|exact Hd]. cbn. intros a Ha. lia.
    + destruct (c =? d) eqn:E2; [constructor; assumption|].
      constructor; [apply IH; exact Hr|]. apply Forall_forall. intros x Hx.
      apply insert_sorted_in in Hx as [->|Hx]; [lia|]. rewrite Forall_forall in Hd. apply Hd. exact Hx.
Qed.

Lemma characters_spec f :
  (forall c, In c (characters f) <-> In c (characters_string f)) /\ StronglySorted Z.lt (characters f).
Proof.
  unfold characters. generalize (characters_string f) as l. intro l. split.
  - intro c. induction l as [|d r IH]; cbn [fold_right]; [tauto|].
    rewrite insert_sorted_in, IH. cbn. intuition.
  - induction l as [|d r IH]; cbn [fold_right]; [constructor|]. apply insert_sorted_sorted. exact IH.
Qed.
