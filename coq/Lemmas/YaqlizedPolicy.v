(* Proofs about the access policy of Model/Yaqlized.v.  Everything is proved for
   arbitrary regex / predicate oracles (Section variables), every settings value,
   every name. *)
From Coq Require Import List ZArith Bool Lia.
From YV Require Import Common.Corr Model.Yaqlized.
Import ListNotations.
Open Scope Z_scope.

Lemma str_eqb_refl : forall a, str_eqb a a = true.
Proof.
  induction a as [|x a IH]; [reflexivity|]. cbn [str_eqb]. rewrite Z.eqb_refl, IH. reflexivity.
Qed.

Lemma str_eqb_eq : forall a b, str_eqb a b = true <-> a = b.
Proof.
  induction a as [|x a IH]; intros [|y b]; cbn [str_eqb]; split; intro H; try reflexivity; try discriminate.
  - apply andb_true_iff in H. destruct H as [H1 H2]. apply Z.eqb_eq in H1. apply IH in H2. congruence.
  - inversion H; subst. rewrite Z.eqb_refl. cbn. apply IH. reflexivity.
Qed.

Section Policy.
  Variable rs : nat -> name -> bool.
  Variable ps : nat -> name -> bool.

  Notation match_entry := (match_entry rs ps).
  Notation matches_any := (matches_any rs ps).
  Notation validate_name := (validate_name rs ps).
  Notation access := (access rs ps).
  Notation gate := (gate rs ps).

  (* the policy as a proposition *)
  Definition allowed (s : settings) (n : name) : Prop :=
    starts_underscore n = false /\
    (s_white s <> [] -> matches_any n (s_white s) = true) /\
    (s_white s = [] -> matches_any n (s_black s) = false).

  (* whitelist and blacklist are observed only as sets *)
  Lemma matches_any_In : forall n l,
    matches_any n l = true <-> exists e, In e l /\ match_entry n e = true.
  Proof. intros n l. unfold Yaqlized.matches_any. apply existsb_exists. Qed.

  Lemma matches_any_set : forall n l1 l2,
    (forall e, In e l1 <-> In e l2) -> matches_any n l1 = matches_any n l2.
  Proof.
    intros n l1 l2 Hset.
    destruct (matches_any n l1) eqn:E1; destruct (matches_any n l2) eqn:E2; try reflexivity.
    - apply matches_any_In in E1. destruct E1 as [e [Hin Hm]].
      assert (H2 : matches_any n l2 = true) by (apply matches_any_In; exists e; split; [apply Hset; exact Hin | exact Hm]).
      congruence.
    - apply matches_any_In in E2. destruct E2 as [e [Hin Hm]].
      assert (H1 : matches_any n l1 = true) by (apply matches_any_In; exists e; split; [apply Hset; exact Hin | exact Hm]).
      congruence.
  Qed.

  Lemma matches_any_app : forall n l1 l2,
    matches_any n (l1 ++ l2) = matches_any n l1 || matches_any n l2.
  Proof. intros. unfold Yaqlized.matches_any. apply existsb_app. Qed.

  Lemma validate_spec : forall n s, validate_name n s = true <-> allowed s n.
  Proof.
    intros n s. unfold Yaqlized.validate_name, allowed.
    destruct (starts_underscore n) eqn:Eu.
    - split; [discriminate | intros [H _]; discriminate].
    - destruct (s_white s) as [|w ws] eqn:Ew.
      + split.
        * intro H. apply negb_true_iff in H. split; [reflexivity|]. split; [congruence | intros _; exact H].
        * intros [_ [_ H]]. rewrite (H eq_refl). reflexivity.
      + split.
        * intro H. split; [reflexivity|]. split; [intros _; exact H | discriminate].
        * intros [_ [H _]]. apply H. discriminate.
  Qed.

  Lemma validate_false_spec : forall n s, validate_name n s = false <-> ~ allowed s n.
  Proof.
    intros n s. split.
    - intros H A. apply validate_spec in A. congruence.
    - intro H. destruct (validate_name n s) eqn:E; [|reflexivity]. exfalso. apply H, validate_spec, E.
  Qed.

  (* the member a form goes for *)
  Lemma target_reach : forall f s n m, target f s n = Reach m ->
    m = match f with FIndex => n | _ => rtarget (remap_name n s) end.
  Proof.
    intros f s n m H. destruct f; cbn [target] in H.
    - destruct (remap_name n s) eqn:E; inversion H; reflexivity.
    - destruct (remap_name n s) eqn:E; inversion H; reflexivity.
    - inversion H; reflexivity.
  Qed.

  (* ---- soundness / completeness of the three access forms ---- *)
  Lemma policy_sound : forall f st n m, access f st n = Reach m ->
    exists s, st = Some s /\ switch f s = true /\ allowed s n /\ target f s n = Reach m /\
              m = match f with FIndex => n | _ => rtarget (remap_name n s) end.
  Proof.
    intros f st n m H. unfold Yaqlized.access in H.
    destruct st as [s|]; [|discriminate].
    destruct (switch f s) eqn:Es; cbn [negb] in H; [|discriminate].
    destruct (validate_name n s) eqn:Ev; [|discriminate].
    exists s. split; [reflexivity|]. split; [exact Es|]. split; [apply validate_spec; exact Ev|].
    split; [exact H | apply target_reach; exact H].
  Qed.

  Lemma policy_complete : forall f s n, switch f s = true -> allowed s n ->
    access f (Some s) n = target f s n.
  Proof.
    intros f s n Es A. unfold Yaqlized.access. rewrite Es. cbn [negb].
    apply validate_spec in A. rewrite A. reflexivity.
  Qed.

  Lemma policy_denies : forall f s n, switch f s = true -> ~ allowed s n ->
    access f (Some s) n = Denied (deny_exn f).
  Proof.
    intros f s n Es A. unfold Yaqlized.access. rewrite Es. cbn [negb].
    apply validate_false_spec in A. rewrite A. reflexivity.
  Qed.

  Lemma policy_iff : forall f st n m,
    access f st n = Reach m <->
    exists s, st = Some s /\ switch f s = true /\ allowed s n /\ target f s n = Reach m.
  Proof.
    intros f st n m. split.
    - intro H. destruct (policy_sound f st n m H) as [s [H1 [H2 [H3 [H4 _]]]]]. exists s. auto.
    - intros [s [H1 [H2 [H3 H4]]]]. subst st. rewrite (policy_complete f s n H2 H3). exact H4.
  Qed.

  Lemma not_yaqlized_denied : forall f n, access f None n = Denied ENoMatch.
  Proof. reflexivity. Qed.

  Lemma switched_off_denied : forall f s n, switch f s = false -> access f (Some s) n = Denied ENoMatch.
  Proof. intros f s n H. unfold Yaqlized.access. rewrite H. reflexivity. Qed.

  Lemma underscore_never : forall f st n m, access f st n = Reach m -> starts_underscore n = false.
  Proof.
    intros f st n m H. destruct (policy_sound f st n m H) as [s [_ [_ [[A _] _]]]]. exact A.
  Qed.

  Lemma assoc_In : forall B k (l : list (name * B)) v, assoc k l = Some v -> In (k, v) l.
  Proof.
    intros B k l. induction l as [|[k' v'] r IH]; intros v H; cbn [assoc] in H; [discriminate|].
    destruct (str_eqb k k') eqn:E.
    - apply str_eqb_eq in E. inversion H; subst. left. reflexivity.
    - right. apply IH. exact H.
  Qed.

  (* a member whose own name begins with '_' is reached only as an explicitly
     configured remapping target, never through the indexer *)
  Lemma underscore_member_only_by_remap : forall f st n m,
    access f st n = Reach m -> starts_underscore m = true ->
    f <> FIndex /\ exists s v, st = Some s /\ In (n, v) (s_remap s) /\ rtarget v = m.
  Proof.
    intros f st n m H Hu.
    destruct (policy_sound f st n m H) as [s [Hst [_ [[A _] [_ Hm]]]]].
    destruct f.
    - split; [discriminate|]. unfold remap_name in Hm. destruct (assoc n (s_remap s)) as [v|] eqn:Ea.
      + exists s, v. split; [exact Hst|]. split; [apply assoc_In; exact Ea | symmetry; exact Hm].
      + cbn [rtarget] in Hm. subst m. congruence.
    - split; [discriminate|]. unfold remap_name in Hm. destruct (assoc n (s_remap s)) as [v|] eqn:Ea.
      + exists s, v. split; [exact Hst|]. split; [apply assoc_In; exact Ea | symmetry; exact Hm].
      + cbn [rtarget] in Hm. subst m. congruence.
    - subst m. congruence.
  Qed.

  (* ---- one gate for the three forms ---- *)
  Definition plain_remap (s : settings) : Prop :=
    forall k v, In (k, v) (s_remap s) -> exists m, v = RStr m.

  Lemma target_plain : forall f s n, plain_remap s -> exists m, target f s n = Reach m.
  Proof.
    intros f s n P. destruct f; cbn [target]; try (eexists; reflexivity).
    - unfold remap_name. destruct (assoc n (s_remap s)) as [v|] eqn:Ea; [|eexists; reflexivity].
      destruct (P n v (assoc_In _ _ _ _ Ea)) as [m ->]. eexists; reflexivity.
    - unfold remap_name. destruct (assoc n (s_remap s)) as [v|] eqn:Ea; [|eexists; reflexivity].
      destruct (P n v (assoc_In _ _ _ _ Ea)) as [m ->]. eexists; reflexivity.
  Qed.

  Lemma accepted_is_gate : forall f s n, switch f s = true -> plain_remap s ->
    accepted (access f (Some s) n) = gate s n.
  Proof.
    intros f s n Es P. unfold Yaqlized.access, Yaqlized.gate. rewrite Es. cbn [negb].
    destruct (validate_name n s); [|reflexivity].
    destruct (target_plain f s n P) as [m ->]. reflexivity.
  Qed.

  Lemma accepted_le_gate : forall f st n, accepted (access f st n) = true ->
    exists s, st = Some s /\ switch f s = true /\ gate s n = true.
  Proof.
    intros f st n H. destruct (access f st n) as [e|m] eqn:E; [discriminate|].
    destruct (policy_sound f st n m E) as [s [H1 [H2 [H3 _]]]].
    exists s. split; [exact H1|]. split; [exact H2|]. apply validate_spec. exact H3.
  Qed.

  Lemma same_gate : forall f1 f2 s n, switch f1 s = switch f2 s -> plain_remap s ->
    accepted (access f1 (Some s) n) = accepted (access f2 (Some s) n).
  Proof.
    intros f1 f2 s n Hs P. destruct (switch f2 s) eqn:E2.
    - rewrite (accepted_is_gate f1 s n Hs P), (accepted_is_gate f2 s n E2 P). reflexivity.
    - rewrite (switched_off_denied f1 s n Hs), (switched_off_denied f2 s n E2). reflexivity.
  Qed.

  (* without the plain-remap premise the three forms still never accept a name
     the gate refuses, and refuse with the form's own exception class *)
  Lemma denied_by_gate : forall f s n, switch f s = true -> gate s n = false ->
    access f (Some s) n = Denied (deny_exn f).
  Proof.
    intros f s n Es G. unfold Yaqlized.access. rewrite Es. cbn [negb]. unfold Yaqlized.gate in G. rewrite G. reflexivity.
  Qed.

  (* ---- remap targets are hidden ---- *)
  Lemma remap_target_blacklisted : forall a k v, a_blacklist_remapped a = true -> In (k, v) (a_remap a) ->
    matches_any (rtarget v) (s_black (build_settings a)) = true.
  Proof.
    intros a k v Hb Hin. cbn [build_settings s_black]. rewrite Hb, matches_any_app.
    apply orb_true_iff. right. apply matches_any_In. exists (EStr (rtarget v)). split.
    - apply in_map_iff. exists (k, v). split; [reflexivity | exact Hin].
    - cbn [Yaqlized.match_entry]. apply str_eqb_refl.
  Qed.

  Lemma remap_targets_hidden : forall a k v f,
    a_blacklist_remapped a = true -> In (k, v) (a_remap a) ->
    matches_any (rtarget v) (a_white a) = false ->
    accepted (access f (Some (build_settings a)) (rtarget v)) = false.
  Proof.
    intros a k v f Hb Hin Hw.
    destruct (accepted (access f (Some (build_settings a)) (rtarget v))) eqn:E; [|reflexivity].
    exfalso. apply accepted_le_gate in E. destruct E as [s [Hs [_ G]]]. inversion Hs; subst s.
    unfold Yaqlized.gate in G. apply validate_spec in G. destruct G as [_ [G1 G2]].
    cbn [build_settings s_white] in G1, G2.
    destruct (a_white a) as [|w ws] eqn:Ew.
    - specialize (G2 eq_refl). rewrite (remap_target_blacklisted a k v Hb Hin) in G2. discriminate.
    - rewrite G1 in Hw; [discriminate | discriminate].
  Qed.

  (* yaqlize() never forwards blacklist_remapped_attributes: targets are hidden
     whatever the caller passed *)
  Lemma yaqlize_hides_targets : forall a s k v f,
    yaqlize None a = Some s -> In (k, v) (a_remap a) ->
    matches_any (rtarget v) (a_white a) = false ->
    accepted (access f (Some s) (rtarget v)) = false.
  Proof.
    intros a s k v f Hy Hin Hw. cbn [yaqlize] in Hy. inversion Hy; subst s; clear Hy.
    apply (remap_targets_hidden _ k v f); [reflexivity | exact Hin | exact Hw].
  Qed.

  Lemma yaqlize_keeps_existing : forall s a, yaqlize (Some s) a = Some s.
  Proof. reflexivity. Qed.

  (* ---- chains with auto-yaqlization ---- *)
  Definition in_force (o : hobj) (st : option settings) : Prop :=
    st = h_settings o \/ (h_settings o = None /\ h_builtin o = false /\ st = Some auto_default).

  Lemma after_auto_in_force : forall s o, in_force o (after_auto s o).
  Proof.
    intros s o. unfold in_force, after_auto. destruct (h_settings o) as [s'|] eqn:E.
    - left. reflexivity.
    - destruct (s_auto s && negb (h_builtin o)) eqn:Ea.
      + right. apply andb_true_iff in Ea. destruct Ea as [_ Hb]. apply negb_true_iff in Hb. auto.
      + left. reflexivity.
  Qed.

  Lemma after_auto_off : forall s o, s_auto s = false -> after_auto s o = h_settings o.
  Proof. intros s o H. unfold after_auto. rewrite H. destruct (h_settings o); reflexivity. Qed.

  Section Chain.
    Variable child : hobj -> form -> name -> hobj.
    Notation walk := (walk rs ps child).

    (* every member reached along a path was reached on an object that carries
       settings (its own, or the automatic ones of a non-builtin result), through
       a name the settings in force allow *)
    Lemma walk_steps : forall path o st, in_force o st ->
      Forall (fun step => let '(o', s', m) := step in
                in_force o' (Some s') /\ exists f n, In (f, n) path /\ access f (Some s') n = Reach m)
             (fst (walk o st path)).
    Proof.
      induction path as [|[f n] rest IH]; intros o st Hf; cbn [Yaqlized.walk fst]; [constructor|].
      destruct st as [s|]; [|constructor].
      destruct (access f (Some s) n) as [e|m] eqn:Ea; cbn [fst]; [constructor|].
      constructor.
      - split; [exact Hf|]. exists f, n. split; [left; reflexivity | exact Ea].
      - eapply Forall_impl; [|apply IH; apply after_auto_in_force].
        intros [[o' s'] m'] [H1 [f' [n' [H2 H3]]]]. split; [exact H1|].
        exists f', n'. split; [right; exact H2 | exact H3].
    Qed.

    Lemma walk_unyaqlized : forall path o, walk o None path = ([], match path with [] => None | _ => Some ENoMatch end).
    Proof. intros [|[f n] rest] o; reflexivity. Qed.

    (* with the auto flag off everywhere, only explicitly yaqlized objects are touched *)
    Lemma walk_explicit : forall path o st, st = h_settings o ->
      (forall o' s', h_settings o' = Some s' -> s_auto s' = false) ->
      Forall (fun step => let '(o', s', m) := step in h_settings o' = Some s') (fst (walk o st path)).
    Proof.
      induction path as [|[f n] rest IH]; intros o st Hst Hoff; cbn [Yaqlized.walk fst]; [constructor|].
      destruct st as [s|]; [|constructor].
      destruct (access f (Some s) n) as [e|m] eqn:Ea; cbn [fst]; [constructor|].
      constructor; [symmetry; exact Hst|].
      apply IH; [|exact Hoff]. apply after_auto_off. apply (Hoff o). symmetry. exact Hst.
    Qed.
  End Chain.
End Policy.
