(* C02_precedence_correct: every tree the reference parser returns satisfies the
   table's local reading [wf].  Invariant (simultaneously for expr/loop/slots/named,
   by induction on the fuel): the returned tree is wf, its left spine was shifted
   over the pending rank, and if the rest starts with an operator token of rank t
   then t does not continue the pending rank and every open node of the right
   spine is reduced by t. *)
From Coq Require Import List ZArith Bool Arith Lia.
From YV Require Import Common.Corr Model.OpTable Model.Pratt.
Import ListNotations.

Section WfProof.
Variable T : table.

Definition stop (p : option rank) (x : tree) (r : list token) : Prop :=
  forall t, tokrank T r = Some t -> continues t p = false /\ rs_ok T t x.

Definition good (p : option rank) (x : tree) (r : list token) : Prop :=
  wf T x /\ ls_ok T p x /\ stop p x r.

Definition wf_expr_stmt (f : nat) : Prop :=
  forall p ts x r, expr T f p ts = Some (x, r) -> good p x r.
Definition wf_loop_stmt (f : nat) : Prop :=
  forall p l ts x r, wf T l -> ls_ok T p l -> (forall t, tokrank T ts = Some t -> rs_ok T t l) ->
                     loop T f p l ts = Some (x, r) -> good p x r.
Definition wf_slots_stmt (f : nat) : Prop :=
  forall st ts a r, slots T f st ts = Some (a, r) -> wf_args T a.
Definition wf_named_stmt (f : nat) : Prop :=
  forall ts a r, named T f ts = Some (a, r) -> wf_args T a.

Lemma closed_start : forall f p l ts x r,
  wf_loop_stmt f -> wf T l -> ls_ok T p l -> (forall t, rs_ok T t l) ->
  loop T f p l ts = Some (x, r) -> good p x r.
Proof. intros f p l ts x r IH W L R H. eapply IH; eauto. Qed.

Lemma named_tail_wf : forall f, wf_expr_stmt f -> wf_named_stmt f ->
  forall x r a rest, wf T x ->
    match expr T f None r with
    | Some (y, TComma :: r2) => match named T f r2 with
                                | Some (a, r3) => Some (ANamed x y a, r3)
                                | None => None
                                end
    | Some (y, r2) => Some (ANamed x y ANil, r2)
    | None => None
    end = Some (a, rest) -> wf_args T a.
Proof.
  intros f He Hn x r a rest Wx H.
  destruct (expr T f None r) as [[y r2]|] eqn:E; [|discriminate].
  apply He in E. destruct E as [Wy _].
  destruct r2 as [|t r2].
  { inversion H; subst. cbn [wf_args]. auto. }
  destruct t; try (inversion H; subst; cbn [wf_args]; auto).
  destruct (named T f r2) as [[a' r3]|] eqn:N; [|discriminate].
  apply Hn in N. inversion H; subst. cbn [wf_args]. auto.
Qed.

Lemma wf_all : forall f, wf_expr_stmt f /\ wf_loop_stmt f /\ wf_slots_stmt f /\ wf_named_stmt f.
Proof.
  induction f as [|f [IHe [IHl [IHs IHn]]]].
  { split; [|split; [|split]]; unfold wf_expr_stmt, wf_loop_stmt, wf_slots_stmt, wf_named_stmt; intros; discriminate. }
  assert (He : wf_expr_stmt (S f)).
  { intros p ts x r H. simpl expr in H.
    destruct ts as [|t ts]; [discriminate|].
    destruct t; try discriminate.
    - (* atom *) refine (closed_start f p _ _ x r IHl _ _ _ H); cbn; auto.
    - (* prefix *)
      destruct (pre T o) as [q|] eqn:Q; [|discriminate].
      destruct (expr T f (Some q) ts) as [[y r']|] eqn:E; [|discriminate].
      apply IHe in E. destruct E as [Wy [Ly Sy]].
      eapply IHl; [| |  |exact H].
      + cbn [wf]. exists q. auto.
      + exact I.
      + intros t Ht. apply Sy in Ht. destruct Ht as [C R]. cbn [rs_ok]. split; [|exact R].
        exists q. split; [exact Q|exact C].
    - (* call *)
      destruct (slots T f S0 ts) as [[a r0]|] eqn:E; [|discriminate].
      destruct r0 as [|t0 r0]; [discriminate|]. destruct t0; try discriminate.
      apply IHs in E. refine (closed_start f p _ _ x r IHl _ _ _ H); cbn; auto.
    - (* parenthesis *)
      destruct (expr T f None ts) as [[y r0]|] eqn:E; [|discriminate].
      destruct r0 as [|t0 r0]; [discriminate|]. destruct t0; try discriminate.
      apply IHe in E. destruct E as [Wy _]. refine (closed_start f p _ _ x r IHl _ _ _ H); cbn; auto.
    - (* list *)
      destruct (slots T f S0 ts) as [[a r0]|] eqn:E; [|discriminate].
      destruct r0 as [|t0 r0]; [discriminate|]. destruct t0; try discriminate.
      apply IHs in E. refine (closed_start f p _ _ x r IHl _ _ _ H); cbn; auto.
    - (* map *)
      destruct (slots T f S0 ts) as [[a r0]|] eqn:E; [|discriminate].
      destruct r0 as [|t0 r0]; [discriminate|]. destruct t0; try discriminate.
      apply IHs in E. refine (closed_start f p _ _ x r IHl _ _ _ H); cbn; auto. }
  assert (Hl : wf_loop_stmt (S f)).
  { intros p l ts x r W L R H. simpl loop in H.
    assert (Done : tokrank T ts = None -> Some (l, ts) = Some (x, r) -> good p x r).
    { intros N G. inversion G; subst. split; [exact W|]. split; [exact L|].
      intros t Ht. rewrite N in Ht. discriminate. }
    destruct ts as [|t ts]; [apply Done; [reflexivity|exact H]|].
    destruct t; try (apply Done; [reflexivity|exact H]).
    - (* operator token *)
      destruct (bin T o) as [q|] eqn:B.
      + assert (TR : tokrank T (TOp o :: ts) = Some q) by (cbn [tokrank]; rewrite B; reflexivity).
        destruct (continues q p) eqn:C.
        * destruct (expr T f (Some q) ts) as [[y r']|] eqn:E; [|discriminate].
          apply IHe in E. destruct E as [Wy [Ly Sy]].
          eapply IHl; [| | |exact H].
          -- cbn [wf]. exists q. repeat split; auto.
          -- cbn [ls_ok]. split; [|exact L]. exists q. auto.
          -- intros t Ht. apply Sy in Ht. destruct Ht as [C' R']. cbn [rs_ok]. split; [|exact R'].
             exists q. auto.
        * inversion H; subst. split; [exact W|]. split; [exact L|].
          intros t Ht. rewrite TR in Ht. inversion Ht; subst. split; [exact C|]. apply R. exact TR.
      + destruct (suf T o) as [q|] eqn:SF.
        * assert (TR : tokrank T (TOp o :: ts) = Some q) by (cbn [tokrank]; rewrite B; exact SF).
          destruct (continues q p) eqn:C.
          -- eapply IHl; [| | |exact H].
             ++ cbn [wf]. exists q. repeat split; auto.
             ++ cbn [ls_ok]. split; [|exact L]. exists q. auto.
             ++ intros t _. exact I.
          -- inversion H; subst. split; [exact W|]. split; [exact L|].
             intros t Ht. rewrite TR in Ht. inversion Ht; subst. split; [exact C|]. apply R. exact TR.
        * apply Done; [cbn [tokrank]; rewrite B; exact SF|exact H].
    - (* delegate call *)
      destruct (callr T) as [q|] eqn:B.
      + assert (TR : tokrank T (TLP :: ts) = Some q) by (cbn [tokrank]; exact B).
        destruct (continues q p) eqn:C.
        * destruct (slots T f S0 ts) as [[a r0]|] eqn:E; [|discriminate].
          destruct r0 as [|t0 r0]; [discriminate|]. destruct t0; try discriminate.
          apply IHs in E.
          eapply IHl; [| | |exact H].
          -- cbn [wf]. exists q. repeat split; auto.
          -- cbn [ls_ok]. split; [|exact L]. exists q. auto.
          -- intros t _. exact I.
        * inversion H; subst. split; [exact W|]. split; [exact L|].
          intros t Ht. rewrite TR in Ht. inversion Ht; subst. split; [exact C|]. apply R. exact TR.
      + apply Done; [cbn [tokrank]; exact B|exact H].
    - (* index *)
      destruct (bin T sym_index) as [q|] eqn:B.
      + assert (TR : tokrank T (TLB :: ts) = Some q) by (cbn [tokrank]; exact B).
        destruct (continues q p) eqn:C.
        * destruct (slots T f S0 ts) as [[a r0]|] eqn:E; [|discriminate].
          destruct r0 as [|t0 r0]; [discriminate|]. destruct t0; try discriminate.
          apply IHs in E.
          eapply IHl; [| | |exact H].
          -- cbn [wf]. exists q. repeat split; auto.
          -- cbn [ls_ok]. split; [|exact L]. exists q. auto.
          -- intros t _. exact I.
        * inversion H; subst. split; [exact W|]. split; [exact L|].
          intros t Ht. rewrite TR in Ht. inversion Ht; subst. split; [exact C|]. apply R. exact TR.
      + apply Done; [cbn [tokrank]; exact B|exact H]. }
  assert (Hn : wf_named_stmt (S f)).
  { intros ts a r H. simpl named in H.
    destruct (expr T f None ts) as [[x r0]|] eqn:E; [|discriminate].
    destruct r0 as [|t0 r0]; [discriminate|]. destruct t0; try discriminate.
    apply IHe in E. destruct E as [Wx _]. exact (named_tail_wf f IHe IHn x r0 a r Wx H). }
  assert (Hs : wf_slots_stmt (S f)).
  { intros st ts a r H. simpl slots in H.
    assert (G : (if match ts with t :: _ => is_closer t | [] => false end
       then match st with S0 => Some (ANil, ts) | _ => None end
       else match expr T f None ts with
        | Some (x, TComma :: r) => match slots T f SV r with Some (a, r') => Some (AVal x a, r') | None => None end
        | Some (x, TMap :: r) =>
            if named_ok st then
              match expr T f None r with
              | Some (y, TComma :: r2) => match named T f r2 with Some (a, r3) => Some (ANamed x y a, r3) | None => None end
              | Some (y, r2) => Some (ANamed x y ANil, r2)
              | None => None
              end
            else None
        | Some (x, r) => Some (AVal x ANil, r)
        | None => None
        end) = Some (a, r) -> wf_args T a).
    { intros G.
      destruct (match ts with t :: _ => is_closer t | [] => false end).
      { destruct st; try discriminate. inversion G; subst. exact I. }
      destruct (expr T f None ts) as [[x r0]|] eqn:E; [|discriminate].
      apply IHe in E. destruct E as [Wx _].
      destruct r0 as [|t0 r0].
      { inversion G; subst. cbn [wf_args]. auto. }
      destruct t0; try (inversion G; subst; cbn [wf_args]; auto).
      - destruct (slots T f SV r0) as [[a' r']|] eqn:E2; [|discriminate].
        apply IHs in E2. inversion G; subst. cbn [wf_args]. auto.
      - destruct (named_ok st); [|discriminate]. exact (named_tail_wf f IHe IHn x r0 a r Wx G). }
    destruct ts as [|t ts]; [apply G; exact H|].
    destruct t; try (apply G; exact H).
    destruct (slots T f (after_empty st) ts) as [[a' r']|] eqn:E; [|discriminate].
    apply IHs in E. inversion H; subst. exact E. }
  exact (conj He (conj Hl (conj Hs Hn))).
Qed.

Theorem parse_wf : forall ts t, parse T ts = Some t -> wf T t.
Proof.
  intros ts t H. unfold parse in H.
  destruct (expr T (2 * length ts + 2) None ts) as [[x r]|] eqn:E; [|discriminate].
  destruct r; [|discriminate]. inversion H; subst.
  apply (proj1 (wf_all _)) in E. exact (proj1 E).
Qed.

End WfProof.
