(* C15 - integer functions of yaql/standard_library/math.py outside the operators
   ("integer arithmetic is exact at any magnitude"): abs, sign, min, max, pow (integer
   exponent >= 0, optional modulus <> 0), round on integers (ndigits of either sign),
   bitwiseAnd/Or/Xor/Not, shiftBitsLeft/Right (count >= 0).  Arguments are integers;
   None = outside the modelled domain (negative exponent / zero modulus / negative shift
   count, where Python gives a float or raises).  No proofs here. *)
From Coq Require Import List ZArith Bool.
Import ListNotations.
Local Open Scope Z_scope.

Inductive ifn := FAbs | FSign | FMin | FMax | FPow | FPowMod | FRound | FRoundN
               | FAnd | FOr | FXor | FNot | FShl | FShr.

(* Python round(a, -k): nearest multiple of p = 10^k, ties to the even multiple *)
Definition round_to (a p : Z) : Z :=
  let q := a / p in let r := a mod p in
  if 2 * r <? p then q * p
  else if 2 * r >? p then (q + 1) * p
  else if Z.even q then q * p else (q + 1) * p.

Definition int_fn (f : ifn) (args : list Z) : option Z :=
  match f, args with
  | FAbs, [a] => Some (Z.abs a)
  | FSign, [a] => Some (if a >? 0 then 1 else if a <? 0 then -1 else 0)
  (* max_: `if operator_>(b, a) then b else a`;  min_: `if operator_>(b, a) then a else b` *)
  | FMax, [a; b] => Some (if b >? a then b else a)
  | FMin, [a; b] => Some (if b >? a then a else b)
  | FPow, [a; b] => if b <? 0 then None else Some (a ^ b)
  | FPowMod, [a; b; c] => if (b <? 0) || (c =? 0) then None else Some ((a ^ b) mod c)
  | FRound, [a] => Some a
  | FRoundN, [a; n] => if n >=? 0 then Some a else Some (round_to a (10 ^ (- n)))
  | FAnd, [a; b] => Some (Z.land a b)
  | FOr, [a; b] => Some (Z.lor a b)
  | FXor, [a; b] => Some (Z.lxor a b)
  | FNot, [a] => Some (Z.lnot a)
  | FShl, [a; n] => if n <? 0 then None else Some (Z.shiftl a n)
  | FShr, [a; n] => if n <? 0 then None else Some (Z.shiftr a n)
  | _, _ => None
  end.

(* correspondence: function, integer arguments, observed integer result (None: the
   implementation raised or returned a non-integer) *)
Definition fcase := (ifn * list Z * option Z)%type.
Definition fcase_ok (c : fcase) : bool :=
  match int_fn (fst (fst c)) (snd (fst c)), snd c with
  | Some x, Some y => Z.eqb x y
  | None, None => true
  | _, _ => false
  end.
