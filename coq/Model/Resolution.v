(* Model of overload resolution and argument binding:
     yaql/language/runner.py   call, choose_overload, translate_args, _is_specialization_of
     yaql/language/specs.py    FunctionDefinition.map_args, FunctionDefinition.get_delegate
     yaql/language/yaqltypes.py SmartType.check / PythonType.is_specialization_of / lazy + hidden kinds
     yaql/language/contexts.py ContextBase.collect_functions (layering, exclusivity)

   Types are tags of a finite poset given by a decidable STRICT order [sub]
   (a Section variable: the theorems need nothing but its partial-order laws;
   [sub6] below is the concrete instance used by the correspondence - python `object`, a 6-class
   lattice with a diamond, and two more classes G(A), H(G,B) that make "specialization of a mapping"
   non-transitive).

   [choose_overload] is the REPAIRED, order-free selection (what runner.py does
   after the `fix:` commit for F3); [choose_historic] is the single-pass selection
   of the code before the repair, kept for the refutation witness in Props/C06.v.

   No proofs in this file. *)
From Coq Require Import List ZArith Bool Arith.
From YV Require Import Common.Corr.
Import ListNotations.

Definition tag := nat.

(* run-time values as far as resolution can tell them apart *)
Inductive value :=
| VNull                 (* None *)
| VObj (c : tag)        (* an instance whose class is exactly c *)
| VOther (n : Z)        (* some other python object (int, MappingRule, ...): instance of `object` only *)
| VMarker.              (* utils.NO_VALUE / specs.NO_DEFAULT marker objects *)

(* what a call site passes *)
Inductive arg :=
| AConst (v : value)                 (* expressions.Constant(v) *)
| AExpr (id : Z) (v : value)         (* a non-constant expression; evaluating it logs [id] and yields v *)
| ARaw (v : value)                   (* a plain python value (receiver, python-level kwargs, evaluated argument) *)
| ANoValue                           (* skipped slot: utils.NO_VALUE *)
| AMapC (k : Z) (v : value)          (* MappingRuleExpression(KeywordConstant k, Constant v):  k => v *)
| AMapE (k : Z) (id : Z) (v : value). (* MappingRuleExpression(KeywordConstant k, <expr id>) *)

Inductive hidden := HEngine | HContext | HOther.   (* HOther: Delegate, Super, Receiver, YaqlInterface, ... *)
Inductive kind :=
| KHidden (h : hidden)               (* yaqltypes.Engine() / Context(): injected, never bound from the call *)
| KLambda                            (* yaqltypes.Lambda(): lazy, accepts anything *)
| KExpr                              (* yaqltypes.YaqlExpression(): lazy, accepts expressions only *)
| KTyped (t : tag) (nullable : bool)  (* PythonType(class t, nullable) *)
| KAnyOf (ts : list tag) (nullable : bool)  (* yaqltypes.AnyOf(classes..., nullable): related to no type *)
| KConstant (nullable : bool)        (* yaqltypes.Constant(nullable): accepts constant expressions only *)
| KMapRule                           (* yaqltypes.MappingRule(): lazy, accepts `a => b` expressions only *)
(* any other smart-type, described by the answers of its live check() to representative arguments
   (Gen/Registry.v): value classes accepted as evaluated values / as constant expressions, None as a
   value / as a constant, the NO_VALUE marker, a non-constant expression, a mapping expression; [st] is
   the class tag PythonType.is_specialization_of compares (None: never a specialization of anything) *)
| KProbed (lazy : bool) (acc_raw acc_const : list tag) (null_raw null_const : bool)
          (marker_ok defer acc_map : bool) (st : option tag)
          (unwrap : bool).   (* does convert() hand over the value of a constant expression (true) or the expression object *)
Inductive star := SNone | SArgs | SKwargs.   (* dictionary key: the name / '*' / '**' *)

Record param := {
  pname : Z;                 (* python name *)
  palias : option Z;         (* yaql-side alias (None or '' -> the name is used) *)
  ppos : option nat;         (* ParameterDefinition.position; None for keyword-only and ** *)
  pdefault : option value;   (* None = NO_DEFAULT *)
  pkind : kind;
  pstar : star }.

Record fdef := {
  fid : Z;                   (* identity of the FunctionDefinition (the payload's tag) *)
  fparams : list param;      (* FunctionDefinition.parameters in dictionary order *)
  fnokw : bool;
  fisfun : bool;
  fismeth : bool }.

Inductive bval :=            (* what the payload finally receives for one parameter *)
| BVal (v : value)
| BHid (h : hidden)
| BExprObj (a : arg)         (* the unevaluated expression object itself *)
| BCallable (a : arg).       (* Lambda wrapper around a *)

Inductive err := ENoMatch | EAmbiguous | EUnknown | EArg | EMapping.
Inductive outcome :=
| Chosen (f : Z) (pos : list bval) (kw : list (Z * bval))
| Failed (e : err).

Definition kwargs := list (Z * arg).
Definition mapping := (list param * list (Z * param))%type.
Definition binding := (list bval * list (Z * bval))%type.

(* ---- small dictionaries (python dict: insertion ordered, unique keys) ---- *)
Fixpoint kw_get {A} (k : Z) (l : list (Z * A)) : option A :=
  match l with [] => None | (k', v) :: r => if Z.eqb k k' then Some v else kw_get k r end.
Definition kw_has {A} (k : Z) (l : list (Z * A)) : bool :=
  match kw_get k l with Some _ => true | None => false end.
Fixpoint kw_del {A} (k : Z) (l : list (Z * A)) : list (Z * A) :=
  match l with [] => [] | (k', v) :: r => if Z.eqb k k' then kw_del k r else (k', v) :: kw_del k r end.
Fixpoint kw_set {A} (k : Z) (v : A) (l : list (Z * A)) : list (Z * A) :=
  match l with
  | [] => [(k, v)]
  | (k', v') :: r => if Z.eqb k k' then (k, v) :: r else (k', v') :: kw_set k v r
  end.

(* ---- decidable equalities (for the correspondence only) ----------------- *)
Definition value_eqb (a b : value) : bool :=
  match a, b with
  | VNull, VNull => true | VMarker, VMarker => true
  | VObj x, VObj y => Nat.eqb x y | VOther x, VOther y => Z.eqb x y
  | _, _ => false end.
Definition arg_eqb (a b : arg) : bool :=
  match a, b with
  | AConst x, AConst y => value_eqb x y
  | AExpr i x, AExpr j y => Z.eqb i j && value_eqb x y
  | ARaw x, ARaw y => value_eqb x y
  | ANoValue, ANoValue => true
  | AMapC k x, AMapC l y => Z.eqb k l && value_eqb x y
  | AMapE k i x, AMapE l j y => Z.eqb k l && Z.eqb i j && value_eqb x y
  | _, _ => false end.
Definition hidden_eqb (a b : hidden) : bool :=
  match a, b with HEngine, HEngine => true | HContext, HContext => true | HOther, HOther => true | _, _ => false end.
Definition bval_eqb (a b : bval) : bool :=
  match a, b with
  | BVal x, BVal y => value_eqb x y
  | BHid x, BHid y => hidden_eqb x y
  | BExprObj x, BExprObj y => arg_eqb x y
  | BCallable x, BCallable y => arg_eqb x y
  | _, _ => false end.
Definition err_eqb (a b : err) : bool :=
  match a, b with
  | ENoMatch, ENoMatch => true | EAmbiguous, EAmbiguous => true | EUnknown, EUnknown => true
  | EArg, EArg => true | EMapping, EMapping => true | _, _ => false end.
Definition kwb_set_eqb (a b : list (Z * bval)) : bool :=   (* python dicts: compared as finite maps *)
  Nat.eqb (length a) (length b) &&
  forallb (fun kv => match kw_get (fst kv) b with Some v => bval_eqb v (snd kv) | None => false end) a.
Definition outcome_eqb (a b : outcome) : bool :=
  match a, b with
  | Chosen f p k, Chosen g q l => Z.eqb f g && list_eqb bval_eqb p q && kwb_set_eqb k l
  | Failed e, Failed e' => err_eqb e e'
  | _, _ => false end.

Fixpoint set_nth {A} (n : nat) (x : A) (l : list A) : list A :=
  match l, n with
  | [], _ => []
  | _ :: r, O => x :: r
  | y :: r, S n' => y :: set_nth n' x r
  end.

Fixpoint fold_opt {S A} (f : S -> A -> option S) (l : list A) (s : S) : option S :=
  match l with
  | [] => Some s
  | x :: r => match f s x with Some s' => fold_opt f r s' | None => None end
  end.

Fixpoint all_some {A} (l : list (option A)) : option (list A) :=
  match l with
  | [] => Some []
  | None :: _ => None
  | Some x :: r => match all_some r with Some r' => Some (x :: r') | None => None end
  end.

Definition is_hidden (k : kind) : bool := match k with KHidden _ => true | _ => false end.
Definition is_lazy (k : kind) : bool :=
  match k with KLambda | KExpr | KMapRule => true | KProbed lz _ _ _ _ _ _ _ _ _ => lz | _ => false end.
Definition arg_name (p : param) : Z := match palias p with Some a => a | None => pname p end.
Definition is_sargs (p : param) : bool := match pstar p with SArgs => true | _ => false end.
Definition is_skwargs (p : param) : bool := match pstar p with SKwargs => true | _ => false end.
Definition star_param (ps : list param) : option param := find is_sargs ps.
Definition kwargs_param (ps : list param) : option param := find is_skwargs ps.

(* positional_fix_table[j]: number of hidden positional parameters to the left of j *)
Definition fix_at (ps : list param) (j : nat) : nat :=
  length (filter (fun p => is_hidden (pkind p) &&
                           match ppos p with Some q => Nat.ltb q j | None => false end) ps).

Definition arg_given (args : list arg) (i : nat) : bool :=
  match nth_error args i with Some ANoValue => false | Some _ => true | None => false end.

Definition default_arg (p : param) : arg :=
  match pdefault p with Some d => ARaw d | None => ARaw VMarker end.

Section Sub.
Variable sub : tag -> tag -> bool.    (* strict: issubclass(a, b) and not issubclass(b, a) *)

Definition isinst (v : value) (t : tag) : bool :=
  match v with
  | VNull => false
  | VObj c => Nat.eqb c t || sub c t
  | VOther _ | VMarker => Nat.eqb t 0     (* tag 0 is python's `object` *)
  end.

Definition check_val (t : tag) (nullable : bool) (v : value) : bool :=
  match v with VNull => nullable | _ => isinst v t end.

(* value_type.check(value, context, engine) *)
Definition check (k : kind) (a : arg) : bool :=
  match k with
  | KHidden _ => true
  | KLambda => true
  | KExpr => match a with AConst _ | AExpr _ _ | AMapC _ _ | AMapE _ _ _ => true | ARaw _ | ANoValue => false end
  | KTyped t n =>
      match a with
      | AConst v | ARaw v => check_val t n v
      | ANoValue => check_val t n VMarker
      | AExpr _ _ | AMapC _ _ | AMapE _ _ _ => true      (* checked after evaluation *)
      end
  | KAnyOf ts n =>
      match a with
      | AConst v | ARaw v => match v with VNull => n | _ => existsb (isinst v) ts end
      | ANoValue => existsb (isinst VMarker) ts
      | AExpr _ _ | AMapC _ _ | AMapE _ _ _ => negb (match ts with [] => true | _ => false end)
      end
  | KConstant n => match a with AConst _ => true | ARaw VNull => n | _ => false end
  | KMapRule => match a with AMapC _ _ | AMapE _ _ _ => true | _ => false end
  | KProbed _ accr accc nullr nullc mk defer accm _ _ =>
      match a with
      | ARaw VNull => nullr
      | ARaw (VObj c) => existsb (Nat.eqb c) accr
      | ARaw VMarker | ANoValue => mk
      | ARaw (VOther _) => existsb (Nat.eqb 0) accr      (* class 0: a value that is an instance of `object` only *)
      | AConst VNull => nullc
      | AConst (VObj c) => existsb (Nat.eqb c) accc
      | AConst (VOther _) => existsb (Nat.eqb 0) accc
      | AConst VMarker => false
      | AExpr _ _ => defer
      | AMapC _ _ | AMapE _ _ _ => accm
      end
  end.

(* value_type.convert(...) for a value that passed check *)
Definition convert (k : kind) (a : arg) : bval :=
  match k with
  | KHidden h => BHid h
  | KLambda => match a with ARaw VNull => BVal VNull | _ => BCallable a end
  | KExpr => BExprObj a
  | KTyped _ _ | KAnyOf _ _ =>
      match a with
      | AConst v | ARaw v => BVal v
      | ANoValue => BVal VMarker
      | _ => BExprObj a
      end
  | KConstant _ => match a with AConst v => BVal v | _ => BVal VNull end
  | KMapRule => BVal (VOther (-1))       (* a utils.MappingRule object with lazily evaluated sides *)
  | KProbed lz _ _ _ _ _ _ _ _ uw =>     (* what convert() makes of the value itself is not part of the model *)
      if lz then BExprObj a
      else match a with
           | AConst v => if uw then BVal v else BExprObj a
           | ARaw v => BVal v | ANoValue => BVal VMarker | _ => BExprObj a
           end
  end.

Definition checked (p : param) (a : arg) : option bval :=
  if check (pkind p) a then Some (convert (pkind p) a) else None.

(* ---- FunctionDefinition.map_args ---------------------------------------- *)
Record mstate := { ms_slots : list (option param); ms_kwd : list (Z * param); ms_left : kwargs }.

Definition map_step (ps : list param) (args : list arg) (st : mstate) (p : param) : option mstate :=
  let name := arg_name p in
  match ppos p with
  | Some pos =>
      if is_sargs p then Some st
      else if is_hidden (pkind p) then Some st
      else
        let ap := pos - fix_at ps pos in
        if arg_given args ap then
          if kw_has name (ms_left st) then None
          else Some {| ms_slots := set_nth ap (Some p) (ms_slots st); ms_kwd := ms_kwd st; ms_left := ms_left st |}
        else if kw_has name (ms_left st) then
          Some {| ms_slots := ms_slots st; ms_kwd := kw_set name p (ms_kwd st); ms_left := kw_del name (ms_left st) |}
        else match pdefault p with
             | None => None
             | Some _ =>
                 if Nat.ltb ap (length args)
                 then Some {| ms_slots := set_nth ap (Some p) (ms_slots st); ms_kwd := ms_kwd st; ms_left := ms_left st |}
                 else Some st
             end
  | None =>
      if is_skwargs p then Some st
      else if is_hidden (pkind p) then Some st
      else if kw_has name (ms_left st) then
        Some {| ms_slots := ms_slots st; ms_kwd := kw_set name p (ms_kwd st); ms_left := kw_del name (ms_left st) |}
      else match pdefault p with None => None | Some _ => Some st end
  end.

Fixpoint check_slots (slots : list (option param)) (args : list arg) : option (list param) :=
  match slots, args with
  | [], _ => Some []
  | None :: _, _ => None
  | Some p :: sr, a :: ar =>
      let v := match a with ANoValue => default_arg p | _ => a end in
      if check (pkind p) v
      then match check_slots sr ar with Some r => Some (p :: r) | None => None end
      else None
  | Some _ :: _, [] => Some []
  end.

Definition map_args (ps : list param) (args : list arg) (kw : kwargs) : option mapping :=
  let init := {| ms_slots := repeat (star_param ps) (length args); ms_kwd := []; ms_left := kw |} in
  match fold_opt (map_step ps args) ps init with
  | None => None
  | Some st =>
      let kwd :=
        match ms_left st with
        | [] => Some (ms_kwd st)
        | _ => match kwargs_param ps with
               | Some q => Some (fold_left (fun acc kv => kw_set (fst kv) q acc) (ms_left st) (ms_kwd st))
               | None => None
               end
        end in
      match kwd with
      | None => None
      | Some kwd' =>
          match check_slots (ms_slots st) args with
          | None => None
          | Some slots =>
              if forallb (fun kv => match kw_get (fst kv) kwd' with
                                    | Some q => check (pkind q) (snd kv) | None => false end) (ms_left st)
              then Some (slots, kwd') else None
          end
      end
  end.

(* ---- FunctionDefinition.get_delegate ------------------------------------ *)
Record dstate := { ds_slots : list (option bval); ds_kwd : list (Z * bval); ds_left : kwargs; ds_vis : nat }.

Definition is_positional (p : param) : bool :=
  match ppos p with Some _ => negb (is_sargs p) | None => false end.

Definition del_step (ps : list param) (args : list arg) (st : dstate) (p : param) : option dstate :=
  let name := arg_name p in
  match ppos p with
  | Some pos =>
      if is_sargs p then Some st
      else if is_hidden (pkind p) then
        match checked p (ARaw VNull) with
        | Some b => Some {| ds_slots := set_nth pos (Some b) (ds_slots st); ds_kwd := ds_kwd st;
                            ds_left := ds_left st; ds_vis := ds_vis st - 1 |}
        | None => None
        end
      else
        let ap := pos - fix_at ps pos in
        if arg_given args ap then
          if kw_has name (ds_left st) then None
          else match checked p (nth ap args ANoValue) with
               | Some b => Some {| ds_slots := set_nth pos (Some b) (ds_slots st); ds_kwd := ds_kwd st;
                                   ds_left := ds_left st; ds_vis := ds_vis st |}
               | None => None
               end
        else match kw_get name (ds_left st) with
             | Some a =>
                 match checked p a with
                 | Some b => Some {| ds_slots := set_nth pos (Some b) (ds_slots st); ds_kwd := ds_kwd st;
                                     ds_left := kw_del name (ds_left st); ds_vis := ds_vis st |}
                 | None => None
                 end
             | None =>
                 match pdefault p with
                 | Some d =>
                     match checked p (ARaw d) with
                     | Some b => Some {| ds_slots := set_nth pos (Some b) (ds_slots st); ds_kwd := ds_kwd st;
                                         ds_left := ds_left st; ds_vis := ds_vis st |}
                     | None => None
                     end
                 | None => None
                 end
             end
  | None =>
      if is_skwargs p then Some st
      else if is_hidden (pkind p) then
        match checked p (ARaw VNull) with
        | Some b => Some {| ds_slots := ds_slots st; ds_kwd := kw_set (pname p) b (ds_kwd st);
                            ds_left := ds_left st; ds_vis := ds_vis st |}
        | None => None
        end
      else match kw_get name (ds_left st) with
           | Some a =>
               match checked p a with
               | Some b => Some {| ds_slots := ds_slots st; ds_kwd := kw_set (pname p) b (ds_kwd st);
                                   ds_left := kw_del name (ds_left st); ds_vis := ds_vis st |}
               | None => None
               end
           | None =>
               match pdefault p with
               | Some d =>
                   match checked p (ARaw d) with
                   | Some b => Some {| ds_slots := ds_slots st; ds_kwd := kw_set (pname p) b (ds_kwd st);
                                       ds_left := ds_left st; ds_vis := ds_vis st |}
                   | None => None
                   end
               | None => None
               end
           end
  end.

Fixpoint bind_all (q : param) (l : list arg) : option (list bval) :=
  match l with
  | [] => Some []
  | a :: r => match checked q a, bind_all q r with Some b, Some r' => Some (b :: r') | _, _ => None end
  end.

Fixpoint bind_kw (q : param) (l : kwargs) (acc : list (Z * bval)) : option (list (Z * bval)) :=
  match l with
  | [] => Some acc
  | (k, a) :: r => match checked q a with Some b => bind_kw q r (kw_set k b acc) | None => None end
  end.

Definition get_delegate (ps : list param) (args : list arg) (kw : kwargs) : option binding :=
  let npos := length (filter is_positional ps) in
  let init := {| ds_slots := repeat None npos; ds_kwd := []; ds_left := kw; ds_vis := npos |} in
  match fold_opt (del_step ps args) ps init with
  | None => None
  | Some st =>
      let extra :=
        if Nat.ltb (ds_vis st) (length args) then
          match star_param ps with Some q => bind_all q (skipn (ds_vis st) args) | None => None end
        else Some [] in
      match extra with
      | None => None
      | Some ex =>
          let kwd :=
            match ds_left st with
            | [] => Some (ds_kwd st)
            | _ => match kwargs_param ps with Some q => bind_kw q (ds_left st) (ds_kwd st) | None => None end
            end in
          match kwd, all_some (ds_slots st) with
          | Some kwd', Some slots => Some (slots ++ ex, kwd')
          | _, _ => None
          end
      end
  end.

(* ---- runner.translate_args ---------------------------------------------- *)
Fixpoint split_args (args : list arg) (pos : list arg) (kw : kwargs) : list arg * kwargs :=
  match args with
  | [] => (pos, kw)
  | AMapC k v :: r => split_args r pos (kw_set k (AConst v) kw)
  | AMapE k i v :: r => split_args r pos (kw_set k (AExpr i v) kw)
  | a :: r => split_args r (pos ++ [a]) kw
  end.

Fixpoint merge_kwargs (pykw : kwargs) (kw : kwargs) : option kwargs :=
  match pykw with
  | [] => Some kw
  | (k, v) :: r => if kw_has k kw then None else merge_kwargs r (kw ++ [(k, v)])
  end.

Definition translate_args (nokw : bool) (args : list arg) (pykw : kwargs) : err + (list arg * kwargs) :=
  if nokw then match pykw with [] => inr (args, []) | _ => inl EArg end
  else let '(pos, kw) := split_args args [] [] in
       match merge_kwargs pykw kw with Some kw' => inr (pos, kw') | None => inl EMapping end.

(* ---- laziness signature of a mapping -------------------------------------- *)
Definition lazy_sig (kw : kwargs) (m : mapping) : list bool * list bool :=
  (map (fun p => is_lazy (pkind p)) (fst m),
   map (fun kv => match kw_get (fst kv) (snd m) with Some p => is_lazy (pkind p) | None => false end) kw).
Definition sig_eqb (a b : list bool * list bool) : bool :=
  list_eqb Bool.eqb (fst a) (fst b) && list_eqb Bool.eqb (snd a) (snd b).

(* ---- evaluation of eager, non-constant arguments -------------------------- *)
Definition eval_arg (lazy : bool) (a : arg) : arg * list Z :=
  if lazy then (a, [])
  else match a with
       | AExpr i v => (ARaw v, [i])
       | AMapC _ _ => (ARaw (VOther (-1)), [])
       | AMapE _ i _ => (ARaw (VOther (-1)), [i])
       | _ => (a, [])
       end.

Fixpoint eval_pos (lz : list bool) (args : list arg) : list arg * list Z :=
  match args with
  | [] => ([], [])
  | a :: r =>
      let '(a', l1) := eval_arg (hd false lz) a in
      let '(r', l2) := eval_pos (tl lz) r in
      (a' :: r', l1 ++ l2)
  end.

Fixpoint eval_kw (lz : list bool) (kw : kwargs) : kwargs * list Z :=
  match kw with
  | [] => ([], [])
  | (k, a) :: r =>
      let '(a', l1) := eval_arg (hd false lz) a in
      let '(r', l2) := eval_kw (tl lz) r in
      ((k, a') :: r', l1 ++ l2)
  end.

(* ---- runner._is_specialization_of ----------------------------------------- *)
Definition spec_tag (k : kind) : option tag :=
  match k with KTyped t _ => Some t | KProbed _ _ _ _ _ _ _ _ st _ => st | _ => None end.
Definition type_spec (k1 k2 : kind) : bool :=
  match spec_tag k1, spec_tag k2 with Some a, Some b => sub a b | _, _ => false end.

Definition spec_pairs (m1 m2 : mapping) : list (kind * kind) :=
  map (fun pq => (pkind (fst pq), pkind (snd pq))) (combine (fst m1) (fst m2)) ++
  flat_map (fun kp => match kw_get (fst kp) (snd m2) with
                      | Some q => [(pkind (snd kp), pkind q)] | None => [] end) (snd m1).

Definition mapping_spec (m1 m2 : mapping) : bool :=
  negb (existsb (fun kk => type_spec (snd kk) (fst kk)) (spec_pairs m1 m2)) &&
  existsb (fun kk => type_spec (fst kk) (snd kk)) (spec_pairs m1 m2).

(* ---- choose_overload ------------------------------------------------------- *)
Definition cand := (fdef * mapping)%type.
Definition matched := (fdef * mapping * binding)%type.

(* loop 1 over one layer: None = raise_ambiguous() *)
Fixpoint loop1_level (pos : list arg) (kw : kwargs) (lz : option (list bool * list bool)) (level : list fdef)
  : option (option (list bool * list bool) * list cand) :=
  match level with
  | [] => Some (lz, [])
  | c :: r =>
      match map_args (fparams c) pos kw with
      | None => loop1_level pos kw lz r
      | Some m =>
          let s := lazy_sig kw m in
          let ok := match lz with Some s0 => sig_eqb s0 s | None => true end in
          if ok then
            match loop1_level pos kw (match lz with Some s0 => Some s0 | None => Some s end) r with
            | Some (lz', cs) => Some (lz', (c, m) :: cs)
            | None => None
            end
          else None
      end
  end.

Fixpoint loop1 (pos : list arg) (kw : kwargs) (lz : option (list bool * list bool)) (layers : list (list fdef))
  : option (option (list bool * list bool) * list (list cand)) :=
  match layers with
  | [] => Some (lz, [])
  | level :: r =>
      match loop1_level pos kw lz level with
      | None => None
      | Some (lz', cs) =>
          match loop1 pos kw lz' r with
          | None => None
          | Some (lz'', ls) => Some (lz'', match cs with [] => ls | _ => cs :: ls end)
          end
      end
  end.

Fixpoint delegates (pos : list arg) (kw : kwargs) (level : list cand) : list matched :=
  match level with
  | [] => []
  | (c, m) :: r =>
      match get_delegate (fparams c) pos kw with
      | Some b => (c, m, b) :: delegates pos kw r
      | None => delegates pos kw r
      end
  end.

Definition m_fid (x : matched) : Z := fid (fst (fst x)).
Definition m_map (x : matched) : mapping := snd (fst x).
Definition chosen (x : matched) : outcome := Chosen (m_fid x) (fst (snd x)) (snd (snd x)).

(* the repaired winner selection: the match that is a specialization of every other match *)
Definition is_winner (ms : list matched) (w : matched) : bool :=
  forallb (fun c => Z.eqb (m_fid c) (m_fid w) || mapping_spec (m_map w) (m_map c)) ms.
Definition pick_winner (ms : list matched) : outcome :=
  match filter (is_winner ms) ms with
  | [w] => chosen w
  | _ => Failed EAmbiguous
  end.

Fixpoint loop2 (pos : list arg) (kw : kwargs) (layers : list (list cand)) : outcome :=
  match layers with
  | [] => Failed ENoMatch
  | level :: r =>
      match delegates pos kw level with
      | [] => loop2 pos kw r
      | ms => pick_winner ms
      end
  end.

Definition nokw_conflict (layers : list (list fdef)) : bool :=
  existsb fnokw (concat layers) && existsb (fun c => negb (fnokw c)) (concat layers).
Definition the_nokw (layers : list (list fdef)) : bool := existsb fnokw (concat layers).

Definition choose_overload (layers : list (list fdef)) (args : list arg) (pykw : kwargs) : outcome * list Z :=
  if nokw_conflict layers then (Failed EAmbiguous, [])
  else
    match translate_args (the_nokw layers) args pykw with
    | inl e => (Failed e, [])
    | inr (pos, kw) =>
        match loop1 pos kw None layers with
        | None => (Failed EAmbiguous, [])
        | Some (_, []) => (Failed ENoMatch, [])
        | Some (lz, c2) =>
            let sg := match lz with Some s => s | None => ([], []) end in
            let '(pos', l1) := eval_pos (fst sg) pos in
            let '(kw', l2) := eval_kw (snd sg) kw in
            (loop2 pos' kw' c2, l1 ++ l2)
        end
    end.

(* ---- the code before the repair (F3): single pass, first candidate's no_kwargs -- *)
(* None = raise_ambiguous() *)
Fixpoint historic_level (ms : list matched) (winner : option matched) : option (option matched) :=
  match ms with
  | [] => Some winner
  | x :: r =>
      match winner with
      | None => historic_level r (Some x)
      | Some w =>
          if mapping_spec (m_map w) (m_map x) then historic_level r (Some w)
          else if negb (mapping_spec (m_map x) (m_map w)) then None
          else historic_level r (Some x)
      end
  end.

Fixpoint loop2_historic (pos : list arg) (kw : kwargs) (layers : list (list cand)) : outcome :=
  match layers with
  | [] => Failed ENoMatch
  | level :: r =>
      match historic_level (delegates pos kw level) None with
      | None => Failed EAmbiguous
      | Some None => loop2_historic pos kw r
      | Some (Some w) => chosen w
      end
  end.

(* loop 1 with no_kwargs taken from the first candidate enumerated *)
Fixpoint nokw_mismatch_first (first : bool) (l : list fdef) : bool :=
  match l with [] => false | c :: r => negb (Bool.eqb first (fnokw c)) || nokw_mismatch_first first r end.

Definition choose_historic (layers : list (list fdef)) (args : list arg) (pykw : kwargs) : outcome * list Z :=
  match concat layers with
  | [] => (Failed ENoMatch, [])
  | c0 :: _ =>
      match translate_args (fnokw c0) args pykw with
      | inl e => (Failed e, [])
      | inr (pos, kw) =>
          (* a later candidate with the other no_kwargs value raises ambiguous when reached;
             a laziness conflict reached earlier raises ambiguous as well: same outcome *)
          if nokw_mismatch_first (fnokw c0) (concat layers) then (Failed EAmbiguous, [])
          else
          match loop1 pos kw None layers with
          | None => (Failed EAmbiguous, [])
          | Some (_, []) => (Failed ENoMatch, [])
          | Some (lz, c2) =>
              let sg := match lz with Some s => s | None => ([], []) end in
              let '(pos', l1) := eval_pos (fst sg) pos in
              let '(kw', l2) := eval_kw (snd sg) kw in
              (loop2_historic pos' kw' c2, l1 ++ l2)
          end
      end
  end.

(* ---- ContextBase.collect_functions + runner.call --------------------------- *)
Record layer := { lfuns : list fdef; lexcl : bool }.

Definition kind_ok (has_receiver : bool) (f : fdef) : bool :=
  if has_receiver then fismeth f else fisfun f.

Fixpoint collect (has_receiver : bool) (chain : list layer) : list (list fdef) :=
  match chain with
  | [] => []
  | l :: r =>
      let fs := filter (kind_ok has_receiver) (lfuns l) in
      let rest := if lexcl l then [] else collect has_receiver r in
      match fs with [] => rest | _ => fs :: rest end
  end.

(* [args] already starts with [ARaw receiver] when there is a receiver *)
Definition call (has_receiver : bool) (chain : list layer) (args : list arg) (pykw : kwargs) : outcome * list Z :=
  match collect has_receiver chain with
  | [] => (Failed EUnknown, [])
  | layers => choose_overload layers args pykw
  end.

Definition call_historic (has_receiver : bool) (chain : list layer) (args : list arg) (pykw : kwargs) : outcome * list Z :=
  match collect has_receiver chain with
  | [] => (Failed EUnknown, [])
  | layers => choose_historic layers args pykw
  end.

(* ---- the documented rules, stated with set-like combinators only ------------ *)
(* candidates of a layer that can be called with this syntax *)
Definition callable (pos : list arg) (kw : kwargs) (level : list fdef) : list cand :=
  flat_map (fun c => match map_args (fparams c) pos kw with Some m => [(c, m)] | None => [] end) level.

Definition lazy_agree (kw : kwargs) (cs : list cand) : bool :=
  forallb (fun c1 => forallb (fun c2 => sig_eqb (lazy_sig kw (snd c1)) (lazy_sig kw (snd c2))) cs) cs.

Definition resolve_spec (layers : list (list fdef)) (args : list arg) (pykw : kwargs) : outcome * list Z :=
  let all := concat layers in
  if existsb (fun c1 => existsb (fun c2 => negb (Bool.eqb (fnokw c1) (fnokw c2))) all) all
  then (Failed EAmbiguous, [])
  else
    match translate_args (existsb fnokw all) args pykw with
    | inl e => (Failed e, [])
    | inr (pos, kw) =>
        let cl := map (callable pos kw) layers in
        if negb (lazy_agree kw (concat cl)) then (Failed EAmbiguous, [])
        else
          match concat cl with
          | [] => (Failed ENoMatch, [])
          | c0 :: _ =>
              let sg := lazy_sig kw (snd c0) in       (* the common laziness signature *)
              let '(pos', l1) := eval_pos (fst sg) pos in
              let '(kw', l2) := eval_kw (snd sg) kw in
              (match find (fun ms => negb (match ms with [] => true | _ => false end))
                          (map (delegates pos' kw') cl) with
               | None => Failed ENoMatch
               | Some ms => pick_winner ms
               end, l1 ++ l2)
          end
    end.

End Sub.

(* ---- the concrete lattice used by the correspondence ------------------------ *)
(* 0 object; 1 X; 2 A(X); 3 B(X); 4 D(A,B); 5 E(D); 6 F; 7 G(A); 8 H(G,B) *)
Definition sub6 (a b : tag) : bool :=
  match a, b with
  | 0, _ => false
  | S _, 0 => Nat.leb a 8
  | 2, 1 | 3, 1 | 4, 1 | 5, 1 | 7, 1 | 8, 1 => true
  | 4, 2 | 4, 3 | 5, 2 | 5, 3 | 5, 4 => true
  | 7, 2 | 8, 7 | 8, 2 | 8, 3 => true
  | _, _ => false
  end.

(* ---- correspondence cases ----------------------------------------------------- *)
Record case := {
  c_chain : list layer; c_recv : bool; c_args : list arg; c_kwargs : kwargs;
  c_obs : outcome; c_log : list Z }.

Definition case_ok (c : case) : bool :=
  let '(o, l) := call sub6 (c_recv c) (c_chain c) (c_args c) (c_kwargs c) in
  outcome_eqb o (c_obs c) && list_eqb Z.eqb l (c_log c).

Definition case_ok_historic (c : case) : bool :=
  let '(o, l) := call_historic sub6 (c_recv c) (c_chain c) (c_args c) (c_kwargs c) in
  outcome_eqb o (c_obs c) && list_eqb Z.eqb l (c_log c).

(* map_args / get_delegate in isolation *)
Record bcase := {
  b_params : list param; b_args : list arg; b_kwargs : kwargs;
  b_map : option (list Z * list (Z * Z));       (* names of the parameters per slot; key -> parameter name *)
  b_del : option binding }.

Definition kwz_sorted_eqb (a b : list (Z * Z)) : bool :=
  Nat.eqb (length a) (length b) &&
  forallb (fun kv => match kw_get (fst kv) b with Some v => Z.eqb v (snd kv) | None => false end) a.
Definition bcase_ok (c : bcase) : bool :=
  (match map_args sub6 (b_params c) (b_args c) (b_kwargs c), b_map c with
   | None, None => true
   | Some (sl, kwd), Some (sl', kwd') =>
       list_eqb Z.eqb (map pname sl) sl' && kwz_sorted_eqb (map (fun kp => (fst kp, pname (snd kp))) kwd) kwd'
   | _, _ => false
   end) &&
  (match get_delegate sub6 (b_params c) (b_args c) (b_kwargs c), b_del c with
   | None, None => true
   | Some (sl, kwd), Some (sl', kwd') => list_eqb bval_eqb sl sl' && kwb_set_eqb kwd kwd'
   | _, _ => false
   end).

(* ---- correspondence on REAL standard-library definitions (rows of Gen/Registry.v) ------------ *)
Record scase := {
  s_layers : list (list nat * bool);   (* per context layer, nearest first: registry indices of the overloads, exclusive mark *)
  s_recv : bool; s_args : list arg; s_kwargs : kwargs;
  s_chosen : option Z;                 (* Some fid: that definition ran;  None: resolution failed with s_err *)
  s_err : err; s_log : list Z }.

Definition scase_ok (sub : tag -> tag -> bool) (defs : list fdef) (c : scase) : bool :=
  let chain := map (fun l => {| lfuns := flat_map (fun i => match nth_error defs i with Some f => [f] | None => [] end) (fst l);
                                lexcl := snd l |}) (s_layers c) in
  let '(o, l) := call sub (s_recv c) chain (s_args c) (s_kwargs c) in
  (match o, s_chosen c with
   | Chosen f _ _, Some g => Z.eqb f g
   | Failed e, None => err_eqb e (s_err c)
   | _, _ => false
   end) && list_eqb Z.eqb l (s_log c).
