(* Model of the yaqlization access policy:
     yaql/yaqlization.py            build_yaqlization_settings, yaqlize, get_yaqlization_settings
     yaql/standard_library/yaqlized.py   Yaqlized(...).check, _match_name_to_entry, _validate_name,
                                          _remap_name, _auto_yaqlize, op_dot / attribution / indexation
   Names are lists of code points.  Regular-expression search and user predicates are
   oracles (Section variables); the correspondence supplies their truth table.
   No proofs in this file. *)
From Coq Require Import List ZArith Bool.
From YV Require Import Common.Corr.
Import ListNotations.
Open Scope Z_scope.

Definition name := list Z.
Definition underscore : Z := 95.

(* whitelist / blacklist entries: a string, a compiled regex, a callable, anything else *)
Inductive entry :=
| EStr (s : name)
| ERegex (r : nat)
| EPred (p : nat)
| EJunk.                      (* hashable non-string, non-regex, non-callable: never matches *)

(* values of attribute_remapping: 'target' | ('target',) | ('target', {kw: kw'}) *)
Inductive rvalue :=
| RStr (n : name)
| RTup1 (n : name)
| RTup2 (n : name) (argmap : list (name * name)).

Definition rtarget (v : rvalue) : name :=
  match v with RStr n => n | RTup1 n => n | RTup2 n _ => n end.

Record settings := {
  s_attrs : bool;        (* yaqlizeAttributes *)
  s_methods : bool;      (* yaqlizeMethods *)
  s_indexer : bool;      (* yaqlizeIndexer *)
  s_auto : bool;         (* autoYaqlizeResult *)
  s_white : list entry;
  s_black : list entry;
  s_remap : list (name * rvalue)     (* dict items; keys distinct *)
}.

(* keyword arguments of yaqlization.build_yaqlization_settings / yaqlize *)
Record yargs := {
  a_attrs : bool; a_methods : bool; a_indexer : bool; a_auto : bool;
  a_white : list entry; a_black : list entry;
  a_remap : list (name * rvalue);
  a_blacklist_remapped : bool
}.

(* build_yaqlization_settings: whitelist/blacklist become sets (order and
   multiplicity are unobservable through _validate_name, see Lemmas); every
   remap target is added to the blacklist when blacklist_remapped_attributes *)
Definition build_settings (a : yargs) : settings :=
  {| s_attrs := a_attrs a; s_methods := a_methods a; s_indexer := a_indexer a; s_auto := a_auto a;
     s_white := a_white a;
     s_black := a_black a ++ (if a_blacklist_remapped a
                              then map (fun kv => EStr (rtarget (snd kv))) (a_remap a) else []);
     s_remap := a_remap a |}.

(* yaqlize(obj, ...): does NOT forward blacklist_remapped_attributes (the default
   True of build_yaqlization_settings is always in force); an object that already
   carries settings keeps them *)
Definition yaqlize (existing : option settings) (a : yargs) : option settings :=
  match existing with
  | Some s => Some s
  | None => Some (build_settings
      {| a_attrs := a_attrs a; a_methods := a_methods a; a_indexer := a_indexer a; a_auto := a_auto a;
         a_white := a_white a; a_black := a_black a; a_remap := a_remap a;
         a_blacklist_remapped := true |})
  end.

Definition starts_underscore (n : name) : bool :=
  match n with c :: _ => Z.eqb c underscore | [] => false end.

Fixpoint assoc {B} (k : name) (l : list (name * B)) : option B :=
  match l with
  | [] => None
  | (k', v) :: r => if str_eqb k k' then Some v else assoc k r
  end.

Inductive exn := ENoMatch | EAttribute | EKey | EIndex | EType | ERuntime.

Inductive form := FAttr | FMethod | FIndex.

Inductive outcome := Denied (e : exn) | Reach (m : name).

Definition exn_eqb (a b : exn) : bool :=
  match a, b with
  | ENoMatch, ENoMatch | EAttribute, EAttribute | EKey, EKey | EIndex, EIndex | EType, EType | ERuntime, ERuntime => true
  | _, _ => false
  end.

Definition outcome_eqb (a b : outcome) : bool :=
  match a, b with
  | Denied x, Denied y => exn_eqb x y
  | Reach x, Reach y => str_eqb x y
  | _, _ => false
  end.

Definition switch (f : form) (s : settings) : bool :=
  match f with FAttr => s_attrs s | FMethod => s_methods s | FIndex => s_indexer s end.

(* exception class raised by _validate_name for the form *)
Definition deny_exn (f : form) : exn :=
  match f with FIndex => EKey | _ => EAttribute end.

Section Policy.
  Variable regex_search : nat -> name -> bool.   (* entry.search(name) is not None *)
  Variable pred_holds : nat -> name -> bool.     (* bool(entry(name)) *)

  (* _match_name_to_entry *)
  Definition match_entry (n : name) (e : entry) : bool :=
    match e with
    | EStr s => str_eqb n s
    | ERegex r => regex_search r n
    | EPred p => pred_holds p n
    | EJunk => false
    end.

  Definition matches_any (n : name) (l : list entry) : bool := existsb (match_entry n) l.

  (* _validate_name: true = returns normally, false = raises exception_cls *)
  Definition validate_name (n : name) (s : settings) : bool :=
    if starts_underscore n then false
    else match s_white s with
         | _ :: _ => matches_any n (s_white s)
         | [] => negb (matches_any n (s_black s))
         end.

  (* _remap_name *)
  Definition remap_name (n : name) (s : settings) : rvalue :=
    match assoc n (s_remap s) with Some v => v | None => RStr n end.

  (* what the form does with the (validated) name: the member it goes for, or the
     error raised while unpacking the remapping *)
  Definition target (f : form) (s : settings) (n : name) : outcome :=
    match f with
    | FIndex => Reach n                                   (* obj[key]: no remapping *)
    | FAttr => match remap_name n s with
               | RStr m => Reach m
               | _ => Denied EType                        (* getattr(obj, <tuple>) *)
               end
    | FMethod => match remap_name n s with
                 | RStr m => Reach m
                 | RTup1 _ => Denied EIndex               (* mappings[1] on a 1-tuple *)
                 | RTup2 m _ => Reach m
                 end
    end.

  (* Yaqlized(...).check for the overload of form f *)
  Definition yaqlized_check (f : form) (st : option settings) : bool :=
    match st with None => false | Some s => switch f s end.

  (* `$obj.n`, `$obj.n()`, `$obj[n]` on a host object whose settings are st.
     When the Yaqlized-typed overload does not accept the object, the remaining
     overloads ('.' on a registered #property#n / method n, '#indexer' on
     sequences and dicts) do not apply to a host object: resolution error. *)
  Definition access (f : form) (st : option settings) (n : name) : outcome :=
    match st with
    | None => Denied ENoMatch
    | Some s =>
        if negb (switch f s) then Denied ENoMatch
        else if validate_name n s then target f s n
        else Denied (deny_exn f)
    end.

  Definition accepted (o : outcome) : bool := match o with Reach _ => true | Denied _ => false end.

  (* the gate as one function of (settings, name), independent of the form *)
  Definition gate (s : settings) (n : name) : bool := validate_name n s.

  (* ---- auto-yaqlization of results and chains of accesses --------------- *)

  (* settings given by yaqlize(value, auto_yaqlize_result=True) *)
  Definition auto_default : settings :=
    {| s_attrs := true; s_methods := true; s_indexer := true; s_auto := true;
       s_white := []; s_black := []; s_remap := [] |}.

  (* a host object as far as the policy is concerned *)
  Record hobj := {
    h_settings : option settings;   (* its own __yaqlization__ (instance or class), if any *)
    h_builtin : bool                (* class lives in builtins, or setattr is refused *)
  }.

  (* settings of a result after _auto_yaqlize(res, parent settings) *)
  Definition after_auto (parent : settings) (o : hobj) : option settings :=
    match h_settings o with
    | Some s => Some s
    | None => if s_auto parent && negb (h_builtin o) then Some auto_default else None
    end.

  (* a path `$root.n1.n2...` (each step with its form); [child o m] is the host
     object stored under member m of o.  Result: the steps made (object, settings in force,
     member reached), in order, and the first denial if any. *)
  Section Chain.
    Variable child : hobj -> form -> name -> hobj.

    Fixpoint walk (o : hobj) (st : option settings) (path : list (form * name))
      : list (hobj * settings * name) * option exn :=
      match path with
      | [] => ([], None)
      | (f, n) :: rest =>
          match st with
          | None => ([], Some ENoMatch)
          | Some s =>
              match access f (Some s) n with
              | Denied e => ([], Some e)
              | Reach m =>
                  let o' := child o f m in
                  let r := walk o' (after_auto s o') rest in
                  ((o, s, m) :: fst r, snd r)
              end
          end
      end.
  End Chain.
End Policy.

(* ---- correspondence --------------------------------------------------- *)

(* truth tables for the regexes / predicates of a case: id -> names matched *)
Definition table := list (nat * list name).

Fixpoint tlookup (t : table) (i : nat) : list name :=
  match t with
  | [] => []
  | (j, l) :: r => if Nat.eqb i j then l else tlookup r i
  end.

Definition smem (n : name) (l : list name) : bool := existsb (str_eqb n) l.
Definition table_oracle (t : table) (i : nat) (n : name) : bool := smem n (tlookup t i).

Record case := {
  c_regex : table;
  c_pred : table;
  c_via_yaqlize : bool;            (* settings built by yaqlize(...) rather than build_yaqlization_settings *)
  c_args : option yargs;           (* None: the object is not yaqlized *)
  c_form : form;
  c_name : name;
  c_obs : outcome                  (* member the probe saw being reached / error class *)
}.

Definition case_settings (c : case) : option settings :=
  match c_args c with
  | None => None
  | Some a => if c_via_yaqlize c then yaqlize None a else Some (build_settings a)
  end.

Definition case_model (c : case) : outcome :=
  access (table_oracle (c_regex c)) (table_oracle (c_pred c)) (c_form c) (case_settings c) (c_name c).

Definition case_ok (c : case) : bool := outcome_eqb (case_model c) (c_obs c).

(* chains: root args, auto flags, a path; every intermediate object is a fresh
   non-builtin probe without settings unless listed in c_presets (depth -> args) *)
Record chain_case := {
  cc_regex : table;
  cc_pred : table;
  cc_root : option yargs;
  cc_children : list (option yargs * bool);   (* per depth 1..: own settings args, builtin flag *)
  cc_path : list (form * name);
  cc_obs : list name * option exn
}.

Definition nth_child (l : list (option yargs * bool)) (d : nat) : hobj :=
  match nth_error l d with
  | Some (a, b) => {| h_settings := match a with Some a' => Some (build_settings a') | None => None end; h_builtin := b |}
  | None => {| h_settings := None; h_builtin := false |}
  end.

(* the probe graph is a line: the object at depth d+1 is the result of any access at depth d *)
Fixpoint walk_line (rs ps : table) (kids : list (option yargs * bool)) (d : nat) (st : option settings)
         (path : list (form * name)) : list name * option exn :=
  match path with
  | [] => ([], None)
  | (f, n) :: rest =>
      match access (table_oracle rs) (table_oracle ps) f st n with
      | Denied e => ([], Some e)
      | Reach m =>
          let o' := nth_child kids d in
          let st' := match st with Some s => after_auto s o' | None => None end in
          let r := walk_line rs ps kids (S d) st' rest in
          (m :: fst r, snd r)
      end
  end.

Definition names_eqb := list_eqb str_eqb.

Definition chain_ok (c : chain_case) : bool :=
  let r := walk_line (cc_regex c) (cc_pred c) (cc_children c) 0
             (match cc_root c with Some a => Some (build_settings a) | None => None end) (cc_path c) in
  names_eqb (fst r) (fst (cc_obs c)) && option_eqb exn_eqb (snd r) (snd (cc_obs c)).
