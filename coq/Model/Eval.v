(* Reference interpreter for the core evaluation fragment of YAQL (C04, C09, C11, C18),
   written from doc/source/language_reference.rst and the call protocol of
   yaql/language/{expressions,runner,specs,yaqltypes,contexts}.py and
   yaql/standard_library/{system,boolean,branching,queries,collections}.py.

   - contexts live in an APPEND-ONLY heap: every write yaql performs during evaluation goes to
     a context created by the very call that writes (the payload's child context, the child made
     for a lambda invocation), so "create child, then set items" is modelled as one allocation;
   - a lambda is (body, captured context); invoking it allocates a child OF THE CAPTURED context
     holding $1..$n / $name and evaluates the body there (lexical scoping);
   - lazy sequences (select / where / collection.attribute) are values [VIter src ops]; their
     lambdas run when a consumer pulls (toList, len, any, all, first, finalisation), element by
     element through all stages - so the tick log has Python's order;
   - [tick(id, v)] is the probe of C11: logs id after evaluating v, returns v;
   - anything outside the fragment evaluates to [Unsup] (the harness skips and counts it).
   No proofs in this file. *)
From Coq Require Import List ZArith Bool Arith.
From YV Require Import Common.Corr.
Import ListNotations.

Inductive const := CNull | CBool (b : bool) | CInt (z : Z) | CStr (s : str).
Inductive binop := OAdd | OSub | OMul | OLt | OLe | OGt | OGe | OEq | ONe | OAnd | OOr.
Inductive unop := UNeg | UNot.

Inductive expr :=
| EConst (c : const)
| EKw (s : str)                                  (* KeywordConstant: denotes its own text *)
| EVar (n : str)                                 (* $, $1, $name: the text after the dollar *)
| EList (es : list expr)
| EMap (kvs : list (expr * expr))
| EIndex (e i : expr)
| EBin (o : binop) (a b : expr)
| EUn (o : unop) (a : expr)
| EDotKw (e : expr) (k : str)                    (* e.k *)
| EMeth (e : expr) (name : str) (args : list expr)      (* e.name(args) *)
| EElvis (e : expr) (name : str) (args : list expr)     (* e?.name(args) *)
| ELet (pos : list expr) (kw : list (str * expr))
| EWith (es : list expr)
| EDef (name : str) (body : expr)
| EUser (name : str) (args : list expr) (kw : list (str * expr))   (* call of a def'd function *)
| ETick (id : Z) (e : expr)
| ESwitch (cases : list (expr * expr))
| ECoalesce (es : list expr)
| EArrow (a b : expr)
| ESelectCase (es : list expr).

Inductive lop :=
| LMap (body : expr) (cap : nat)
| LFilter (body : expr) (cap : nat)
| LAttr (k : str).

Inductive val :=
| VNull | VBool (b : bool) | VInt (z : Z) | VStr (s : str)
| VList (l : list val)
| VDict (kvs : list (val * val))
| VCtx (c : nat)
| VIter (src : list val) (ops : list lop).

Inductive ekind := KRes | KKey | KIndex | KStop | KType | KZero | KValue.
Inductive res (A : Type) := Ok (a : A) | Err (k : ekind) | Unsup | Fuel.
Arguments Ok {A}. Arguments Err {A}. Arguments Unsup {A}. Arguments Fuel {A}.

Record ctxrec := { cparent : option nat; cdata : list (str * val); cfuncs : list (str * (expr * nat)) }.
Record st := { heap : list ctxrec; log : list Z }.

Definition alloc (s : st) (r : ctxrec) : st * nat :=
  ({| heap := heap s ++ [r]; log := log s |}, length (heap s)).
Definition tick (s : st) (id : Z) : st := {| heap := heap s; log := log s ++ [id] |}.

(* ---- contexts ---- *)
Definition norm (n : str) : str := match n with [] => [49%Z] | _ => n end.   (* "$" is "$1" *)

Fixpoint assoc {A} (l : list (str * A)) (k : str) : option A :=
  match l with [] => None | (k', v) :: r => if str_eqb k k' then Some v else assoc r k end.
(* later writes to one key win (context[key] = value executed left to right) *)
Definition assoc_last {A} (l : list (str * A)) (k : str) : option A := assoc (rev l) k.

Fixpoint get_data (fuel : nat) (h : list ctxrec) (c : nat) (n : str) : val :=
  match fuel with
  | O => VNull
  | S f => match nth_error h c with
           | None => VNull
           | Some r => match assoc_last (cdata r) n with
                       | Some v => v
                       | None => match cparent r with Some p => get_data f h p n | None => VNull end
                       end
           end
  end.
Definition lookup (h : list ctxrec) (c : nat) (n : str) : val := get_data (S (length h)) h c (norm n).

Fixpoint get_func (fuel : nat) (h : list ctxrec) (c : nat) (n : str) : option (expr * nat) :=
  match fuel with
  | O => None
  | S f => match nth_error h c with
           | None => None
           | Some r => match assoc_last (cfuncs r) n with
                       | Some v => Some v
                       | None => match cparent r with Some p => get_func f h p n | None => None end
                       end
           end
  end.
Definition lookup_func (h : list ctxrec) (c : nat) (n : str) := get_func (S (length h)) h c n.

(* ---- values ---- *)
Definition truthy (v : val) : res bool :=
  match v with
  | VNull => Ok false | VBool b => Ok b | VInt z => Ok (negb (Z.eqb z 0))
  | VStr s => Ok (match s with [] => false | _ => true end)
  | VList l => Ok (match l with [] => false | _ => true end)
  | VDict l => Ok (match l with [] => false | _ => true end)
  | VCtx _ | VIter _ _ => Unsup
  end.

Fixpoint str_ltb (a b : str) : bool :=
  match a, b with
  | _, [] => false
  | [], _ :: _ => true
  | x :: a', y :: b' => Z.ltb x y || (Z.eqb x y && str_ltb a' b')
  end.

(* Python == on the fragment; None = outside the fragment (bool vs int, lazy values, ...) *)
Fixpoint val_eq (a b : val) {struct a} : option bool :=
  match a, b with
  | VNull, VNull => Some true
  | VBool x, VBool y => Some (Bool.eqb x y)
  | VInt x, VInt y => Some (Z.eqb x y)
  | VStr x, VStr y => Some (str_eqb x y)
  | VList x, VList y =>
      (fix go (x y : list val) : option bool :=
         match x, y with
         | [], [] => Some true
         | u :: x', w :: y' => match val_eq u w with
                               | Some true => go x' y' | Some false => Some false | None => None end
         | _, _ => Some false
         end) x y
  | VBool _, VInt _ | VInt _, VBool _ => None
  | VIter _ _, _ | _, VIter _ _ | VCtx _, _ | _, VCtx _ | VDict _, _ | _, VDict _ => None
  | _, _ => Some false
  end.

Definition key_eqb (a b : val) : bool :=
  match a, b with
  | VStr x, VStr y => str_eqb x y
  | VInt x, VInt y => Z.eqb x y
  | _, _ => false
  end.
Definition is_key (v : val) : bool := match v with VStr _ | VInt _ => true | _ => false end.

Fixpoint dict_get (l : list (val * val)) (k : val) : option val :=
  match l with [] => None | (k', v) :: r => if key_eqb k k' then Some v else dict_get r k end.
(* dict(...) semantics: a repeated key keeps its first position and takes the last value *)
Fixpoint dict_set (l : list (val * val)) (k v : val) : list (val * val) :=
  match l with
  | [] => [(k, v)]
  | (k', v') :: r => if key_eqb k k' then (k', v) :: r else (k', v') :: dict_set r k v
  end.

Definition binop_val (o : binop) (a b : val) : res val :=
  match o, a, b with
  | OAdd, VInt x, VInt y => Ok (VInt (x + y))
  | OAdd, VStr x, VStr y => Ok (VStr (x ++ y))
  | OAdd, VList x, VList y => Ok (VList (x ++ y))
  | OSub, VInt x, VInt y => Ok (VInt (x - y))
  | OMul, VInt x, VInt y => Ok (VInt (x * y))
  | OLt, VInt x, VInt y => Ok (VBool (Z.ltb x y))
  | OLe, VInt x, VInt y => Ok (VBool (Z.leb x y))
  | OGt, VInt x, VInt y => Ok (VBool (Z.ltb y x))
  | OGe, VInt x, VInt y => Ok (VBool (Z.leb y x))
  | OLt, VStr x, VStr y => Ok (VBool (str_ltb x y))
  | OGt, VStr x, VStr y => Ok (VBool (str_ltb y x))
  | OLe, VStr x, VStr y => Ok (VBool (negb (str_ltb y x)))
  | OGe, VStr x, VStr y => Ok (VBool (negb (str_ltb x y)))
  | OEq, _, _ => match val_eq a b with Some r => Ok (VBool r) | None => Unsup end
  | ONe, _, _ => match val_eq a b with Some r => Ok (VBool (negb r)) | None => Unsup end
  | _, _, _ => Unsup
  end.

Fixpoint nat_str_aux (fuel n : nat) (acc : str) : str :=
  match fuel with
  | O => acc
  | S f => let d := Z.of_nat (n mod 10) in
           let acc' := (48 + d)%Z :: acc in
           if Nat.ltb n 10 then acc' else nat_str_aux f (n / 10) acc'
  end.
Definition nat_str (n : nat) : str := nat_str_aux (S n) n [].

Fixpoint number_from (i : nat) (l : list val) : list (str * val) :=
  match l with [] => [] | v :: r => (nat_str i, v) :: number_from (S i) r end.

Definition list_index (l : list val) (i : Z) : res val :=
  let n := Z.of_nat (length l) in
  let j := if Z.ltb i 0 then (i + n)%Z else i in
  if Z.ltb j 0 || Z.leb n j then Err KIndex
  else match nth_error l (Z.to_nat j) with Some v => Ok v | None => Err KIndex end.

(* ---- evaluation ---- *)
Section WithEval.
  (* evaluate an expression in a context, and invoke a lambda (body, captured ctx) on arguments *)
  Variable ev : st -> nat -> expr -> st * res val.

  Definition invoke (s : st) (body : expr) (cap : nat) (pos : list val) (kw : list (str * val)) : st * res val :=
    let '(s1, c) := alloc s {| cparent := Some cap; cdata := number_from 1 pos ++ kw; cfuncs := [] |} in
    ev s1 c body.

  Fixpoint eval_seq (s : st) (c : nat) (es : list expr) : st * res (list val) :=
    match es with
    | [] => (s, Ok [])
    | e :: r => match ev s c e with
                | (s1, Ok v) => match eval_seq s1 c r with
                                | (s2, Ok vs) => (s2, Ok (v :: vs))
                                | (s2, Err k) => (s2, Err k) | (s2, Unsup) => (s2, Unsup) | (s2, Fuel) => (s2, Fuel)
                                end
                | (s1, Err k) => (s1, Err k) | (s1, Unsup) => (s1, Unsup) | (s1, Fuel) => (s1, Fuel)
                end
    end.

  Fixpoint eval_kw (s : st) (c : nat) (kw : list (str * expr)) : st * res (list (str * val)) :=
    match kw with
    | [] => (s, Ok [])
    | (k, e) :: r => match ev s c e with
                     | (s1, Ok v) => match eval_kw s1 c r with
                                     | (s2, Ok vs) => (s2, Ok ((k, v) :: vs))
                                     | (s2, Err x) => (s2, Err x) | (s2, Unsup) => (s2, Unsup) | (s2, Fuel) => (s2, Fuel)
                                     end
                     | (s1, Err x) => (s1, Err x) | (s1, Unsup) => (s1, Unsup) | (s1, Fuel) => (s1, Fuel)
                     end
    end.

  Fixpoint eval_map (s : st) (c : nat) (kvs : list (expr * expr)) (acc : list (val * val)) : st * res val :=
    match kvs with
    | [] => (s, Ok (VDict acc))
    | (ke, ve) :: r =>
        match ev s c ke with
        | (s1, Ok k) =>
            match ev s1 c ve with
            | (s2, Ok v) => if is_key k then eval_map s2 c r (dict_set acc k v) else (s2, Unsup)
            | (s2, Err x) => (s2, Err x) | (s2, Unsup) => (s2, Unsup) | (s2, Fuel) => (s2, Fuel)
            end
        | (s1, Err x) => (s1, Err x) | (s1, Unsup) => (s1, Unsup) | (s1, Fuel) => (s1, Fuel)
        end
    end.

  (* e.k on a value: dict lookup; on a collection a lazy projection; else '#property#k' is unknown *)
  Definition dot_kw (v : val) (k : str) : res val :=
    match v with
    | VDict l => match dict_get l (VStr k) with Some x => Ok x | None => Err KKey end
    | VList l => Ok (VIter l [LAttr k])
    | VIter src ops => Ok (VIter src (ops ++ [LAttr k]))
    | VNull | VBool _ | VInt _ | VStr _ => Err KRes
    | VCtx _ => Unsup
    end.

  (* one element through the stages of a lazy sequence; None = filtered out *)
  Fixpoint through (s : st) (x : val) (ops : list lop) : st * res (option val) :=
    match ops with
    | [] => (s, Ok (Some x))
    | LMap body cap :: r =>
        match invoke s body cap [x] [] with
        | (s1, Ok y) => through s1 y r
        | (s1, Err k) => (s1, Err k) | (s1, Unsup) => (s1, Unsup) | (s1, Fuel) => (s1, Fuel)
        end
    | LFilter body cap :: r =>
        match invoke s body cap [x] [] with
        | (s1, Ok y) => match truthy y with
                        | Ok true => through s1 x r
                        | Ok false => (s1, Ok None)
                        | Err k => (s1, Err k) | Unsup => (s1, Unsup) | Fuel => (s1, Fuel)
                        end
        | (s1, Err k) => (s1, Err k) | (s1, Unsup) => (s1, Unsup) | (s1, Fuel) => (s1, Fuel)
        end
    | LAttr k :: r =>
        match dot_kw x k with
        | Ok y => through s y r
        | Err e => (s, Err e) | Unsup => (s, Unsup) | Fuel => (s, Fuel)
        end
    end.

  (* pull everything *)
  Fixpoint force (s : st) (src : list val) (ops : list lop) : st * res (list val) :=
    match src with
    | [] => (s, Ok [])
    | x :: r => match through s x ops with
                | (s1, Ok o) => match force s1 r ops with
                                | (s2, Ok ys) => (s2, Ok (match o with Some y => y :: ys | None => ys end))
                                | (s2, Err k) => (s2, Err k) | (s2, Unsup) => (s2, Unsup) | (s2, Fuel) => (s2, Fuel)
                                end
                | (s1, Err k) => (s1, Err k) | (s1, Unsup) => (s1, Unsup) | (s1, Fuel) => (s1, Fuel)
                end
    end.

  (* pull up to the first surviving element *)
  Fixpoint force_first (s : st) (src : list val) (ops : list lop) : st * res (option val) :=
    match src with
    | [] => (s, Ok None)
    | x :: r => match through s x ops with
                | (s1, Ok (Some y)) => (s1, Ok (Some y))
                | (s1, Ok None) => force_first s1 r ops
                | (s1, Err k) => (s1, Err k) | (s1, Unsup) => (s1, Unsup) | (s1, Fuel) => (s1, Fuel)
                end
    end.

  (* any(pred) / all(pred): the predicate is applied to surviving elements, stopping at the decision *)
  Fixpoint force_search (want : bool) (s : st) (src : list val) (ops : list lop) (pred : option (expr * nat))
    : st * res bool :=
    match src with
    | [] => (s, Ok (negb want))
    | x :: r =>
        match through s x ops with
        | (s1, Ok None) => force_search want s1 r ops pred
        | (s1, Ok (Some y)) =>
            let '(s2, t) := match pred with
                            | Some (body, cap) =>
                                match invoke s1 body cap [y] [] with
                                | (s2, Ok p) => (s2, truthy p)
                                | (s2, Err k) => (s2, Err k) | (s2, Unsup) => (s2, Unsup) | (s2, Fuel) => (s2, Fuel)
                                end
                            | None => (s1, if want then Ok true else truthy y)
                            end in
            match t with
            | Ok b => if Bool.eqb b want then (s2, Ok want) else force_search want s2 r ops pred
            | Err k => (s2, Err k) | Unsup => (s2, Unsup) | Fuel => (s2, Fuel)
            end
        | (s1, Err k) => (s1, Err k) | (s1, Unsup) => (s1, Unsup) | (s1, Fuel) => (s1, Fuel)
        end
    end.

  Definition as_seq (v : val) : option (list val * list lop) :=
    match v with VList l => Some (l, []) | VIter src ops => Some (src, ops) | _ => None end.

  (* method call on an evaluated receiver; [c] is the context the call is written in *)
  Definition meth (s : st) (c : nat) (rv : val) (name : str) (args : list expr) : st * res val :=
    let nm := name in
    (* select / where *)
    if str_eqb nm [115;101;108;101;99;116]%Z then
      match as_seq rv, args with
      | Some (src, ops), [f] => let '(s1, c1) := alloc s {| cparent := Some c; cdata := []; cfuncs := [] |} in
                                (s1, Ok (VIter src (ops ++ [LMap f c1])))
      | Some _, _ => (s, Unsup)
      | None, _ => (s, match rv with VCtx _ => Unsup | _ => Err KRes end)
      end
    else if str_eqb nm [119;104;101;114;101]%Z then
      match as_seq rv, args with
      | Some (src, ops), [f] => let '(s1, c1) := alloc s {| cparent := Some c; cdata := []; cfuncs := [] |} in
                                (s1, Ok (VIter src (ops ++ [LFilter f c1])))
      | Some _, _ => (s, Unsup)
      | None, _ => (s, match rv with VCtx _ => Unsup | _ => Err KRes end)
      end
    (* any / all *)
    else if str_eqb nm [97;110;121]%Z || str_eqb nm [97;108;108]%Z then
      let want := str_eqb nm [97;110;121]%Z in
      match as_seq rv, args with
      | Some (src, ops), [] =>
          match force_search want s src ops None with (s1, Ok b) => (s1, Ok (VBool b))
          | (s1, Err k) => (s1, Err k) | (s1, Unsup) => (s1, Unsup) | (s1, Fuel) => (s1, Fuel) end
      | Some (src, ops), [f] =>
          let '(s0, c1) := alloc s {| cparent := Some c; cdata := []; cfuncs := [] |} in
          match force_search want s0 src ops (Some (f, c1)) with (s1, Ok b) => (s1, Ok (VBool b))
          | (s1, Err k) => (s1, Err k) | (s1, Unsup) => (s1, Unsup) | (s1, Fuel) => (s1, Fuel) end
      | Some _, _ => (s, Unsup)
      | None, _ => (s, match rv with VCtx _ => Unsup | _ => Err KRes end)
      end
    (* first / first(default) *)
    else if str_eqb nm [102;105;114;115;116]%Z then
      match as_seq rv, args with
      | Some (src, ops), [] =>
          match force_first s src ops with
          | (s1, Ok (Some y)) => (s1, Ok y) | (s1, Ok None) => (s1, Err KStop)
          | (s1, Err k) => (s1, Err k) | (s1, Unsup) => (s1, Unsup) | (s1, Fuel) => (s1, Fuel) end
      | Some (src, ops), [d] =>
          match ev s c d with
          | (s0, Ok dv) =>
              match force_first s0 src ops with
              | (s1, Ok (Some y)) => (s1, Ok y) | (s1, Ok None) => (s1, Ok dv)
              | (s1, Err k) => (s1, Err k) | (s1, Unsup) => (s1, Unsup) | (s1, Fuel) => (s1, Fuel) end
          | (s0, Err k) => (s0, Err k) | (s0, Unsup) => (s0, Unsup) | (s0, Fuel) => (s0, Fuel)
          end
      | Some _, _ => (s, Unsup)
      | None, _ => (s, match rv with VCtx _ => Unsup | _ => Err KRes end)
      end
    (* toList *)
    else if str_eqb nm [116;111;76;105;115;116]%Z then
      match as_seq rv, args with
      | Some (src, ops), [] =>
          match force s src ops with (s1, Ok l) => (s1, Ok (VList l))
          | (s1, Err k) => (s1, Err k) | (s1, Unsup) => (s1, Unsup) | (s1, Fuel) => (s1, Fuel) end
      | Some _, _ => (s, Unsup)
      | None, _ => (s, match rv with VCtx _ => Unsup | _ => Err KRes end)
      end
    (* len *)
    else if str_eqb nm [108;101;110]%Z then
      match rv, args with
      | VList l, [] => (s, Ok (VInt (Z.of_nat (length l))))
      | VStr l, [] => (s, Ok (VInt (Z.of_nat (length l))))
      | VDict l, [] => (s, Ok (VInt (Z.of_nat (length l))))
      | VIter src ops, [] =>
          match force s src ops with (s1, Ok l) => (s1, Ok (VInt (Z.of_nat (length l))))
          | (s1, Err k) => (s1, Err k) | (s1, Unsup) => (s1, Unsup) | (s1, Fuel) => (s1, Fuel) end
      | (VNull | VBool _ | VInt _), [] => (s, Err KRes)
      | _, _ => (s, Unsup)
      end
    (* unpack(names...) on a list *)
    else if str_eqb nm [117;110;112;97;99;107]%Z then
      match rv with
      | VList l =>
          match eval_seq s c args with
          | (s1, Ok names) =>
              let strs := fold_right (fun v acc => match v, acc with VStr x, Some a => Some (x :: a) | _, _ => None end)
                                     (Some []) names in
              match strs with
              | None => (s1, Unsup)
              | Some [] => let '(s2, c1) := alloc s1 {| cparent := Some c; cdata := number_from 1 l; cfuncs := [] |} in
                           (s2, Ok (VCtx c1))
              | Some ns => if Nat.eqb (length ns) (length l)
                           then let '(s2, c1) := alloc s1 {| cparent := Some c; cdata := combine ns l; cfuncs := [] |} in
                                (s2, Ok (VCtx c1))
                           else (s1, Err KValue)
              end
          | (s1, Err k) => (s1, Err k) | (s1, Unsup) => (s1, Unsup) | (s1, Fuel) => (s1, Fuel)
          end
      | _ => (s, Unsup)
      end
    (* dict.get(key [, default]) *)
    else if str_eqb nm [103;101;116]%Z then
      match rv with
      | VDict l =>
          match eval_seq s c args with
          | (s1, Ok [k]) => if is_key k then (s1, Ok (match dict_get l k with Some v => v | None => VNull end)) else (s1, Unsup)
          | (s1, Ok [k; d]) => if is_key k then (s1, Ok (match dict_get l k with Some v => v | None => d end)) else (s1, Unsup)
          | (s1, Ok _) => (s1, Unsup)
          | (s1, Err k) => (s1, Err k) | (s1, Unsup) => (s1, Unsup) | (s1, Fuel) => (s1, Fuel)
          end
      | _ => (s, Unsup)
      end
    (* int.switchCase(args...): only the selected argument is evaluated *)
    else if str_eqb nm [115;119;105;116;99;104;67;97;115;101]%Z then
      match rv with
      | VInt z =>
          match args with
          | [] => (s, Ok VNull)
          | _ => let n := Z.of_nat (length args) in
                 let j := if Z.leb 0 z && Z.ltb z n then z else (n - 1)%Z in
                 match nth_error args (Z.to_nat j) with Some a => ev s c a | None => (s, Unsup) end
          end
      | _ => (s, Unsup)
      end
    else (s, Unsup).
  Fixpoint eval_switch (s : st) (c : nat) (cs : list (expr * expr)) : st * res val :=
    match cs with
    | [] => (s, Ok VNull)
    | (ce, ve) :: r =>
        match ev s c ce with
        | (s1, Ok cv) => match truthy cv with
                         | Ok true => ev s1 c ve
                         | Ok false => eval_switch s1 c r
                         | Err k => (s1, Err k) | Unsup => (s1, Unsup) | Fuel => (s1, Fuel)
                         end
        | (s1, Err x) => (s1, Err x) | (s1, Unsup) => (s1, Unsup) | (s1, Fuel) => (s1, Fuel)
        end
    end.

  Fixpoint eval_coalesce (s : st) (c : nat) (l : list expr) : st * res val :=
    match l with
    | [] => (s, Ok VNull)
    | a :: r => match ev s c a with
                | (s1, Ok VNull) => eval_coalesce s1 c r
                | (s1, Ok v) => (s1, Ok v)
                | (s1, Err x) => (s1, Err x) | (s1, Unsup) => (s1, Unsup) | (s1, Fuel) => (s1, Fuel)
                end
    end.
  Fixpoint eval_select_case (s : st) (c : nat) (l : list expr) (i : Z) : st * res val :=
    match l with
    | [] => (s, Ok (VInt i))
    | a :: r => match ev s c a with
                | (s1, Ok v) => match truthy v with
                                | Ok true => (s1, Ok (VInt i))
                                | Ok false => eval_select_case s1 c r (i + 1)%Z
                                | Err k => (s1, Err k) | Unsup => (s1, Unsup) | Fuel => (s1, Fuel)
                                end
                | (s1, Err x) => (s1, Err x) | (s1, Unsup) => (s1, Unsup) | (s1, Fuel) => (s1, Fuel)
                end
    end.
End WithEval.

Fixpoint eval (fuel : nat) (s : st) (c : nat) (e : expr) : st * res val :=
  match fuel with
  | O => (s, Fuel)
  | S f =>
    let ev := eval f in
    match e with
    | EConst CNull => (s, Ok VNull)
    | EConst (CBool b) => (s, Ok (VBool b))
    | EConst (CInt z) => (s, Ok (VInt z))
    | EConst (CStr x) => (s, Ok (VStr x))
    | EKw k => (s, Ok (VStr k))
    | EVar n => (s, Ok (lookup (heap s) c n))
    | EList es => match eval_seq ev s c es with
                  | (s1, Ok vs) => (s1, Ok (VList vs))
                  | (s1, Err k) => (s1, Err k) | (s1, Unsup) => (s1, Unsup) | (s1, Fuel) => (s1, Fuel)
                  end
    | EMap kvs => eval_map ev s c kvs []
    | EIndex a i =>
        match ev s c a with
        | (s1, Ok av) =>
            match ev s1 c i with
            | (s2, Ok iv) =>
                (s2, match av, iv with
                     | VList l, VInt z => list_index l z
                     | VDict l, (VStr _ | VInt _) => match dict_get l iv with Some v => Ok v | None => Err KKey end
                     | _, _ => Unsup
                     end)
            | (s2, Err k) => (s2, Err k) | (s2, Unsup) => (s2, Unsup) | (s2, Fuel) => (s2, Fuel)
            end
        | (s1, Err k) => (s1, Err k) | (s1, Unsup) => (s1, Unsup) | (s1, Fuel) => (s1, Fuel)
        end
    | EBin OAnd a b =>
        match ev s c a with
        | (s1, Ok av) => match truthy av with
                         | Ok true => ev s1 c b
                         | Ok false => (s1, Ok av)
                         | Err k => (s1, Err k) | Unsup => (s1, Unsup) | Fuel => (s1, Fuel)
                         end
        | (s1, Err k) => (s1, Err k) | (s1, Unsup) => (s1, Unsup) | (s1, Fuel) => (s1, Fuel)
        end
    | EBin OOr a b =>
        match ev s c a with
        | (s1, Ok av) => match truthy av with
                         | Ok true => (s1, Ok av)
                         | Ok false => ev s1 c b
                         | Err k => (s1, Err k) | Unsup => (s1, Unsup) | Fuel => (s1, Fuel)
                         end
        | (s1, Err k) => (s1, Err k) | (s1, Unsup) => (s1, Unsup) | (s1, Fuel) => (s1, Fuel)
        end
    | EBin o a b =>
        match ev s c a with
        | (s1, Ok av) => match ev s1 c b with
                         | (s2, Ok bv) => (s2, binop_val o av bv)
                         | (s2, Err k) => (s2, Err k) | (s2, Unsup) => (s2, Unsup) | (s2, Fuel) => (s2, Fuel)
                         end
        | (s1, Err k) => (s1, Err k) | (s1, Unsup) => (s1, Unsup) | (s1, Fuel) => (s1, Fuel)
        end
    | EUn o a =>
        match ev s c a with
        | (s1, Ok av) =>
            (s1, match o, av with
                 | UNeg, VInt z => Ok (VInt (- z))
                 | UNeg, _ => Unsup
                 | UNot, _ => match truthy av with Ok b => Ok (VBool (negb b)) | Err k => Err k | Unsup => Unsup | Fuel => Fuel end
                 end)
        | (s1, Err k) => (s1, Err k) | (s1, Unsup) => (s1, Unsup) | (s1, Fuel) => (s1, Fuel)
        end
    | EDotKw a k =>
        match ev s c a with
        | (s1, Ok av) => (s1, dot_kw av k)
        | (s1, Err x) => (s1, Err x) | (s1, Unsup) => (s1, Unsup) | (s1, Fuel) => (s1, Fuel)
        end
    | EMeth a name args =>
        match ev s c a with
        | (s1, Ok av) => meth ev s1 c av name args
        | (s1, Err x) => (s1, Err x) | (s1, Unsup) => (s1, Unsup) | (s1, Fuel) => (s1, Fuel)
        end
    | EElvis a name args =>
        match ev s c a with
        | (s1, Ok VNull) => (s1, Ok VNull)
        | (s1, Ok av) => meth ev s1 c av name args
        | (s1, Err x) => (s1, Err x) | (s1, Unsup) => (s1, Unsup) | (s1, Fuel) => (s1, Fuel)
        end
    | ELet pos kw =>
        match eval_seq ev s c pos with
        | (s1, Ok pv) =>
            match eval_kw ev s1 c kw with
            | (s2, Ok kv) => let '(s3, c1) := alloc s2 {| cparent := Some c; cdata := number_from 1 pv ++ kv; cfuncs := [] |} in
                             (s3, Ok (VCtx c1))
            | (s2, Err x) => (s2, Err x) | (s2, Unsup) => (s2, Unsup) | (s2, Fuel) => (s2, Fuel)
            end
        | (s1, Err x) => (s1, Err x) | (s1, Unsup) => (s1, Unsup) | (s1, Fuel) => (s1, Fuel)
        end
    | EWith es =>
        match eval_seq ev s c es with
        | (s1, Ok pv) => let '(s2, c1) := alloc s1 {| cparent := Some c; cdata := number_from 1 pv; cfuncs := [] |} in
                         (s2, Ok (VCtx c1))
        | (s1, Err x) => (s1, Err x) | (s1, Unsup) => (s1, Unsup) | (s1, Fuel) => (s1, Fuel)
        end
    | EDef name body =>
        (* the function is registered in the payload's own child context, which is also the
           context the lambda captures: recursion sees the definition *)
        let self := length (heap s) in
        let '(s1, c1) := alloc s {| cparent := Some c; cdata := []; cfuncs := [(name, (body, self))] |} in
        (s1, Ok (VCtx c1))
    | EUser name args kw =>
        match lookup_func (heap s) c name with
        | None => (s, Unsup)
        | Some (body, cap) =>
            match eval_seq ev s c args with
            | (s1, Ok pv) =>
                match eval_kw ev s1 c kw with
                | (s2, Ok kv) => invoke ev s2 body cap pv kv
                | (s2, Err x) => (s2, Err x) | (s2, Unsup) => (s2, Unsup) | (s2, Fuel) => (s2, Fuel)
                end
            | (s1, Err x) => (s1, Err x) | (s1, Unsup) => (s1, Unsup) | (s1, Fuel) => (s1, Fuel)
            end
        end
    | ETick id a =>
        match ev s c a with
        | (s1, Ok v) => (tick s1 id, Ok v)
        | (s1, Err x) => (s1, Err x) | (s1, Unsup) => (s1, Unsup) | (s1, Fuel) => (s1, Fuel)
        end
    | ESwitch cases => eval_switch ev s c cases
    | ECoalesce es => eval_coalesce ev s c es
    | EArrow a b =>
        match ev s c a with
        | (s1, Ok (VCtx k)) => ev s1 k b
        | (s1, Ok (VIter _ _)) => (s1, Unsup)
        | (s1, Ok _) => (s1, Err KRes)
        | (s1, Err x) => (s1, Err x) | (s1, Unsup) => (s1, Unsup) | (s1, Fuel) => (s1, Fuel)
        end
    | ESelectCase es => eval_select_case ev s c es 0%Z
    end
  end.

(* ---- finalisation: every lazy sequence in the result is pulled, depth first, in order ---- *)
Section WithFin.
  Variable ev : st -> nat -> expr -> st * res val.
  Variable fin : st -> val -> st * res val.

  Fixpoint fin_list (s : st) (l : list val) : st * res (list val) :=
    match l with
    | [] => (s, Ok [])
    | x :: r => match fin s x with
                | (s1, Ok y) => match fin_list s1 r with
                                | (s2, Ok ys) => (s2, Ok (y :: ys))
                                | (s2, Err k) => (s2, Err k) | (s2, Unsup) => (s2, Unsup) | (s2, Fuel) => (s2, Fuel)
                                end
                | (s1, Err k) => (s1, Err k) | (s1, Unsup) => (s1, Unsup) | (s1, Fuel) => (s1, Fuel)
                end
    end.

  Fixpoint fin_dict (s : st) (l : list (val * val)) : st * res (list (val * val)) :=
    match l with
    | [] => (s, Ok [])
    | (k, x) :: r => match fin s x with
                     | (s1, Ok y) => match fin_dict s1 r with
                                     | (s2, Ok ys) => (s2, Ok ((k, y) :: ys))
                                     | (s2, Err e) => (s2, Err e) | (s2, Unsup) => (s2, Unsup) | (s2, Fuel) => (s2, Fuel)
                                     end
                     | (s1, Err e) => (s1, Err e) | (s1, Unsup) => (s1, Unsup) | (s1, Fuel) => (s1, Fuel)
                     end
    end.

  (* pull one element through the stages, finalise it, then pull the next *)
  Fixpoint fin_iter (s : st) (l : list val) (ops : list lop) : st * res (list val) :=
    match l with
    | [] => (s, Ok [])
    | x :: r => match through ev s x ops with
                | (s1, Ok (Some y)) =>
                    match fin s1 y with
                    | (s2, Ok z) => match fin_iter s2 r ops with
                                    | (s3, Ok zs) => (s3, Ok (z :: zs))
                                    | (s3, Err e) => (s3, Err e) | (s3, Unsup) => (s3, Unsup) | (s3, Fuel) => (s3, Fuel)
                                    end
                    | (s2, Err e) => (s2, Err e) | (s2, Unsup) => (s2, Unsup) | (s2, Fuel) => (s2, Fuel)
                    end
                | (s1, Ok None) => fin_iter s1 r ops
                | (s1, Err e) => (s1, Err e) | (s1, Unsup) => (s1, Unsup) | (s1, Fuel) => (s1, Fuel)
                end
    end.
End WithFin.

Fixpoint finalize (fuel : nat) (s : st) (v : val) : st * res val :=
  match fuel with
  | O => (s, Fuel)
  | S f =>
    match v with
    | VNull | VBool _ | VInt _ | VStr _ => (s, Ok v)
    | VList l => match fin_list (finalize f) s l with
                 | (s1, Ok ys) => (s1, Ok (VList ys))
                 | (s1, Err k) => (s1, Err k) | (s1, Unsup) => (s1, Unsup) | (s1, Fuel) => (s1, Fuel)
                 end
    | VDict kvs => match fin_dict (finalize f) s kvs with
                   | (s1, Ok ys) => (s1, Ok (VDict ys))
                   | (s1, Err k) => (s1, Err k) | (s1, Unsup) => (s1, Unsup) | (s1, Fuel) => (s1, Fuel)
                   end
    | VCtx _ => (s, Unsup)
    | VIter src ops => match fin_iter (eval f) (finalize f) s src ops with
                       | (s1, Ok ys) => (s1, Ok (VList ys))
                       | (s1, Err k) => (s1, Err k) | (s1, Unsup) => (s1, Unsup) | (s1, Fuel) => (s1, Fuel)
                       end
    end
  end.

(* Statement.evaluate(data): root context with $ bound to the data, evaluate, finalise *)
Definition root (data : val) : st :=
  {| heap := [{| cparent := None; cdata := [([49%Z], data)]; cfuncs := [] |}]; log := [] |}.

Definition run (fuel : nat) (data : val) (e : expr) : list Z * res val :=
  match eval fuel (root data) 0 e with
  | (s1, Ok v) => match finalize fuel s1 v with (s2, r) => (log s2, r) end
  | (s1, r) => (log s1, r)
  end.

(* Statement.evaluate(data, context) on a HOST context chain: `$` is written into the context the
   host supplied (the only write to a pre-existing context), then evaluation and finalisation. *)
Fixpoint set_data (h : list ctxrec) (c : nat) (n : str) (v : val) : list ctxrec :=
  match h, c with
  | [], _ => []
  | r :: t, O => {| cparent := cparent r; cdata := cdata r ++ [(norm n, v)]; cfuncs := cfuncs r |} :: t
  | r :: t, S k => r :: set_data t k n v
  end.

Definition evaluate (fuel : nat) (host : list ctxrec) (c : nat) (data : option val) (e : expr) : st * res val :=
  let h := match data with Some d => set_data host c [] d | None => host end in
  match eval fuel {| heap := h; log := [] |} c e with
  | (s1, Ok v) => finalize fuel s1 v
  | (s1, r) => (s1, r)
  end.

(* YaqlInterface(context, engine)(expression, *args, **kwargs) on a HOST context chain: the parameters are bound in a
   fresh child of the host's context ($1..$n and $name), the expression is evaluated there and the result finalised;
   nothing is written to a context of the host (not even `$`). *)
Definition iface_call (fuel : nat) (host : list ctxrec) (c : nat) (pos : list val) (kw : list (str * val)) (e : expr)
  : st * res val :=
  let '(s1, c1) := alloc {| heap := host; log := [] |} {| cparent := Some c; cdata := number_from 1 pos ++ kw; cfuncs := [] |} in
  match eval fuel s1 c1 e with
  | (s2, Ok v) => finalize fuel s2 v
  | (s2, r) => (s2, r)
  end.

(* ---- correspondence ---- *)
Fixpoint val_same (a b : val) {struct a} : bool :=
  match a, b with
  | VNull, VNull => true
  | VBool x, VBool y => Bool.eqb x y
  | VInt x, VInt y => Z.eqb x y
  | VStr x, VStr y => str_eqb x y
  | VList x, VList y =>
      (fix go (x y : list val) : bool :=
         match x, y with [], [] => true | u :: x', w :: y' => val_same u w && go x' y' | _, _ => false end) x y
  | VDict x, VDict y =>
      (fix go (x y : list (val * val)) : bool :=
         match x, y with
         | [], [] => true
         | (k, u) :: x', (k', w) :: y' => val_same k k' && val_same u w && go x' y'
         | _, _ => false end) x y
  | _, _ => false
  end.

Definition ekind_eqb (a b : ekind) : bool :=
  match a, b with
  | KRes, KRes | KKey, KKey | KIndex, KIndex | KStop, KStop | KType, KType | KZero, KZero | KValue, KValue => true
  | _, _ => false
  end.

Record ev_case := { ec_data : val; ec_expr : expr; ec_log : list Z; ec_res : res val }.

(* 0 = agree, 1 = disagree, 2 = model says unsupported / out of fuel (skipped, counted) *)
Definition ev_case_code (k : ev_case) : nat :=
  match run 400 (ec_data k) (ec_expr k) with
  | (_, Unsup) | (_, Fuel) => 2
  | (lg, Ok v) => match ec_res k with
                  | Ok w => if list_eqb Z.eqb lg (ec_log k) && val_same v w then 0 else 1
                  | _ => 1 end
  | (lg, Err x) => match ec_res k with
                   | Err y => if list_eqb Z.eqb lg (ec_log k) && ekind_eqb x y then 0 else 1
                   | _ => 1 end
  end.
Definition ev_case_ok (k : ev_case) : bool := negb (Nat.eqb (ev_case_code k) 1).
Definition ev_case_skipped (k : ev_case) : bool := Nat.eqb (ev_case_code k) 2.
