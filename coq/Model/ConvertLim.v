(* C10 / C08: convert_output_data WITH its limit_func argument.

   utils.convert_output_data(obj, limit_func, engine) wraps every iteration over a
   collection in limit_func (the '#iter' delegate = utils.limit_iterable with the
   engine's yaql.limitIterators).  Here the limiter is abstract:

     lim sized len = (k, ok)

   "of a collection with len elements the first k are let through, and then
   (ok = false) CollectionTooLargeException is raised".  By construction a limiter
   yields a PREFIX of its input, possibly followed by an error.  [sized]: the
   collection is a Sequence / Mapping / Set, for which limit_iterable looks at
   len() before anything is iterated (k = 0 when it refuses); anything else is
   wrapped in a counting generator (the first k elements are converted before the
   error surfaces, so an earlier TypeError wins).

   [id_lim] (no limit) gives back Model/Convert.v's convert_output;
   [count_lim (Some N)] is limit_iterable with yaql.limitIterators = N.

   No proofs in this file. *)
From Coq Require Import List ZArith Bool Arith.
From YV Require Import Common.Corr Model.Convert.
Import ListNotations.

Inductive lerr := LPyType | LTooLarge.
Inductive lres (A : Type) := LOk (a : A) | LErr (e : lerr).
Arguments LOk {A} a.
Arguments LErr {A} e.

Definition embed {A} (r : res A) : lres A :=
  match r with Ok a => LOk a | Err _ => LErr LPyType end.

Definition limiter := bool -> nat -> nat * bool.
Definition id_lim : limiter := fun _ n => (n, true).
Definition count_lim (N : option nat) : limiter := fun sized n =>
  match N with
  | None => (n, true)
  | Some m => if n <=? m then (n, true) else ((if sized then 0 else m), false)
  end.

(* convert the first k elements, left to right *)
Section MapK.
  Variables (A B : Type) (f : A -> lres B).
  Fixpoint mapK (k : nat) (l : list A) {struct l} : lres (list B) :=
    match l with
    | [] => LOk []
    | x :: r => match k with
                | O => LOk []
                | S k' => match f x with
                          | LErr e => LErr e
                          | LOk y => match mapK k' r with LErr e => LErr e | LOk ys => LOk (y :: ys) end
                          end
                end
    end.
End MapK.
Arguments mapK {A B} f k l.

(* `rec(t) for t in limit_func(collection)` *)
Definition limited {A B} (lim : limiter) (sized : bool) (f : A -> lres B) (l : list A) : lres (list B) :=
  match mapK f (fst (lim sized (length l))) l with
  | LErr e => LErr e
  | LOk ys => if snd (lim sized (length l)) then LOk ys else LErr LTooLarge
  end.

Section WithLimiter.
  Variable lim : limiter.

  (* Two error classes now exist, so the ORDER of the code matters and is followed:
     `result[rec(key)] = rec(value)` converts the value, then the key, then hashes the
     key, item by item; `set(rec(t) for t in ...)` hashes every element as it arrives. *)
  Fixpoint co_lim (o : opts) (v : val) : lres val :=
    let pair := fun kv : val * val =>
      match co_lim o (snd kv) with
      | LErr e => LErr e
      | LOk cv => match co_lim o (fst kv) with
                  | LErr e => LErr e
                  | LOk ck => if hashable ck then LOk (ck, cv) else LErr LPyType
                  end
      end in
    let item := fun kv : val * val =>          (* the (key, value) tuple of an ItemsView: a sized 2-sequence *)
      match limited lim true (co_lim o) [fst kv; snd kv] with
      | LErr e => LErr e
      | LOk xs => LOk (seq_out o true xs)
      end in
    let elem := fun x : val =>
      match co_lim o x with
      | LErr e => LErr e
      | LOk y => if hashable y then LOk y else LErr LPyType
      end in
    (* limit_func(obj.items()): an ItemsView is a Set, hence sized *)
    let mapping := fun kvs : list (val * val) =>
      match limited lim true pair kvs with LErr e => LErr e | LOk ps => LOk (VDict (dict_of ps)) end in
    let setlike := fun l : list val =>
      if s2l o
      then match limited lim true (co_lim o) l with LErr e => LErr e | LOk xs => LOk (VList xs) end
      else match limited lim true elem l with LErr e => LErr e | LOk xs => LOk (VSet (set_of xs)) end in
    let listlike := fun (sized tuple_in : bool) (l : list val) =>
      match limited lim sized (co_lim o) l with LErr e => LErr e | LOk xs => LOk (seq_out o tuple_in xs) end in
    match v with
    | VNull | VBool _ | VInt _ | VFloat _ | VStr _ => LOk v
    | VFDict kvs => mapping kvs
    | VDict kvs => mapping kvs
    | VFSet l => setlike l
    | VSet l => setlike l
    | VTuple l => listlike true true l
    | VList l => listlike true false l
    | VIter l => listlike false false l
    | VOrd l => listlike false false l
    | VView KKeys kvs =>           (* KeysView: a Set, sized *)
        match limited lim true (fun kv => co_lim o (fst kv)) kvs with LErr e => LErr e | LOk xs => LOk (VList xs) end
    | VView KValues kvs =>         (* ValuesView: neither Sequence, Mapping nor Set *)
        match limited lim false (fun kv => co_lim o (snd kv)) kvs with LErr e => LErr e | LOk xs => LOk (VList xs) end
    | VView KItems kvs =>
        match limited lim true item kvs with LErr e => LErr e | LOk xs => LOk (VList xs) end
    end.
End WithLimiter.

(* the widest collection anywhere in a value (an ItemsView yields 2-tuples) *)
Definition item_width (k : vkind) : nat := match k with KItems => 2 | _ => 0 end.
Fixpoint width (v : val) : nat :=
  match v with
  | VNull | VBool _ | VInt _ | VFloat _ | VStr _ => 0
  | VTuple l | VList l | VFSet l | VSet l | VIter l | VOrd l => fold_right (fun x m => Nat.max (width x) m) (length l) l
  | VFDict kvs | VDict kvs =>
      fold_right (fun kv m => Nat.max (Nat.max (width (fst kv)) (width (snd kv))) m) (length kvs) kvs
  | VView k kvs =>
      fold_right (fun kv m => Nat.max (Nat.max (item_width k) (Nat.max (width (fst kv)) (width (snd kv)))) m) (length kvs) kvs
  end.

(* ---- correspondence ---------------------------------------------------------------- *)
Inductive lobs := LOVal (v : val) | LOPyType | LOTooLarge | LOOther.
Record lcase := { l_opts : opts; l_limit : option nat; l_in : val; l_obs : lobs }.
Definition lcase_ok (c : lcase) : bool :=
  match co_lim (count_lim (l_limit c)) (l_opts c) (l_in c), l_obs c with
  | LOk v, LOVal w => sim v w
  | LErr LPyType, LOPyType => true
  | LErr LTooLarge, LOTooLarge => true
  | _, _ => false
  end.
