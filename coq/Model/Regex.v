(* Model of yaql/standard_library/regex.py on top of the `re` engine as an oracle.

   The engine is not modelled: a match is a record (whole match, numbered groups, the
   pattern's name -> group number table) supplied from outside (by the harness: what
   CPython's re computed; in the theorems: universally quantified).  What yaql adds is
   modelled: _publish_match (which context variables a selector lambda can read, with
   which value/start/end), search, searchAll, replaceBy, replace with a literal, split.

   Context variable names: `$<decimal n>` is [KNum n], `$<identifier>` is [KName id];
   a group name is an identifier and never starts with a digit, so the two kinds never
   collide (this is the only fact about names the model relies on).

   No proofs in this file. *)
From Coq Require Import List ZArith Bool Arith.
From YV Require Import Common.Corr Model.Strings.
Import ListNotations.
Open Scope Z_scope.

(* value (None: the group did not take part in the match), start, end *)
Definition grec := (option str * Z * Z)%type.
Definition none_rec : grec := (None, -1, -1).

Record mrec := { m_whole : grec; m_groups : list grec; m_named : list (str * nat) }.

Inductive vkey := KNum (n : nat) | KName (s : str).
Definition vkey_eqb (a b : vkey) : bool :=
  match a, b with
  | KNum x, KNum y => Nat.eqb x y
  | KName x, KName y => str_eqb x y
  | _, _ => false
  end.

(* match.group(i) / start(i) / end(i) *)
Definition group (m : mrec) (i : nat) : grec :=
  match i with O => m_whole m | S j => nth j (m_groups m) none_rec end.

Fixpoint number_from (i : nat) (gs : list grec) : list (vkey * grec) :=
  match gs with [] => [] | g :: r => (KNum i, g) :: number_from (S i) r end.

(* _publish_match (regex.py:212-233): the assignments made to the context, in order *)
Definition publish (m : mrec) : list (vkey * grec) :=
  (KNum 1, m_whole m) :: number_from 2 (m_groups m)
  ++ map (fun ni => (KName (fst ni), group m (snd ni))) (m_named m).

(* reading a variable of a fresh child context after the assignments: the last one wins,
   an unassigned name is null *)
Fixpoint ctx_get (k : vkey) (l : list (vkey * grec)) : option grec :=
  match l with
  | [] => None
  | (k', v) :: r => match ctx_get k r with
                    | Some x => Some x
                    | None => if vkey_eqb k k' then Some v else None
                    end
  end.

(* a selector `[$k1, $k2, ...]` *)
Definition select (keys : list vkey) (m : mrec) : list (option grec) :=
  map (fun k => ctx_get k (publish m)) keys.

(* a replaceBy lambda `concat(str($k?.value), "lit", ...)` *)
(* IJoin k n: `[0 .. n-1].select(str($k?.value)).join("")` - a lazy sequence inside the lambda *)
Inductive ritem := ILit (s : str) | IVal (k : vkey) | IJoin (k : vkey) (n : nat).
Definition null_str : str := [110; 117; 108; 108].
Definition item_eval (m : mrec) (it : ritem) : str :=
  match it with
  | ILit s => s
  | IVal k => match ctx_get k (publish m) with
              | Some (Some v, _, _) => v
              | _ => null_str
              end
  | IJoin k n => concat (repeat (match ctx_get k (publish m) with
                                 | Some (Some v, _, _) => v
                                 | _ => null_str
                                 end) n)
  end.
Definition items_eval (items : list ritem) (m : mrec) : str := concat (map (item_eval m) items).

(* re.sub: the text between the matches is kept, each match is replaced *)
Fixpoint splice (s : str) (pos : Z) (ms : list mrec) (f : mrec -> str) : str :=
  match ms with
  | [] => skipn (Z.to_nat pos) s
  | m :: r => let '(_, st, en) := m_whole m in
              firstn (Z.to_nat (st - pos)) (skipn (Z.to_nat pos) s) ++ f m ++ splice s en r f
  end.

(* count = 0: all matches; count > 0: the first count; count < 0: none (CPython) *)
Definition limit {A} (cnt : Z) (ms : list A) : list A :=
  if cnt =? 0 then ms else firstn (Z.to_nat cnt) ms.

Definition replace_by (s : str) (ms : list mrec) (items : list ritem) (cnt : Z) : str :=
  splice s 0 (limit cnt ms) (items_eval items).
Definition replace_lit (s : str) (ms : list mrec) (repl : str) (cnt : Z) : str :=
  splice s 0 (limit cnt ms) (fun _ => repl).

(* re.split: the pieces between the matches, each followed by the match's groups *)
Fixpoint split_pieces (s : str) (pos : Z) (ms : list mrec) : list (option str) :=
  match ms with
  | [] => [Some (skipn (Z.to_nat pos) s)]
  | m :: r => let '(_, st, en) := m_whole m in
              Some (firstn (Z.to_nat (st - pos)) (skipn (Z.to_nat pos) s))
              :: map (fun g => fst (fst g)) (m_groups m) ++ split_pieces s en r
  end.
Definition regex_split (s : str) (ms : list mrec) (cnt : Z) : list (option str) :=
  split_pieces s 0 (limit cnt ms).

Definition whole_value (m : mrec) : option str := fst (fst (m_whole m)).

(* ---- selectors that return LAZY sequences, and consumers of the searchAll result ------------
   A selector may return a sequence that reads the match records only when it is iterated
   (select / where over a constant list).  Whatever the consumer does with the outer sequence
   first (materialise, reverse, slice), every inner sequence shows the records of ITS match:
   the records are per match (a fresh child context per selector call). *)
Inductive rv := VStr (s : option str) | VInt (z : Z).

Inductive lsel :=
| LValue (k : vkey) (n : nat)    (* [0 .. n-1].select($k?.value) *)
| LSpan (k : vkey)               (* [0, 1].select(switch($ = 0 => $k.start, true => $k.end)); k is published *)
| LWhere (k : vkey) (thr : Z).   (* [x].where($k.end > thr); k is published *)

Definition var_rec (m : mrec) (k : vkey) : grec :=
  match ctx_get k (publish m) with Some g => g | None => none_rec end.

Definition lsel_eval (sel : lsel) (m : mrec) : list rv :=
  match sel with
  | LValue k n => repeat (VStr (fst (fst (var_rec m k)))) n
  | LSpan k => [VInt (snd (fst (var_rec m k))); VInt (snd (var_rec m k))]
  | LWhere k thr => if snd (var_rec m k) >? thr then [VStr (Some [120])] else []
  end.

Inductive consumer := CPlain | CToList | CReverse | CTake1 | CSkip1.
Definition consume {A} (c : consumer) (l : list A) : list A :=
  match c with
  | CPlain | CToList => l
  | CReverse => rev l
  | CTake1 => firstn 1 l
  | CSkip1 => skipn 1 l
  end.

Definition search_all_lazy (ms : list mrec) (sel : lsel) (c : consumer) : list (list rv) :=
  consume c (map (lsel_eval sel) ms).

(* ---- correspondence ---------------------------------------------------------------- *)
Inductive rcall :=
| RMatches (m : option mrec)
| RSearch (m : option mrec) (sel : option (list vkey))
| RSearchAll (ms : list mrec) (sel : option (list vkey))
| RReplaceBy (s : str) (ms : list mrec) (items : list ritem) (cnt : Z)
| RReplaceLit (s : str) (ms : list mrec) (repl : str) (cnt : Z)
| RSplit (s : str) (ms : list mrec) (cnt : Z)
| RSearchLazy (m : option mrec) (sel : lsel)
| RSearchAllLazy (ms : list mrec) (sel : lsel) (c : consumer).

Inductive rres :=
| XNull
| XBool (b : bool)
| XStr (s : str)
| XOStrs (l : list (option str))
| XRecs (l : list (option grec))
| XRecss (l : list (list (option grec)))
| XVals (l : list (list rv)).

Definition reval (c : rcall) : rres :=
  match c with
  | RMatches m => XBool (match m with Some _ => true | None => false end)
  | RSearch None _ => XNull
  | RSearch (Some m) None => match whole_value m with Some v => XStr v | None => XNull end
  | RSearch (Some m) (Some keys) => XRecs (select keys m)
  | RSearchAll ms None => XOStrs (map whole_value ms)
  | RSearchAll ms (Some keys) => XRecss (map (select keys) ms)
  | RReplaceBy s ms items cnt => XStr (replace_by s ms items cnt)
  | RReplaceLit s ms repl cnt => XStr (replace_lit s ms repl cnt)
  | RSplit s ms cnt => XOStrs (regex_split s ms cnt)
  | RSearchLazy None _ => XNull
  | RSearchLazy (Some m) sel => XVals [lsel_eval sel m]
  | RSearchAllLazy ms sel c => XVals (search_all_lazy ms sel c)
  end.

Definition grec_eqb (a b : grec) : bool :=
  option_eqb str_eqb (fst (fst a)) (fst (fst b)) && Z.eqb (snd (fst a)) (snd (fst b)) && Z.eqb (snd a) (snd b).

Definition rv_eqb (a b : rv) : bool :=
  match a, b with
  | VStr x, VStr y => option_eqb str_eqb x y
  | VInt x, VInt y => Z.eqb x y
  | _, _ => false
  end.

Definition rres_eqb (a b : rres) : bool :=
  match a, b with
  | XNull, XNull => true
  | XBool x, XBool y => Bool.eqb x y
  | XStr x, XStr y => str_eqb x y
  | XOStrs x, XOStrs y => list_eqb (option_eqb str_eqb) x y
  | XRecs x, XRecs y => list_eqb (option_eqb grec_eqb) x y
  | XRecss x, XRecss y => list_eqb (list_eqb (option_eqb grec_eqb)) x y
  | XVals x, XVals y => list_eqb (list_eqb rv_eqb) x y
  | _, _ => false
  end.

Definition rcase := (rcall * rres)%type.
Definition rcase_ok (c : rcase) : bool := rres_eqb (reval (fst c)) (snd c).
