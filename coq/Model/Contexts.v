(* Model of yaql/language/contexts.py (Context, MultiContext, LinkedContext).

   Context objects of the three classes are values: a Multi/Linked object has no
   mutable state of its own (its member list, linked context and parent are
   fixed at construction), so it is a term.  All mutable state sits in plain
   [Context] objects; each has an identity [pid] and its state lives in a store.
   Two terms mentioning the same pid alias the same Python object.

   No proofs in this file. *)
From Coq Require Import List ZArith Bool Arith Uint63.
From YV Require Import Common.Corr.
Import ListNotations.

Definition pid := nat.
Definition fdef := (str * Z)%type.        (* FunctionDefinition: its .name and its identity *)

Inductive ctx :=
| CPlain (p : pid) (parent : option ctx)
| CMulti (ms : list ctx) (parent : option ctx)
| CLinked (l : ctx) (parent : option ctx).

Record pstate := { pdata : list (str * Z); pfuncs : list fdef; pexcl : list str }.
Definition empty_pstate := {| pdata := []; pfuncs := []; pexcl := [] |}.
Definition store := list pstate.

Definition parent_of (c : ctx) : option ctx :=
  match c with CPlain _ p => p | CMulti _ p => p | CLinked _ p => p end.

(* ---- names ------------------------------------------------------------ *)
Definition dollar : Z := 36.
Definition normalize (n : str) : str :=
  let n' := match n with c :: _ => if Z.eqb c dollar then n else dollar :: n | [] => [dollar] end in
  if str_eqb n' [dollar] then [dollar; 49%Z] else n'.

Fixpoint rstrip_us_aux (n : str) : str * bool :=   (* (stripped, everything so far is '_') *)
  match n with
  | [] => ([], true)
  | c :: r => let '(r', allus) := rstrip_us_aux r in
              if allus && Z.eqb c 95%Z then ([], true) else (c :: r', false)
  end.
Definition rstrip_us (n : str) : str := fst (rstrip_us_aux n).

(* ---- association lists -------------------------------------------------- *)
Fixpoint alookup (k : str) (l : list (str * Z)) : option Z :=
  match l with [] => None | (k', v) :: r => if str_eqb k k' then Some v else alookup k r end.
Fixpoint aset (k : str) (v : Z) (l : list (str * Z)) : list (str * Z) :=
  match l with
  | [] => [(k, v)]
  | (k', v') :: r => if str_eqb k k' then (k, v) :: r else (k', v') :: aset k v r
  end.
Fixpoint aremove (k : str) (l : list (str * Z)) : list (str * Z) :=
  match l with [] => [] | (k', v') :: r => if str_eqb k k' then aremove k r else (k', v') :: aremove k r end.

Definition fdef_eqb (a b : fdef) : bool := str_eqb (fst a) (fst b) && Z.eqb (snd a) (snd b).
Fixpoint fmem (f : fdef) (l : list fdef) : bool :=
  match l with [] => false | g :: r => fdef_eqb f g || fmem f r end.
Fixpoint smem (s : str) (l : list str) : bool :=
  match l with [] => false | g :: r => str_eqb s g || smem s r end.

(* ---- store access ------------------------------------------------------- *)
Definition sget (s : store) (p : pid) : pstate := nth p s empty_pstate.
Fixpoint supd (s : store) (p : pid) (f : pstate -> pstate) : store :=
  match s, p with
  | [], _ => []
  | x :: r, O => f x :: r
  | x :: r, S p' => x :: supd r p' f
  end.

(* ---- reads: own layer (ask_parent = False) ------------------------------- *)
Fixpoint first_some {A B} (f : A -> option B) (l : list A) : option B :=
  match l with [] => None | x :: r => match f x with Some v => Some v | None => first_some f r end end.

Fixpoint get_own (s : store) (c : ctx) (n : str) : option Z :=
  match c with
  | CPlain p _ => alookup (normalize n) (pdata (sget s p))
  | CMulti ms _ =>
      (fix go (l : list ctx) : option Z :=
         match l with [] => None
         | m :: r => match get_own s m n with Some v => Some v | None => go r end end) ms
  | CLinked l _ => get_own s l n
  end.

(* get_data(name) with ask_parent = True.  Context/MultiContext walk the parent
   chain iteratively asking each ancestor for its own layer; LinkedContext
   recurses into parent.get_data: the same function. *)
Fixpoint get_data (s : store) (c : ctx) (n : str) : option Z :=
  match get_own s c n with
  | Some v => Some v
  | None =>
      match c with
      | CPlain _ (Some p) => get_data s p n
      | CMulti _ (Some p) => get_data s p n
      | CLinked _ (Some p) => get_data s p n
      | _ => None
      end
  end.

Fixpoint contains (s : store) (c : ctx) (n : str) : bool :=
  match c with
  | CPlain p _ => match alookup (normalize n) (pdata (sget s p)) with Some _ => true | None => false end
  | CMulti ms _ =>
      (fix go (l : list ctx) : bool := match l with [] => false | m :: r => contains s m n || go r end) ms
  | CLinked l _ => contains s l n
  end.

Fixpoint add_new (ks acc : list str) : list str :=
  match ks with [] => acc | k :: r => if smem k acc then add_new r acc else add_new r (acc ++ [k]) end.

Fixpoint keys (s : store) (c : ctx) : list str :=
  match c with
  | CPlain p _ => map fst (pdata (sget s p))
  | CMulti ms _ =>
      (fix go (l : list ctx) (acc : list str) : list str :=
         match l with [] => acc | m :: r => go r (add_new (keys s m) acc) end) ms []
  | CLinked l _ => keys s l
  end.

(* get_functions(name): (overloads of this layer, is_exclusive) *)
Definition plain_functions (st : pstate) (n : str) : list fdef * bool :=
  let n' := rstrip_us n in
  (filter (fun f => str_eqb (fst f) n') (pfuncs st), smem n' (pexcl st)).

Fixpoint funion (a acc : list fdef) : list fdef :=
  match a with [] => acc | f :: r => if fmem f acc then funion r acc else funion r (acc ++ [f]) end.

Fixpoint get_functions (s : store) (c : ctx) (n : str) : list fdef * bool :=
  match c with
  | CPlain p _ => plain_functions (sget s p) n
  | CMulti ms _ =>
      (fix go (l : list ctx) (acc : list fdef) (ex : bool) : list fdef * bool :=
         match l with [] => (acc, ex)
         | m :: r => let '(fs, e) := get_functions s m n in go r (funion fs acc) (ex || e) end) ms [] false
  | CLinked l _ => get_functions s l n
  end.

Fixpoint collect_functions (s : store) (c : ctx) (n : str) : list (list fdef) :=
  let '(fs, ex) := get_functions s c n in
  let rest :=
    if ex then [] else
      match c with
      | CPlain _ (Some p) => collect_functions s p n
      | CMulti _ (Some p) => collect_functions s p n
      | CLinked _ (Some p) => collect_functions s p n
      | _ => []
      end in
  match fs with [] => rest | _ => fs :: rest end.

(* collect_functions(name, predicate): the predicate filters the overloads of each layer; whether the walk stops
   at a layer depends only on the layer's exclusivity, not on what the predicate leaves of it *)
Fixpoint collect_pred (pred : fdef -> bool) (s : store) (c : ctx) (n : str) : list (list fdef) :=
  let '(fs, ex) := get_functions s c n in
  let rest :=
    if ex then [] else
      match c with
      | CPlain _ (Some p) => collect_pred pred s p n
      | CMulti _ (Some p) => collect_pred pred s p n
      | CLinked _ (Some p) => collect_pred pred s p n
      | _ => []
      end in
  match filter pred fs with [] => rest | fs' => fs' :: rest end.

(* ---- writes --------------------------------------------------------------- *)
Inductive outcome := Done | KeyErr | Crash.

(* the plain context that receives writes made through [c] *)
Fixpoint target (c : ctx) : option pid :=
  match c with
  | CPlain p _ => Some p
  | CMulti ms _ => match ms with m :: _ => target m | [] => None end
  | CLinked l _ => target l
  end.

Definition set_data (s : store) (c : ctx) (n : str) (v : Z) : store * outcome :=
  match target c with
  | Some p => (supd s p (fun st => {| pdata := aset (normalize n) v (pdata st);
                                      pfuncs := pfuncs st; pexcl := pexcl st |}), Done)
  | None => (s, Crash)
  end.

(* del ctx[name].  Context: KeyError when absent.  MultiContext: removed from
   every member that has it, KeyError when none has.  LinkedContext: proxy. *)
Fixpoint del_data (s : store) (c : ctx) (n : str) : store * outcome :=
  match c with
  | CPlain p _ =>
      match alookup (normalize n) (pdata (sget s p)) with
      | Some _ => (supd s p (fun st => {| pdata := aremove (normalize n) (pdata st);
                                          pfuncs := pfuncs st; pexcl := pexcl st |}), Done)
      | None => (s, KeyErr)
      end
  | CMulti ms _ =>
      (fix go (l : list ctx) (s : store) (found : bool) : store * outcome :=
         match l with
         | [] => (s, if found then Done else KeyErr)
         | m :: r => if contains s m n
                     then let '(s', _) := del_data s m n in go r s' true
                     else go r s found
         end) ms s false
  | CLinked l _ => del_data s l n
  end.

Definition register (s : store) (c : ctx) (f : fdef) (exclusive : bool) : store * outcome :=
  match target c with
  | Some p => (supd s p (fun st => {| pdata := pdata st;
                                      pfuncs := if fmem f (pfuncs st) then pfuncs st else pfuncs st ++ [f];
                                      pexcl := if exclusive && negb (smem (fst f) (pexcl st))
                                               then pexcl st ++ [fst f] else pexcl st |}), Done)
  | None => (s, Crash)
  end.

Definition plain_delete_function (st : pstate) (f : fdef) : pstate :=
  {| pdata := pdata st;
     pfuncs := filter (fun g => negb (fdef_eqb f g)) (pfuncs st);
     pexcl := filter (fun x => negb (str_eqb x (fst f))) (pexcl st) |}.

Fixpoint delete_function (s : store) (c : ctx) (f : fdef) : store :=
  match c with
  | CPlain p _ => supd s p (fun st => plain_delete_function st f)
  | CMulti ms _ =>
      (fix go (l : list ctx) (s : store) : store :=
         match l with [] => s | m :: r => go r (delete_function s m f) end) ms s
  | CLinked l _ => delete_function s l f
  end.

(* ---- construction ----------------------------------------------------------- *)
Fixpoint filter_parents (ms : list ctx) : list ctx :=
  match ms with [] => [] | m :: r => match parent_of m with Some p => p :: filter_parents r | None => filter_parents r end end.

(* MultiContext(context_list): the parent is none / the single parent / a new
   MultiContext of the members' parents. *)
Fixpoint mk_multi (fuel : nat) (ms : list ctx) : ctx :=
  match fuel with
  | O => CMulti ms None
  | S f =>
      match filter_parents ms with
      | [] => CMulti ms None
      | [p] => CMulti ms (Some p)
      | ps => CMulti ms (Some (mk_multi f ps))
      end
  end.

Fixpoint depth (c : ctx) : nat :=
  match c with
  | CPlain _ None | CMulti _ None | CLinked _ None => 1
  | CPlain _ (Some p) | CMulti _ (Some p) | CLinked _ (Some p) => S (depth p)
  end.
Definition max_depth (ms : list ctx) : nat := fold_right (fun m a => Nat.max (depth m) a) 0 ms.
Definition new_multi (ms : list ctx) : ctx := mk_multi (max_depth ms) ms.

(* LinkedContext(parent_context, linked_context) *)
Fixpoint new_linked (parent : option ctx) (l : ctx) : ctx :=
  match l with
  | CPlain _ (Some lp) | CMulti _ (Some lp) | CLinked _ (Some lp) => CLinked l (Some (new_linked parent lp))
  | _ => CLinked l parent
  end.

Definition new_plain (s : store) (parent : option ctx) : store * ctx :=
  (s ++ [empty_pstate], CPlain (length s) parent).

(* create_child_context(): a fresh plain Context whose parent is the receiver,
   for all three classes *)
Definition create_child (s : store) (c : ctx) : store * ctx := new_plain s (Some c).

(* ---- op language for the correspondence check ------------------------------- *)
Inductive op :=
| ONewPlain (parent : option nat)
| ONewMulti (members : list nat)
| ONewLinked (parent : option nat) (linked : nat)
| OChild (c : nat)
| OSet (c : nat) (n : str) (v : Z)
| ODel (c : nat) (n : str)
| OReg (c : nat) (f : fdef) (exclusive : bool)
| ODelFn (c : nat) (f : fdef).

Record state := { env : list ctx; st : store }.
Definition init_state := {| env := []; st := [] |}.

Definition eopt (e : list ctx) (i : option nat) : option (option ctx) :=
  match i with
  | Some k => match nth_error e k with Some c => Some (Some c) | None => None end
  | None => Some None
  end.
Fixpoint eall (e : list ctx) (l : list nat) : option (list ctx) :=
  match l with
  | [] => Some []
  | i :: r => match nth_error e i, eall e r with Some c, Some cs => Some (c :: cs) | _, _ => None end
  end.

(* an op that names a context that does not exist, or MultiContext([]) (IndexError
   in the constructor), changes nothing and reports Crash *)
Definition step (x : state) (o : op) : state * outcome :=
  let e := env x in let s := st x in
  let with_ctx (i : nat) (k : ctx -> state * outcome) : state * outcome :=
    match nth_error e i with Some c => k c | None => (x, Crash) end in
  match o with
  | ONewPlain p =>
      match eopt e p with
      | Some par => let '(s', c) := new_plain s par in ({| env := e ++ [c]; st := s' |}, Done)
      | None => (x, Crash)
      end
  | ONewMulti ms =>
      match eall e ms with
      | Some (m :: r) => ({| env := e ++ [new_multi (m :: r)]; st := s |}, Done)
      | _ => (x, Crash)
      end
  | ONewLinked p l =>
      match eopt e p, nth_error e l with
      | Some par, Some lc => ({| env := e ++ [new_linked par lc]; st := s |}, Done)
      | _, _ => (x, Crash)
      end
  | OChild c => with_ctx c (fun cc => let '(s', c') := create_child s cc in ({| env := e ++ [c']; st := s' |}, Done))
  | OSet c n v => with_ctx c (fun cc => let '(s', r) := set_data s cc n v in ({| env := e; st := s' |}, r))
  | ODel c n => with_ctx c (fun cc => let '(s', r) := del_data s cc n in ({| env := e; st := s' |}, r))
  | OReg c f ex => with_ctx c (fun cc => let '(s', r) := register s cc f ex in ({| env := e; st := s' |}, r))
  | ODelFn c f => with_ctx c (fun cc => ({| env := e; st := delete_function s cc f |}, Done))
  end.

(* ---- canonical observation, serialised to integers and hashed ---------------- *)
Fixpoint insert_z (x : Z) (l : list Z) : list Z :=
  match l with [] => [x] | y :: r => if Z.leb x y then x :: l else y :: insert_z x r end.
Definition sort_z (l : list Z) : list Z := fold_right insert_z [] l.

Fixpoint str_leb (a b : str) : bool :=
  match a, b with
  | [], _ => true
  | _ :: _, [] => false
  | x :: a', y :: b' => if Z.ltb x y then true else if Z.ltb y x then false else str_leb a' b'
  end.
Fixpoint insert_s (x : str) (l : list str) : list str :=
  match l with [] => [x] | y :: r => if str_leb x y then x :: l else y :: insert_s x r end.
Definition sort_s (l : list str) : list str := fold_right insert_s [] l.

Definition ser_str (s : str) : list Z := Z.of_nat (length s) :: s.
Definition ser_fids (l : list fdef) : list Z := let ids := sort_z (map snd l) in Z.of_nat (length ids) :: ids.

Definition observe_ctx (s : store) (names fnames : list str) (c : ctx) : list Z :=
  [1000%Z]
  ++ flat_map (fun n => [match get_data s c n with Some v => v | None => 0%Z end;
                         if contains s c n then 1%Z else 0%Z]) names
  ++ [2000%Z] ++ flat_map ser_str (sort_s (keys s c))
  ++ flat_map (fun n => let '(fs, ex) := get_functions s c n in
                        [3000%Z] ++ ser_fids fs ++ [if ex then 1%Z else 0%Z]
                        ++ [4000%Z] ++ (let ls := collect_functions s c n in
                                        Z.of_nat (length ls) :: flat_map ser_fids ls)
                        ++ [5000%Z] ++ (let ls := collect_pred (fun f => Z.even (snd f)) s c n in
                                        Z.of_nat (length ls) :: flat_map ser_fids ls)
                        ++ [6000%Z] ++ (let ls := collect_pred (fun f => Z.odd (snd f)) s c n in
                                        Z.of_nat (length ls) :: flat_map ser_fids ls)) fnames.

Definition observe (x : state) (names fnames : list str) : list Z :=
  flat_map (observe_ctx (st x) names fnames) (env x).

(* polynomial hash in the kernel's primitive 63-bit integers (wraps mod 2^63);
   used only to compare observations with the implementation, never in a theorem *)
Definition hash_list (l : list Z) : Z :=
  Uint63.to_Z (fold_left (fun acc v => Uint63.add (Uint63.mul acc 1000003%uint63) (Uint63.add (Uint63.of_Z v) 7%uint63)) l 17%uint63).

Definition outcome_code (o : outcome) : Z := match o with Done => 0 | KeyErr => 1 | Crash => 2 end.

(* run an op list; per step the pair (outcome code, hash of the observation of
   every context in the environment) *)
Fixpoint run (x : state) (names fnames : list str) (ops : list op) : list (Z * Z) :=
  match ops with
  | [] => []
  | o :: r => let '(x', out) := step x o in
              (outcome_code out, hash_list (observe x' names fnames)) :: run x' names fnames r
  end.

(* an API call that performs two model operations before anything can be observed, e.g. Context(parent, data=v) =
   new plain context followed by the assignment of `$` in it *)
Inductive cop := One (o : op) | Two (o1 o2 : op).
Fixpoint runc (x : state) (names fnames : list str) (ops : list cop) : list (Z * Z) :=
  match ops with
  | [] => []
  | One o :: r => let '(x', out) := step x o in
                  (outcome_code out, hash_list (observe x' names fnames)) :: runc x' names fnames r
  | Two o1 o2 :: r => let '(x1, out1) := step x o1 in
                      let '(x2, out2) := step x1 o2 in
                      (Z.max (outcome_code out1) (outcome_code out2), hash_list (observe x2 names fnames))
                      :: runc x2 names fnames r
  end.

Definition obs_eqb (a b : list (Z * Z)) : bool := list_eqb (pair_eqb Z.eqb Z.eqb) a b.

Record case := { c_names : list str; c_fnames : list str; c_ops : list op; c_obs : list (Z * Z) }.
Definition case_ok (c : case) : bool := obs_eqb (run init_state (c_names c) (c_fnames c) (c_ops c)) (c_obs c).
Record ccase := { cc_names : list str; cc_fnames : list str; cc_ops : list cop; cc_obs : list (Z * Z) }.
Definition ccase_ok (c : ccase) : bool := obs_eqb (runc init_state (cc_names c) (cc_fnames c) (cc_ops c)) (cc_obs c).
