(* C01 - the engine's lexer cursor and concurrent parse calls, at token-fetch granularity.

   ply's Lexer object carries three cursor fields (lexdata, lexpos, lexlen).  [Lexer.input]
   overwrites all three, [Lexer.token] reads all three and writes lexpos.  A parse call is
   "obtain a lexer cell; input; fetch tokens until the parser stops".  Which cell a call
   works on is the parameter [priv]: [true] = a private copy per call (YaqlEngine.__call__
   passes [self.lexer.clone()]), [false] = the engine-wide lexer object (cell 0).

   The tokenizer (ply's master regex + token actions) and the LR parser are PARAMETERS of the
   model: any function of the three cursor fields, any deterministic consumer of fetch results.
   The theorems therefore hold for every lexer/grammar, in particular for every operator table.

   No proofs in this file. *)
From Coq Require Import List ZArith Bool Arith.
From YV Require Import Common.Corr.
Import ListNotations.

Section LexerState.
  Variables (token pst result : Type).

  Inductive fetch :=
  | FTok (t : token) (p' : nat)      (* a token; the cursor moves to p' *)
  | FEof                             (* end of input: ply sets lexpos := lexpos + 1 and returns None *)
  | FErr.                            (* t_error raised (or a token action raised): the cursor stays *)

  Record cursor := { c_data : list Z; c_pos : nat; c_len : nat }.

  (* one evaluation of ply's token() body as a pure function of the three fields *)
  Variable lexfun : list Z -> nat -> nat -> fetch.
  (* the LR automaton as a consumer of fetch results *)
  Variable pinit : list Z -> pst.   (* real parser: constant; kept general *)
  Variable pstep : pst -> fetch -> pst + result.

  Definition input (s : list Z) (c : cursor) : cursor :=
    {| c_data := s; c_pos := 0; c_len := length s |}.

  Definition token_step (c : cursor) : cursor * fetch :=
    let f := lexfun (c_data c) (c_pos c) (c_len c) in
    match f with
    | FTok _ p' => ({| c_data := c_data c; c_pos := p'; c_len := c_len c |}, f)
    | FEof => ({| c_data := c_data c; c_pos := S (c_pos c); c_len := c_len c |}, f)
    | FErr => (c, f)
    end.

  (* a parse call in progress *)
  Inductive tstate :=
  | NotStarted (text : list Z)
  | Running (text : list Z) (p : pst)
  | Done (r : result).

  Definition cells := nat -> cursor.
  Definition upd {A} (f : nat -> A) (i : nat) (v : A) : nat -> A :=
    fun j => if Nat.eqb j i then v else f j.

  Variable priv : bool.
  (* cell 0 is the engine's own lexer object; call i works on cell (S i) when private *)
  Definition cell_of (i : nat) : nat := if priv then S i else 0.

  (* One atomic step of call i: the code between two consecutive entries of Lexer.token. *)
  Definition step_thread (i : nat) (cs : cells) (t : tstate) : cells * tstate :=
    match t with
    | NotStarted text =>
        (* clone copies the engine lexer (cell 0); input then overwrites the three fields *)
        (upd cs (cell_of i) (input text (cs 0)), Running text (pinit text))
    | Running text p =>
        let '(c', f) := token_step (cs (cell_of i)) in
        (upd cs (cell_of i) c',
         match pstep p f with inl p' => Running text p' | inr r => Done r end)
    | Done r => (cs, Done r)
    end.

  Definition world := (cells * (nat -> tstate))%type.

  Definition step (w : world) (i : nat) : world :=
    let '(cs', t') := step_thread i (fst w) (snd w i) in
    (cs', upd (snd w) i t').

  Definition run_schedule (w : world) (sched : list nat) : world := fold_left step sched w.

  (* the same call running alone, on an engine nobody else uses, for n steps *)
  Definition fresh_cells : cells := fun _ => {| c_data := []; c_pos := 0; c_len := 0 |}.
  Fixpoint alone (n : nat) (cs : cells) (t : tstate) : cells * tstate :=
    match n with
    | O => (cs, t)
    | S k => let '(cs', t') := step_thread 0 cs t in alone k cs' t'
    end.
  Definition solo (text : list Z) (n : nat) : tstate := snd (alone n fresh_cells (NotStarted text)).

  (* thread-state part of a call that is started on cells in an arbitrary state *)
  Definition solo_from (cs : cells) (text : list Z) (n : nat) : tstate :=
    snd (alone n cs (NotStarted text)).
End LexerState.

Arguments FTok {token}. Arguments FEof {token}. Arguments FErr {token}.
Arguments NotStarted {pst result}. Arguments Running {pst result}. Arguments Done {pst result}.

(* ------------------------------------------------------------------------------------
   Executable instance for the correspondence: the tokenizer is a TABLE recorded by the
   harness from solo runs of each text on a fresh engine (text k is the code-point list [k]);
   the parser is "stop after the number of fetches the real parser made"; the result is the
   list of (position before, position after) of every fetch, which is what the harness
   observes at the entry/exit of ply.lex.Lexer.token under an explicit schedule. *)
Definition tok_table := list ((Z * nat) * (nat * bool)).   (* (text id, pos) -> (new pos, is-eof) *)

Fixpoint tbl_find (tb : tok_table) (k : Z) (p : nat) : option (nat * bool) :=
  match tb with
  | [] => None
  | ((k', p'), v) :: r => if Z.eqb k k' && Nat.eqb p p' then Some v else tbl_find r k p
  end.

Definition tbl_lexfun (tb : tok_table) (d : list Z) (p len : nat) : fetch unit :=
  match d with
  | [k] => match tbl_find tb k p with
           | Some (p', false) => FTok tt p'
           | Some (_, true) => FEof
           | None => FErr
           end
  | _ => FErr
  end.

(* parser state: (fetches still to make, trace so far, current position is not visible to it) *)
Definition tr_pst := (nat * list (bool * nat))%type.     (* remaining, reversed trace of (eof?, pos after) *)
Definition tr_step (s : tr_pst) (f : fetch unit) : tr_pst + list (bool * nat) :=
  let '(n, tr) := s in
  let tr' := match f with FTok _ p' => (false, p') :: tr | FEof => (true, 0) :: tr | FErr => (true, 1) :: tr end in
  match n with
  | O | S O => inr (rev tr')
  | S k => inl (k, tr')
  end.

Record c01_case := {
  k_table : tok_table;
  k_fetches : list (Z * nat);          (* per text id: number of fetches of its solo parse *)
  k_threads : list Z;                  (* text id parsed by call i *)
  k_sched : list nat;                  (* which call is released at each step *)
  k_priv : bool;                       (* Gen/EngineFacts.lexer_private on this tree *)
  k_obs : list (list (bool * nat))     (* per call: observed (eof?, lexpos after) of every fetch; [] if unfinished *)
}.

Fixpoint fetches_of (l : list (Z * nat)) (k : Z) : nat :=
  match l with [] => 1 | (k', n) :: r => if Z.eqb k k' then n else fetches_of r k end.

Definition c01_init (c : c01_case) : world tr_pst (list (bool * nat)) :=
  (fresh_cells,
   fun i => match nth_error (k_threads c) i with
            | Some k => NotStarted [k]
            | None => Done []
            end).

Definition c01_run (c : c01_case) : list (list (bool * nat)) :=
  let pin (text : list Z) : tr_pst :=
      match text with [k] => (fetches_of (k_fetches c) k, []) | _ => (1, []) end in
  let w := run_schedule unit tr_pst (list (bool * nat)) (tbl_lexfun (k_table c)) pin tr_step (k_priv c)
                        (c01_init c) (k_sched c) in
  map (fun i => match snd w i with Done r => r | _ => [] end) (seq 0 (length (k_threads c))).

Definition obs_eqb (a b : list (list (bool * nat))) : bool :=
  list_eqb (list_eqb (fun x y => Bool.eqb (fst x) (fst y) && Nat.eqb (snd x) (snd y))) a b.

Definition c01_case_ok (c : c01_case) : bool := obs_eqb (c01_run c) (k_obs c).
