(* Model of yaql/language/lexer.py as driven by ply.lex.Lexer.token (ply 3.11).

   Strings are lists of code points.  One hand-written matcher per token regex,
   each the deterministic reading of the regex under CPython's backtracking
   order (the derivations are next to the matchers); the rules are tried in
   the order of ply's master regex: DOLLAR, NUMBER, FUNC, KEYWORD_STRING,
   QUOTED_STRING, DOUBLE_QUOTED_STRING, QUOTED_VERBATIM_STRING, the string
   rules (operators ...) in the order given by the configuration, then ply's
   `literals`, then t_error.  Everything that is data in the implementation
   (character classes, operator strings and their order, operator table,
   keyword tables, ignored characters, literals, the interpreter's limit on
   numeral length, and whether the conversions in the token actions are
   guarded) is a field of [lexcfg]; [default_cfg] at the end fills it from the
   regenerated Gen files.  No proofs here. *)
From Coq Require Import List ZArith Bool Arith.
From YV Require Import Common.Corr Gen.CharClass Gen.LexFacts.
Import ListNotations.
Open Scope Z_scope.

Definition text := list Z.

(* token values: strings, Python ints, floats (kept as the source text handed to
   float(): the decimal->binary rounding is Python's), the three constants *)
Inductive tokval :=
| VText (s : text) | VInt (z : Z) | VFloat (src : text) | VTrue | VFalse | VNull | VOther.

Record token := mkTok { tk_kind : text; tk_pos : nat; tk_len : nat; tk_val : tokval }.

(* how the token stream ends: end of text; YaqlLexicalException at a position;
   an exception of any other class; the loop of [lex_loop] ran out of fuel *)
Inductive ending := EndOk | EndLexErr (p : nat) | EndForeign | EndFuel.

Record lexcfg := {
  is_w : Z -> bool;                       (* \w *)
  is_d : Z -> bool;                       (* \d *)
  digit_val : Z -> Z;                     (* value of a \d code point as int() reads it *)
  op_strs : list (text * text);           (* string rules in master order: (token type, literal) *)
  op_table : list (text * text);          (* Lexer._operators_table: symbol -> token type *)
  keywords : list (text * text);          (* Lexer.keywords: word -> token type *)
  kwvals : list (text * tokval);          (* Lexer.keyword_to_val: token type -> value *)
  tok_names : list text;                  (* ply's lextokens_all *)
  literals : text;
  ignore : text;
  max_digits : Z;                         (* sys.get_int_max_str_digits(); 0 = unlimited *)
  guard_escape : bool;                    (* ill-formed escape -> YaqlLexicalException (else the codec error escapes) *)
  guard_number : bool;                    (* over-long numeral -> YaqlLexicalException (else ValueError escapes) *)
  error_yaql : bool;                      (* t_error raises YaqlLexicalException *)
  uname : text -> option Z                (* \N{name} -> code point: the Unicode database, an oracle *)
}.

(* ---------- small helpers ---------- *)
Fixpoint memz (c : Z) (l : text) : bool :=
  match l with [] => false | x :: r => (x =? c) || memz c r end.

Fixpoint mem_text (t : text) (l : list text) : bool :=
  match l with [] => false | x :: r => str_eqb x t || mem_text t r end.

Fixpoint assoc {A} (k : text) (l : list (text * A)) : option A :=
  match l with [] => None | (k', v) :: r => if str_eqb k' k then Some v else assoc k r end.

Fixpoint span (f : Z -> bool) (s : text) : nat :=
  match s with c :: r => if f c then S (span f r) else O | [] => O end.

Definition hd_opt (s : text) : option Z := match s with [] => None | c :: _ => Some c end.

Fixpoint prefixb (p s : text) : bool :=
  match p with
  | [] => true
  | a :: p' => match s with b :: s' => (a =? b) && prefixb p' s' | [] => false end
  end.

Fixpoint in_ranges (l : list (Z * Z)) (c : Z) : bool :=
  match l with
  | [] => false
  | (lo, hi) :: r => if c <? lo then false else if c <=? hi then true else in_ranges r c
  end.

Fixpoint range_digit (l : list (Z * Z)) (c : Z) : Z :=
  match l with
  | [] => 0
  | (lo, hi) :: r => if c <? lo then 0 else if c <=? hi then (c - lo) mod 10 else range_digit r c
  end.

(* block-coded texts (the harness writes 10^5-character inputs this way):
   each block repeated n times, concatenated *)
Fixpoint rept (n : nat) (b : text) : text :=
  match n with O => [] | S k => b ++ rept k b end.
Fixpoint unblocks (l : list (text * Z)) : text :=
  match l with [] => [] | (b, n) :: r => rept (Z.to_nat n) b ++ unblocks r end.

(* token type names *)
Definition K_DOLLAR : text := [68; 79; 76; 76; 65; 82].
Definition K_NUMBER : text := [78; 85; 77; 66; 69; 82].
Definition K_FUNC : text := [70; 85; 78; 67].
Definition K_KEYWORD : text := [75; 69; 89; 87; 79; 82; 68; 95; 83; 84; 82; 73; 78; 71].
Definition K_QSTR : text := [81; 85; 79; 84; 69; 68; 95; 83; 84; 82; 73; 78; 71].

(* ---------- escape decoding: ESCAPE_SEQUENCE_RE.sub(codecs.decode(.., 'unicode-escape')) ----------
   ( \\U........ | \\u.... | \\x.. | \\[0-7]{1,3} | \\N\{[^}]+\} | \\[\\ QUOTE DQUOTE abfnrtv] )
   The alternatives start with different characters after the backslash, so at most
   one of them can match at a given backslash; `.` is any code point but newline.
   A matched escape is handed to the codec: \U \u \x need ASCII hex digits (and
   \U a value <= 0x10FFFF), \N{..} needs a known name; otherwise the codec raises. *)
Inductive esc_res :=
| ENone                       (* no alternative matches at this backslash: it stays *)
| EOk (cp : Z) (len : nat)    (* decoded code point; len = code points consumed after the backslash *)
| EBad.                       (* matched, but ill-formed for the codec *)

Definition hexval (c : Z) : option Z :=
  if (48 <=? c) && (c <=? 57) then Some (c - 48)
  else if (97 <=? c) && (c <=? 102) then Some (c - 87)
  else if (65 <=? c) && (c <=? 70) then Some (c - 55)
  else None.

Fixpoint hexnum (acc : Z) (l : text) : option Z :=
  match l with
  | [] => Some acc
  | c :: r => match hexval c with Some v => hexnum (acc * 16 + v) r | None => None end
  end.

Definition is_oct (c : Z) : bool := (48 <=? c) && (c <=? 55).

Fixpoint octnum (acc : Z) (l : text) : Z :=
  match l with [] => acc | c :: r => octnum (acc * 8 + (c - 48)) r end.

Definition no_nl (l : text) : bool := forallb (fun c => negb (c =? 10)) l.

Definition fixed_hex (k : nat) (r : text) : esc_res :=
  let payload := firstn k r in
  if (length payload =? k)%nat && no_nl payload then
    match hexnum 0 payload with
    | Some v => if v <=? max_code_point then EOk v (S k) else EBad
    | None => EBad
    end
  else ENone.

Definition single_escape (d : Z) : option Z :=
  if d =? 92 then Some 92 else if d =? 39 then Some 39 else if d =? 34 then Some 34
  else if d =? 97 then Some 7 else if d =? 98 then Some 8 else if d =? 102 then Some 12
  else if d =? 110 then Some 10 else if d =? 114 then Some 13 else if d =? 116 then Some 9
  else if d =? 118 then Some 11 else None.

Section WithCfg.
Variable cfg : lexcfg.

(* r = the text after a backslash *)
Definition esc_at (r : text) : esc_res :=
  match r with
  | [] => ENone
  | d :: r' =>
    if d =? 85 then fixed_hex 8 r'
    else if d =? 117 then fixed_hex 4 r'
    else if d =? 120 then fixed_hex 2 r'
    else if is_oct d then
      let n := Nat.min 3 (span is_oct r) in EOk (octnum 0 (firstn n r)) n
    else if d =? 78 then
      match r' with
      | b :: nm =>
        if b =? 123 then
          let k := span (fun c => negb (c =? 125)) nm in
          match k with
          | O => ENone
          | S _ =>
            match skipn k nm with
            | [] => ENone                         (* no closing brace *)
            | _ :: _ => match uname cfg (firstn k nm) with
                        | Some cp => EOk cp (k + 3)
                        | None => EBad
                        end
            end
          end
        else ENone
      | [] => ENone
      end
    else match single_escape d with Some cp => EOk cp 1 | None => ENone end
  end.

(* left-to-right, non-overlapping substitution; [skip] code points of an escape
   already decoded are passed over.  None = the codec raised. *)
Fixpoint decode_from (skip : nat) (s : text) : option text :=
  match s with
  | [] => Some []
  | c :: r =>
    match skip with
    | S k => decode_from k r
    | O =>
      if c =? 92 then
        match esc_at r with
        | EOk cp n => option_map (cons cp) (decode_from n r)
        | EBad => None
        | ENone => option_map (cons c) (decode_from O r)
        end
      else option_map (cons c) (decode_from O r)
    end
  end.

Definition decode_escapes (s : text) : option text := decode_from O s.

(* str.replace('\\`', '`') *)
Fixpoint unesc_bq (s : text) : text :=
  match s with
  | [] => []
  | c :: r =>
    match r with
    | d :: r' => if (c =? 92) && (d =? 96) then 96 :: unesc_bq r' else c :: unesc_bq r
    | [] => [c]
    end
  end.

(* ---------- the token matchers ---------- *)
Inductive mres :=
| MNone                                         (* the rule does not match here *)
| MTok (kind : text) (len : nat) (v : tokval)   (* token; len code points consumed *)
| MErr                                          (* the action raised YaqlLexicalException(token position) *)
| MForeign.                                     (* the action let another exception class escape *)

Definition isw (o : option Z) : bool := match o with Some c => is_w cfg c | None => false end.
(* \b between two (possibly absent) neighbours *)
Definition bnd (p n : option Z) : bool := xorb (isw p) (isw n).

(* \$\w* : greedy, nothing follows, so the whole run *)
Definition m_dollar (s : text) : mres :=
  match s with
  | c :: r => if c =? 36 then let n := span (is_w cfg) r in MTok K_DOLLAR (S n) (VText (firstn (S n) s)) else MNone
  | [] => MNone
  end.

Fixpoint dec_value (acc : Z) (l : text) : Z :=
  match l with [] => acc | c :: r => dec_value (acc * 10 + digit_val cfg c) r end.

(* t_NUMBER's action: float() when the text has a dot (never raises on \d+\.\d+),
   else int(), which raises ValueError beyond the interpreter's digit limit *)
Definition number_action (txt : text) (len : nat) : mres :=
  if memz 46 txt then MTok K_NUMBER len (VFloat txt)
  else if (0 <? max_digits cfg) && (max_digits cfg <? Z.of_nat len) then
    (if guard_number cfg then MErr else MForeign)
  else MTok K_NUMBER len (VInt (dec_value 0 txt)).

(* \b\d+(\.?\d+)?\b with D1 = the maximal digit run here (n digits), then possibly
   '.', D2 = the maximal digit run after it (m digits).  Backtracking order: \d+
   longest first; the group with the dot then without, then no group.  Every
   candidate that ends between two digits fails the final \b (both sides \w), so
   the candidates that can succeed are, in this order: D1 '.' D2 (needs m >= 1)
   and D1 alone; shorter first runs only re-try these two end points. *)
Definition m_number (prev : option Z) (s : text) : mres :=
  if negb (bnd prev (hd_opt s)) then MNone else
  let n := span (is_d cfg) s in
  match n with
  | O => MNone
  | S n' =>
    let r1 := skipn n s in
    let with_frac :=
      match r1 with
      | c :: r2 =>
        if c =? 46 then
          let m := span (is_d cfg) r2 in
          match m with
          | O => None
          | S m' => if bnd (nth_error r2 m') (hd_opt (skipn m r2)) then Some (n + 1 + m)%nat else None
          end
        else None
      | [] => None
      end in
    match with_frac with
    | Some l => number_action (firstn l s) l
    | None => if bnd (nth_error s n') (hd_opt r1) then number_action (firstn n s) n else MNone
    end
  end.

Definition ident_start (c : Z) : bool := is_w cfg c && negb (is_d cfg c).     (* [^\W\d] *)

(* \b[^\W\d]\w*\( : '(' is not \w, so only the whole \w run can be followed by it *)
Definition m_func (prev : option Z) (s : text) : mres :=
  match s with
  | [] => MNone
  | c :: r =>
    if bnd prev (Some c) && ident_start c then
      let n := span (is_w cfg) r in
      match skipn n r with
      | d :: _ => if d =? 40 then MTok K_FUNC (S (S n)) (VText (firstn (S n) s)) else MNone
      | [] => MNone
      end
    else MNone
  end.

Definition starts_dunder (s : text) : bool :=
  match s with a :: b :: _ => (a =? 95) && (b =? 95) | _ => false end.

(* t_KEYWORD_STRING's action, then ply's check that the type is a declared token *)
Definition kw_action (w : text) (n : nat) : mres :=
  match assoc w (op_table cfg) with
  | Some name => if mem_text name (tok_names cfg) then MTok name n (VText w) else MForeign
  | None =>
    let ty := match assoc w (keywords cfg) with Some t => t | None => K_KEYWORD end in
    let v := match assoc ty (kwvals cfg) with Some v => v | None => VText w end in
    if mem_text ty (tok_names cfg) then MTok ty n v else MForeign
  end.

(* (?!__)\b[^\W\d]\w*\b : the final \b holds exactly at the end of the whole \w run *)
Definition m_keyword (prev : option Z) (s : text) : mres :=
  if starts_dunder s then MNone else
  match s with
  | [] => MNone
  | c :: r =>
    if bnd prev (Some c) && ident_start c then
      let n := span (is_w cfg) r in kw_action (firstn (S n) s) (S n)
    else MNone
  end.

(* q([^q\\]|\\.)*q : the two alternatives of the body start with different
   characters, so the scan is deterministic; `.` excludes newline.
   Result: number of code points of the body. *)
Fixpoint scan_body (q : Z) (esc : bool) (s : text) : option nat :=
  match s with
  | [] => None
  | c :: r =>
    if esc then (if c =? 10 then None else option_map S (scan_body q false r))
    else if c =? q then Some O
    else if c =? 92 then option_map S (scan_body q true r)
    else option_map S (scan_body q false r)
  end.

Definition m_string (q : Z) (verbatim : bool) (s : text) : mres :=
  match s with
  | [] => MNone
  | c :: r =>
    if c =? q then
      match scan_body q false r with
      | None => MNone
      | Some n =>
        let body := firstn n r in
        if verbatim then MTok K_QSTR (n + 2) (VText (unesc_bq body))
        else match decode_escapes body with
             | Some v => MTok K_QSTR (n + 2) (VText v)
             | None => if guard_escape cfg then MErr else MForeign
             end
      end
    else MNone
  end.

Fixpoint m_ops (l : list (text * text)) (s : text) : mres :=
  match l with
  | [] => MNone
  | (name, lit) :: r => if prefixb lit s then MTok name (length lit) (VText lit) else m_ops r s
  end.

Definition m_literal (s : text) : mres :=
  match s with
  | c :: _ => if memz c (literals cfg) then MTok [c] 1 (VText [c]) else MNone
  | [] => MNone
  end.

(* the master regex: first alternative that matches *)
Definition match_token (prev : option Z) (s : text) : mres :=
  match m_dollar s with MNone =>
  match m_number prev s with MNone =>
  match m_func prev s with MNone =>
  match m_keyword prev s with MNone =>
  match m_string 39 false s with MNone =>
  match m_string 34 false s with MNone =>
  match m_string 96 true s with MNone =>
  match m_ops (op_strs cfg) s with MNone => m_literal s
  | m => m end | m => m end | m => m end | m => m end | m => m end | m => m end | m => m end | m => m end.

Definition prev_after (n : nat) (prev : option Z) (s : text) : option Z :=
  match n with O => prev | S k => nth_error s k end.

(* ply.lex.Lexer.token called until the text is exhausted or an exception escapes *)
Fixpoint lex_loop (fuel : nat) (pos : nat) (prev : option Z) (s : text) : list token * ending :=
  match fuel with
  | O => ([], EndFuel)
  | S f =>
    match s with
    | [] => ([], EndOk)
    | c :: r =>
      if memz c (ignore cfg) then lex_loop f (S pos) (Some c) r
      else
        match match_token prev s with
        | MTok k n v =>
          let '(l, e) := lex_loop f (pos + n) (prev_after n prev s) (skipn n s) in
          (mkTok k pos n v :: l, e)
        | MErr => ([], EndLexErr pos)
        | MForeign => ([], EndForeign)
        | MNone => ([], if error_yaql cfg then EndLexErr pos else EndForeign)
        end
    end
  end.

Definition lex (s : text) : list token * ending := lex_loop (S (length s)) O None s.

(* ---------- parsing outcome over an abstract grammar check ----------
   [gram toks]: None = the token sequence followed by end of input is a
   statement; Some None = p_error at end of input; Some (Some i) = p_error at
   the i-th token.  The parser pulls tokens on demand, so a grammar error at a
   token lexed before a lexical error wins. *)
Inductive poutcome := POk | PLex (p : nat) | PGram (p : option nat) | PForeign | PFuel.

Definition tok_pos_at (toks : list token) (i : nat) : nat :=
  match nth_error toks i with Some t => tk_pos t | None => O end.

Definition parse_outcome (gram : list token -> option (option nat)) (s : text) : poutcome :=
  let '(toks, e) := lex s in
  match e with
  | EndFuel => PFuel
  | _ =>
    match gram toks with
    | Some (Some i) => PGram (Some (tok_pos_at toks i))
    | g =>
      match e with
      | EndOk => match g with None => POk | _ => PGram None end
      | EndLexErr p => PLex p
      | EndForeign => PForeign
      | EndFuel => PFuel
      end
    end
  end.

End WithCfg.

(* ---------- well-formedness of a configuration (premise of the theorems) ---------- *)
Definition cfg_wfb (cfg : lexcfg) : bool :=
  forallb (fun r => negb (Nat.eqb (length (snd r)) O)) (op_strs cfg)          (* no string rule matches the empty string *)
  && forallb (fun r => mem_text (snd r) (tok_names cfg)) (op_table cfg)       (* operator token types are declared tokens *)
  && forallb (fun r => mem_text (snd r) (tok_names cfg)) (keywords cfg)
  && mem_text K_KEYWORD (tok_names cfg)
  && guard_escape cfg && guard_number cfg && error_yaql cfg.

(* what the literal theorems need about the character classes: the three quote
   characters and the backslash are not word characters, digits are word characters
   on the ASCII digits *)
Definition cfg_quotes_ok (cfg : lexcfg) : bool :=
  negb (is_w cfg 39) && negb (is_w cfg 34) && negb (is_w cfg 96).

(* ---------- the configuration of the current tree ---------- *)
Definition kwval_of (z : Z) : tokval :=
  if z =? 0 then VFalse else if z =? 1 then VTrue else if z =? 2 then VNull else VOther.

Definition default_cfg (names : text -> option Z) : lexcfg := {|
  is_w := in_ranges w_ranges;
  is_d := in_ranges d_ranges;
  digit_val := range_digit d_ranges;
  op_strs := op_rules;
  op_table := operator_table;
  keywords := keyword_table;
  kwvals := map (fun r => (fst r, kwval_of (snd r))) keyword_values;
  tok_names := token_names;
  literals := literal_chars;
  ignore := ignore_chars;
  max_digits := int_max_str_digits;
  guard_escape := escape_decoding_guarded;
  guard_number := numeral_conversion_guarded;
  error_yaql := t_error_raises_yaql;
  uname := names
|}.

(* the regex sources the matchers above were written for (re.VERBOSE reading) *)
Definition pinned_rule_sources : list (text * text) := [
  ([116; 95; 68; 79; 76; 76; 65; 82], [92; 36; 92; 119; 42]);
  ([116; 95; 78; 85; 77; 66; 69; 82], [92; 98; 92; 100; 43; 40; 92; 46; 63; 92; 100; 43; 41; 63; 92; 98]);
  ([116; 95; 70; 85; 78; 67], [92; 98; 91; 94; 92; 87; 92; 100; 93; 92; 119; 42; 92; 40]);
  ([116; 95; 75; 69; 89; 87; 79; 82; 68; 95; 83; 84; 82; 73; 78; 71],
   [40; 63; 33; 95; 95; 41; 92; 98; 91; 94; 92; 87; 92; 100; 93; 92; 119; 42; 92; 98]);
  ([116; 95; 81; 85; 79; 84; 69; 68; 95; 83; 84; 82; 73; 78; 71],
   [39; 40; 91; 94; 39; 92; 92; 93; 124; 92; 92; 46; 41; 42; 39]);
  ([116; 95; 68; 79; 85; 66; 76; 69; 95; 81; 85; 79; 84; 69; 68; 95; 83; 84; 82; 73; 78; 71],
   [34; 40; 91; 94; 34; 92; 92; 93; 124; 92; 92; 46; 41; 42; 34]);
  ([116; 95; 81; 85; 79; 84; 69; 68; 95; 86; 69; 82; 66; 65; 84; 73; 77; 95; 83; 84; 82; 73; 78; 71],
   [96; 40; 91; 94; 96; 92; 92; 93; 124; 92; 92; 46; 41; 42; 96])
].

Definition pinned_escape_source : text :=
  [40; 92; 92; 85; 46; 46; 46; 46; 46; 46; 46; 46; 124; 92; 92; 117; 46; 46; 46; 46; 124; 92; 92; 120; 46; 46;
   124; 92; 92; 91; 48; 45; 55; 93; 123; 49; 44; 51; 125; 124; 92; 92; 78; 92; 123; 91; 94; 125; 93; 43; 92; 125;
   124; 92; 92; 91; 92; 92; 39; 34; 97; 98; 102; 110; 114; 116; 118; 93; 41].

(* master order the model assumes: the seven function rules, then the string rules *)
Definition expected_master_order : list text :=
  map fst pinned_rule_sources ++ map (fun r => 116 :: 95 :: fst r) op_rules.

(* ---------- correspondence cases for C03 ---------- *)
(* what the implementation did with a text, as observed by the harness *)
Inductive outcome := OOk | OLex (p : Z) | OGram (p : option Z) | OForeign.

Record case := {
  c_text : text;
  c_names : list (text * Z);                    (* \N{..} names occurring in the text, resolved by Python *)
  c_outcome : outcome;                          (* engine(text) *)
  c_tokens : list (text * Z * Z * tokval);      (* the real ply lexer run on its own: (type, lexpos, length, value) *)
  c_lexend : outcome                            (* how that token stream ended: OOk | OLex p | OForeign *)
}.

Definition tokval_eqb (a b : tokval) : bool :=
  match a, b with
  | VText x, VText y => str_eqb x y
  | VInt x, VInt y => x =? y
  | VFloat x, VFloat y => str_eqb x y
  | VTrue, VTrue | VFalse, VFalse | VNull, VNull | VOther, VOther => true
  | _, _ => false
  end.

Definition tok_obs_eqb (t : token) (o : text * Z * Z * tokval) : bool :=
  let '(k, p, n, v) := o in
  str_eqb (tk_kind t) k && (Z.of_nat (tk_pos t) =? p) && (Z.of_nat (tk_len t) =? n) && tokval_eqb (tk_val t) v.

Fixpoint toks_eqb (a : list token) (b : list (text * Z * Z * tokval)) : bool :=
  match a, b with
  | [], [] => true
  | x :: a', y :: b' => tok_obs_eqb x y && toks_eqb a' b'
  | _, _ => false
  end.

Definition ending_matches (e : ending) (o : outcome) : bool :=
  match e, o with
  | EndOk, OOk => true
  | EndLexErr p, OLex q => Z.of_nat p =? q
  | EndForeign, OForeign => true
  | _, _ => false
  end.

Definition names_fn (l : list (text * Z)) : text -> option Z := fun n => assoc n l.

Definition case_ok (c : case) : bool :=
  let '(toks, e) := lex (default_cfg (names_fn (c_names c))) (c_text c) in
  toks_eqb toks (c_tokens c) && ending_matches e (c_lexend c) &&
  match c_outcome c with
  | OOk => match e with EndOk => true | _ => false end
  | OGram None => match e with EndOk => true | _ => false end
  | OGram (Some p) => existsb (fun t => Z.of_nat (tk_pos t) =? p) toks
  | OLex p => match e with EndLexErr q => Z.of_nat q =? p | _ => false end
  | OForeign => match e with EndForeign => true | _ => false end
  end.
