(* Which KIND of value the collection-returning string / regex functions produce.

   Inside yaql a list value is an immutable Python tuple (hashable; equal to list literals);
   a lazy sequence is an iterator.  A mutable Python list is not a yaql value: it is never
   equal to a list literal and cannot be hashed (distinct, toSet, dictionary keys).  The
   finalised form of a yaql list is a Python list when yaql.convertTuplesToLists is on (the
   default) and a tuple otherwise (legacy engine: always a tuple); an iterator is drained
   into a list.

   No proofs in this file. *)
From Coq Require Import List Bool.
Import ListNotations.

Inductive collfn :=
| FToCharArray | FSplit | FSplitWs | FRightSplit | FCharacters
| FRegexSplit | FRegexSplitStr | FSearchAll | FSearchAllSel.

Inductive rawkind := RKTuple | RKList | RKIter | RKOther.
Inductive finkind := FKList | FKTuple | FKOther.

(* the documented kind: a list for all of them, searchAll being lazy *)
Definition result_kind (f : collfn) : rawkind :=
  match f with FSearchAll | FSearchAllSel => RKIter | _ => RKTuple end.

Definition finalised (convert_tuples : bool) (k : rawkind) : finkind :=
  match k with
  | RKTuple => if convert_tuples then FKList else FKTuple
  | RKList => FKList
  | RKIter => FKList
  | RKOther => FKOther
  end.

Definition rawkind_eqb (a b : rawkind) : bool :=
  match a, b with RKTuple, RKTuple | RKList, RKList | RKIter, RKIter | RKOther, RKOther => true | _, _ => false end.
Definition finkind_eqb (a b : finkind) : bool :=
  match a, b with FKList, FKList | FKTuple, FKTuple | FKOther, FKOther => true | _, _ => false end.

(* correspondence: function, raw kind observed before finalisation, finalised kinds observed
   under (convertTuplesToLists = b) engines; the legacy engine counts as b = false *)
Definition kcase := (collfn * rawkind * list (bool * finkind))%type.
Definition kcase_ok (c : kcase) : bool :=
  let '(f, raw, fins) := c in
  rawkind_eqb raw (result_kind f) &&
  forallb (fun bf => finkind_eqb (snd bf) (finalised (fst bf) (result_kind f))) fins.
