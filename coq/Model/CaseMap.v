(* toUpper / toLower on the simple case mapping of the running interpreter (Gen/CaseMap.v,
   Basic Multilingual Plane).  Code points with a full (multi-character) mapping or a
   context-sensitive one are outside the model ([covered_*] says which strings are inside).

   No proofs in this file. *)
From Coq Require Import List ZArith Bool.
From YV Require Import Common.Corr Model.Strings Gen.CaseMap.
Import ListNotations.
Open Scope Z_scope.

Fixpoint zlookup (c : Z) (l : list (Z * Z)) : option Z :=
  match l with
  | [] => None
  | (k, v) :: r => if Z.eqb c k then Some v else zlookup c r
  end.

Definition uni_upper_c (c : Z) : Z := match zlookup c upper_pairs with Some d => d | None => c end.
Definition uni_lower_c (c : Z) : Z := match zlookup c lower_pairs with Some d => d | None => c end.
Definition uni_upper (s : str) : str := map uni_upper_c s.
Definition uni_lower (s : str) : str := map uni_lower_c s.

Definition covered_upper (s : str) : bool := forallb (fun c => negb (memb c upper_special)) s.
Definition covered_lower (s : str) : bool :=
  forallb (fun c => negb (memb c lower_special) && negb (memb c lower_context)) s.

(* correspondence: (upper?, input, observed result) *)
Definition ccase := (bool * str * str)%type.
Definition ccase_ok (c : ccase) : bool :=
  let '(up, s, r) := c in
  if up then covered_upper s && str_eqb (uni_upper s) r else covered_lower s && str_eqb (uni_lower s) r.
