(* C15 - IEEE binary64 instance of the abstract float record, on Flocq's formalisation
   (Flocq.IEEE754.BinarySingleNaN: the type carries the proof that mantissa and exponent are
   in range; one NaN, as Python shows none of the payload).  Arithmetic = Flocq's correctly
   rounded operations, round-to-nearest-even; comparison = Flocq's Bcompare; integer/float
   comparison is computed exactly on the (sign, mantissa, exponent) of the float.
   Used by the correspondence next to the PrimFloat instance, and by
   Lemmas/ScalarsB64.v, which proves the comparison laws that C15_order_consistent_num
   takes as premises.  No proofs here (the two Definitions of Prop type are the side
   conditions 0 < 53 and 53 < 1024 that Flocq's operations take as arguments). *)
From Coq Require Import List ZArith Bool.
From Flocq Require Import Core.Zaux Core.FLX IEEE754.BinarySingleNaN.
From YV Require Import Common.Corr Model.Scalars.
Import ListNotations.

Module B64.
Local Open Scope Z_scope.

Definition prec : Z := 53.
Definition emax : Z := 1024.
Definition Hprec : Prec_gt_0 prec := eq_refl.
Definition Hmax : Prec_lt_emax prec emax := eq_refl.
Definition t : Type := binary_float prec emax.

Definition add (a b : t) : t := Bplus (prec_gt_0_ := Hprec) (prec_lt_emax_ := Hmax) mode_NE a b.
Definition sub (a b : t) : t := Bminus (prec_gt_0_ := Hprec) (prec_lt_emax_ := Hmax) mode_NE a b.
Definition mul (a b : t) : t := Bmult (prec_gt_0_ := Hprec) (prec_lt_emax_ := Hmax) mode_NE a b.
Definition neg (a : t) : t := Bopp a.
Definition is_zero (a : t) : bool := match a with B754_zero _ => true | _ => false end.
Definition is_inf (a : t) : bool := match a with B754_infinity _ => true | _ => false end.
Definition nan (a : t) : bool := is_nan a.
Definition div (a b : t) : option t :=
  if is_zero b then None else Some (Bdiv (prec_gt_0_ := Hprec) (prec_lt_emax_ := Hmax) mode_NE a b).

(* correctly rounded m * 2^e *)
Definition of_Zexp (m e : Z) : t := binary_normalize prec emax Hprec Hmax mode_NE m e false.
Definition of_Z (z : Z) : option t :=
  let f := of_Zexp z 0 in if is_inf f then None else Some f.

Definition compare (a b : t) : option comparison := Bcompare a b.

(* exact comparison of an integer with a float: z ? (+-m) * 2^e *)
Definition cmpZ (z : Z) (f : t) : option comparison :=
  match f with
  | B754_nan => None
  | B754_infinity s => Some (if s then Gt else Lt)
  | B754_zero _ => Some (Z.compare z 0)
  | B754_finite s m e _ =>
    let sm := if s then Z.neg m else Z.pos m in
    if e >=? 0 then Some (Z.compare z (sm * 2 ^ e)) else Some (Z.compare (z * 2 ^ (- e)) sm)
  end.

(* Python float %: C fmod (exact), then the sign adjustment of float_rem; finite operands *)
Definition fmod (a b : t) : option (option t) :=
  match a, b with
  | _, B754_zero _ => None
  | B754_zero _, B754_finite sb _ _ _ => Some (Some (B754_zero sb))
  | B754_finite sa ma ea _, B754_finite sb mb eb _ =>
    let e := Z.min ea eb in
    let x := Z.pos ma * 2 ^ (ea - e) in
    let y := Z.pos mb * 2 ^ (eb - e) in
    let r := Z.rem x y in
    if r =? 0 then Some (Some (B754_zero sb))
    else
      let rf := of_Zexp (if sa then - r else r) e in
      if Bool.eqb sa sb then Some (Some rf) else Some (Some (add rf b))
  | _, _ => Some None
  end.

Definition ops : fops t := {|
  fo_of_Z := of_Z;
  fo_add := add;
  fo_sub := sub;
  fo_mul := mul;
  fo_div := div;
  fo_mod := fmod;
  fo_neg := neg;
  fo_compare := compare;
  fo_cmpZ := cmpZ;
|}.

(* bit-level identity up to the NaN payload *)
Definition same (a b : t) : bool :=
  match a, b with
  | B754_nan, B754_nan => true
  | B754_zero s, B754_zero s' => Bool.eqb s s'
  | B754_infinity s, B754_infinity s' => Bool.eqb s s'
  | B754_finite s m e _, B754_finite s' m' e' _ => Bool.eqb s s' && Pos.eqb m m' && Z.eqb e e'
  | _, _ => false
  end.

(* literals written by the harness *)
Definition fin (s : bool) (m : positive) (e : Z) (H : SpecFloat.bounded prec emax m e = true) : t :=
  B754_finite s m e H.
Definition zero (s : bool) : t := B754_zero s.
Definition inf (s : bool) : t := B754_infinity s.
Definition qnan : t := B754_nan.
End B64.

Definition bcase := case B64.t.
Definition bcase_ok (tables : cfg -> op -> optable) (c : bcase) : bool :=
  gcase_ok B64.t B64.ops B64.same tables c.
