(* Model of yaql/standard_library/date_time.py and yaqltypes.DateTime
   (property C20: date/time values denote instants consistently).

   Units: everything is an integer number of MICROSECONDS (Z).
     - an aware datetime is a pair (wall, off): [wall] = microseconds of the
       wall-clock reading since 0001-01-01T00:00:00 (proleptic Gregorian, the
       origin of Python's datetime.min), [off] = its UTC offset; the instant
       it denotes is [wall - off];
     - a naive host datetime has a wall reading and no offset;
     - a timespan (datetime.timedelta) is a Z;
     - a timestamp is microseconds since 1970-01-01T00:00:00Z.  The code works
       with a float number of seconds; the model states the exact rational
       [us / 10^6] that float rounds.

   Three layers:
     1. the pure functions (no range checks) the property theorems are about;
     2. Python's datetime semantics on host values (naive/aware, range errors);
     3. yaql's functions: parameter conversion as DECLARED in date_time.py
        (record [decls]) followed by the Python operation, as total functions
        to [val]; [eval] runs one yaql call, [case_ok] compares with an
        observation of the real code.
   The pre-repair definitions (finding F13: offset applied twice; F14/F17:
   parameters declared without the naive->UTC conversion) are kept as
   [utc_historic]/[timestamp_historic] and [historic_decls].

   No proofs in this file. *)
From Coq Require Import ZArith Bool List QArith.
Import ListNotations.
Open Scope Z_scope.

(* ---- constants ---------------------------------------------------------- *)
Definition US_SECOND : Z := 1000000.
Definition US_DAY : Z := 86400000000.
Definition DAYS_TO_EPOCH : Z := 719162.           (* date(1970,1,1).toordinal() - 1 *)
Definition DAYS_TOTAL : Z := 3652059.             (* date.max.toordinal() *)
Definition EPOCH : Z := DAYS_TO_EPOCH * US_DAY.   (* wall reading of 1970-01-01T00:00 *)
Definition MAXWALL : Z := DAYS_TOTAL * US_DAY.    (* first reading after 9999-12-31T23:59:59.999999 *)
Definition TS_MAX_DAYS : Z := 999999999.          (* timedelta.max.days *)

(* ---- layer 1: pure functions ------------------------------------------------ *)
Record adt := mk_adt { wall : Z; off : Z }.

Definition instant (d : adt) : Z := wall d - off d.

(* datetime(timestamp, offset): fromtimestamp(ts, tz) = UTC reading shifted into the zone *)
Definition dt_of_timestamp (s o : Z) : adt := {| wall := EPOCH + s + o; off := o |}.
(* .timestamp: (instant - epoch) [microseconds; the float result rounds this / 10^6] *)
Definition timestamp (d : adt) : Z := instant d - EPOCH.
(* .utc: the same instant at offset zero *)
Definition utc (d : adt) : adt := {| wall := instant d; off := 0 |}.
Definition offset (d : adt) : Z := off d.

(* pre-repair code (finding F13):  utc = dt - dt.utcoffset()  keeps the zone label,
   timestamp = (utc(dt) - epoch).total_seconds()  therefore subtracts the offset twice *)
Definition utc_historic (d : adt) : adt := {| wall := wall d - off d; off := off d |}.
Definition timestamp_historic (d : adt) : Z := instant (utc_historic d) - EPOCH.

(* dt + ts, ts + dt, dt - ts keep the zone; dt - dt is the difference of instants *)
Definition dt_add (d : adt) (t : Z) : adt := {| wall := wall d + t; off := off d |}.
Definition ts_add_dt (t : Z) (d : adt) : adt := dt_add d t.
Definition dt_sub_ts (d : adt) (t : Z) : adt := {| wall := wall d - t; off := off d |}.
Definition dt_diff (a b : adt) : Z := instant a - instant b.

Inductive cmp := Lt | Le | Gt | Ge | Eq | Ne.
Definition z_cmp (c : cmp) (x y : Z) : bool :=
  match c with
  | Lt => x <? y | Le => x <=? y | Gt => y <? x | Ge => y <=? x
  | Eq => x =? y | Ne => negb (x =? y)
  end.
Definition dt_cmp (c : cmp) (a b : adt) : bool := z_cmp c (instant a) (instant b).

(* .date: midnight of the same wall day, same zone; .time: wall time of day *)
Definition dt_date (d : adt) : adt := {| wall := wall d - wall d mod US_DAY; off := off d |}.
Definition dt_time (d : adt) : Z := wall d mod US_DAY.

(* civil calendar (proleptic Gregorian), as CPython's _ymd2ord / _ord2ymd with the day
   number counted from 0001-01-01 = 0 *)
Definition is_leap (y : Z) : bool := (y mod 4 =? 0) && (negb (y mod 100 =? 0) || (y mod 400 =? 0)).
Definition days_in_month (y m : Z) : Z :=
  match m with
  | 2 => if is_leap y then 29 else 28
  | 4 | 6 | 9 | 11 => 30
  | _ => 31
  end.
Definition days_before_month_common (m : Z) : Z :=
  match m with
  | 1 => 0 | 2 => 31 | 3 => 59 | 4 => 90 | 5 => 120 | 6 => 151 | 7 => 181
  | 8 => 212 | 9 => 243 | 10 => 273 | 11 => 304 | 12 => 334 | _ => 365
  end.
Definition days_before_month (y m : Z) : Z :=
  days_before_month_common m + (if (2 <? m) && is_leap y then 1 else 0).
Definition days_before_year (y : Z) : Z := let p := y - 1 in p * 365 + p / 4 - p / 100 + p / 400.
Definition days_from_civil (y m d : Z) : Z := days_before_year y + days_before_month y m + d - 1.

(* one 400-year era: day r in [0, 146097) of the era starting at year 1 *)
Definition civil_era (r : Z) : Z * Z * Z :=
  let n100 := r / 36524 in let n := r mod 36524 in
  let n4 := n / 1461 in let n := n mod 1461 in
  let n1 := n / 365 in let n := n mod 365 in
  let year := 1 + n100 * 100 + n4 * 4 + n1 in
  if (n1 =? 4) || (n100 =? 4) then (year - 1, 12, 31)
  else
    let leap := (n1 =? 3) && (negb (n4 =? 24) || (n100 =? 3)) in
    let month := (n + 50) / 32 in
    let preceding := days_before_month_common month + (if (2 <? month) && leap then 1 else 0) in
    if n <? preceding then
      let month' := month - 1 in
      let dim := match month' with 2 => if leap then 29 else 28 | 4 | 6 | 9 | 11 => 30 | _ => 31 end in
      (year, month', n - (preceding - dim) + 1)
    else (year, month, n - preceding + 1).
Definition civil_from_days (n : Z) : Z * Z * Z :=
  let '(y, m, d) := civil_era (n mod 146097) in (y + 400 * (n / 146097), m, d).

(* [range_all p f lo]: f holds on [lo, lo + p) (binary splitting; used to close the era by computation) *)
Fixpoint range_all (p : positive) (f : Z -> bool) (lo : Z) : bool :=
  match p with
  | xH => f lo
  | xO q => range_all q f lo && range_all q f (lo + Zpos q)
  | xI q => f lo && range_all q f (lo + 1) && range_all q f (lo + 1 + Zpos q)
  end.
Definition era_day_ok (r : Z) : bool :=
  let '(y, m, d) := civil_era r in
  (days_from_civil y m d =? r) && (1 <=? y) && (y <=? 400) && (1 <=? m) && (m <=? 12) && (1 <=? d) && (d <=? days_in_month y m)
  && ((145731 <=? r) || (y <=? 399)).      (* the last 366 days of the era are its year 400 *)

(* the other direction, over every real date of the era's 400 years *)
Definition era_date_ok (y m d : Z) : bool :=
  negb ((1 <=? d) && (d <=? days_in_month y m)) ||
  (let n := days_from_civil y m d in
   (0 <=? n) && (n <? 146097) && (negb (y <=? 399) || (n <? 145731)) &&
   (let '(y', m', d') := civil_era n in (y' =? y) && (m' =? m) && (d' =? d))).
Definition era_dates_ok : bool :=
  range_all 400 (fun y => range_all 12 (fun m => range_all 31 (fun d => era_date_ok y m d) 1) 1) 1.

Definition valid_civil (y m d : Z) : bool :=
  (1 <=? y) && (y <=? 9999) && (1 <=? m) && (m <=? 12) && (1 <=? d) && (d <=? days_in_month y m).
Definition valid_clock (h mi s us : Z) : bool :=
  (0 <=? h) && (h <? 24) && (0 <=? mi) && (mi <? 60) && (0 <=? s) && (s <? 60) && (0 <=? us) && (us <? 1000000).
Definition wall_of_fields (y m d h mi s us : Z) : Z :=
  days_from_civil y m d * US_DAY + h * 3600000000 + mi * 60000000 + s * 1000000 + us.

(* the fields of a wall reading *)
Inductive field := FYear | FMonth | FDay | FHour | FMinute | FSecond | FMicrosecond | FWeekday.
Definition dt_field (f : field) (w : Z) : Z :=
  match f with
  | FYear => fst (fst (civil_from_days (w / US_DAY)))
  | FMonth => snd (fst (civil_from_days (w / US_DAY)))
  | FDay => snd (civil_from_days (w / US_DAY))
  | FHour => (w mod US_DAY) / 3600000000
  | FMinute => (w mod 3600000000) / 60000000
  | FSecond => (w mod 60000000) / US_SECOND
  | FMicrosecond => w mod US_SECOND
  | FWeekday => (w / US_DAY) mod 7              (* 0001-01-01 is a Monday = 0 *)
  end.

(* timespans *)
Inductive unit_ := UMicroseconds | UMilliseconds | USeconds | UMinutes | UHours | UDays.
Definition unit_div (u : unit_) : positive :=
  match u with
  | UMicroseconds => 1 | UMilliseconds => 1000 | USeconds => 1000000
  | UMinutes => 60000000 | UHours => 3600000000 | UDays => 86400000000
  end%positive.
(* the exact value of a unit property (the code returns the float nearest to it;
   microseconds returns the integer itself) *)
Definition ts_unit (u : unit_) (t : Z) : Q := t # unit_div u.

Definition timespan_of (days hours minutes seconds milliseconds microseconds : Z) : Z :=
  days * 86400000000 + hours * 3600000000 + minutes * 60000000 + seconds * 1000000
  + milliseconds * 1000 + microseconds.

(* ---- layer 2: Python's datetime on host values ------------------------------ *)
Inductive hdt := Naive (w : Z) | Aware (d : adt).

Inductive err := RangeErr | TypeErr | ZeroDiv.
Inductive val :=
| VDt (d : adt)          (* aware datetime *)
| VNaive (w : Z)         (* naive datetime (no yaql function should ever return one) *)
| VTs (t : Z)
| VBool (b : bool)
| VInt (z : Z)
| VRat (n : Z) (d : positive)     (* a float; the exact rational it must round *)
| VTsNear (n : Z) (d : positive)  (* a timespan obtained by rounding a float near n/d to whole microseconds *)
| VStr (s : list Z)               (* a string (code points) *)
| VErr (e : err).

Definition in_range (w : Z) : bool := (0 <=? w) && (w <? MAXWALL).
Definition ts_in_range (t : Z) : bool :=
  (- TS_MAX_DAYS * US_DAY <=? t) && (t <? (TS_MAX_DAYS + 1) * US_DAY).

Definition hwall (h : hdt) : Z := match h with Naive w => w | Aware d => wall d end.
Definition mk_dt (h : hdt) (w : Z) : val :=       (* new reading, same tzinfo, range-checked *)
  if in_range w then match h with Naive _ => VNaive w | Aware d => VDt {| wall := w; off := off d |} end
  else VErr RangeErr.
Definition mk_ts (t : Z) : val := if ts_in_range t then VTs t else VErr RangeErr.

Definition py_add (h : hdt) (t : Z) : val := mk_dt h (hwall h + t).
Definition py_diff (a b : hdt) : val :=
  match a, b with
  | Naive x, Naive y => VTs (x - y)
  | Aware x, Aware y => VTs (dt_diff x y)
  | _, _ => VErr TypeErr
  end.
Definition py_cmp (c : cmp) (a b : hdt) : val :=
  match a, b with
  | Naive x, Naive y => VBool (z_cmp c x y)
  | Aware x, Aware y => VBool (dt_cmp c x y)
  | _, _ => match c with Eq => VBool false | Ne => VBool true | _ => VErr TypeErr end
  end.

(* ---- layer 3: yaql ---------------------------------------------------------- *)
(* yaqltypes.DateTime.convert: a naive datetime becomes the same reading at UTC *)
Definition conv (h : hdt) : adt := match h with Naive w => {| wall := w; off := 0 |} | Aware d => d end.

(* which parameters are declared with yaqltypes.DateTime() (conversion) rather
   than the bare python type / no type (no conversion) *)
Record decls := { timestamp_converts : bool; equal_converts : bool }.
Definition repaired_decls := {| timestamp_converts := true; equal_converts := true |}.
Definition historic_decls := {| timestamp_converts := false; equal_converts := false |}.

Definition arg (convert : bool) (h : hdt) : hdt := if convert then Aware (conv h) else h.

Definition y_datetime_of_timestamp (s o : Z) : val :=
  (* fromtimestamp: the UTC reading must exist, then tz.fromutc adds the offset *)
  if in_range (EPOCH + s) && in_range (EPOCH + s + o) then VDt (dt_of_timestamp s o) else VErr RangeErr.

Definition y_utc (h : hdt) : val :=
  let d := conv h in if in_range (instant d) then VDt (utc d) else VErr RangeErr.

Definition y_offset (h : hdt) : val := VTs (match h with Naive _ => 0 | Aware d => off d end).

Definition y_timestamp (D : decls) (h : hdt) : val :=
  match arg (timestamp_converts D) h with
  | Aware d => VRat (timestamp d) 1000000
  | Naive _ => VErr TypeErr            (* naive minus aware epoch *)
  end.

Definition y_add (h : hdt) (t : Z) : val := py_add (Aware (conv h)) t.
Definition y_sub_ts (h : hdt) (t : Z) : val := py_add (Aware (conv h)) (- t).
Definition y_diff (a b : hdt) : val := py_diff (Aware (conv a)) (Aware (conv b)).
Definition y_cmp (D : decls) (c : cmp) (a b : hdt) : val :=
  match c with
  | Eq | Ne => py_cmp c (arg (equal_converts D) a) (arg (equal_converts D) b)
  | _ => py_cmp c (Aware (conv a)) (Aware (conv b))
  end.
Definition y_date (h : hdt) : val := VDt (dt_date (conv h)).
Definition y_time (h : hdt) : val := VTs (dt_time (conv h)).
Definition y_field (f : field) (h : hdt) : val := VInt (dt_field f (hwall h)).

(* datetime(year, month, day, hour, minute, second, microsecond, offset) *)
Definition y_build (y m d h mi s us o : Z) : val :=
  if valid_civil y m d && valid_clock h mi s us
  then VDt {| wall := wall_of_fields y m d h mi s us; off := o |} else VErr RangeErr.

(* dt.replace(year => ..., ..., offset => ...): None = keep *)
Definition keep (o : option Z) (x : Z) : Z := match o with Some v => v | None => x end.
Definition y_replace (h : hdt) (ry rm rd rh rmi rs rus ro : option Z) : val :=
  let d := conv h in let w := wall d in
  y_build (keep ry (dt_field FYear w)) (keep rm (dt_field FMonth w)) (keep rd (dt_field FDay w))
          (keep rh (dt_field FHour w)) (keep rmi (dt_field FMinute w)) (keep rs (dt_field FSecond w))
          (keep rus (dt_field FMicrosecond w)) (keep ro (off d)).

Definition y_unit (u : unit_) (t : Z) : val :=
  match u with UMicroseconds => VInt t | _ => VRat t (unit_div u) end.
Definition y_timespan (d h m s ms us : Z) : val := mk_ts (timespan_of d h m s ms us).

Inductive tsop := TAdd | TSub | TMulInt | TDivTs | TNeg | TPos.
Definition y_tsop (o : tsop) (a b : Z) : val :=
  match o with
  | TAdd => mk_ts (a + b)
  | TSub => mk_ts (a - b)
  | TMulInt => mk_ts (a * b)                  (* b is an integer factor *)
  | TDivTs => match b with
              | 0 => VErr ZeroDiv
              | Zpos p => VRat a p
              | Zneg p => VRat (- a) p
              end
  | TNeg => mk_ts (- a)
  | TPos => VTs a
  end.

(* timespan * number, number * timespan, timespan / number.
   The code computes  microseconds(ts) * n  (exact when n is an integer, a float product
   otherwise) resp.  microseconds(ts) / n  (true division: always a float quotient) and hands
   the result to timedelta(microseconds = ...), which rounds a float to the nearest whole
   microsecond (ties to even).  The model states the exact rational q; [VTsNear q] admits the
   timespans r with |r - q| <= 1/2 + |q| * 2^-51  (rounding to a microsecond + the float error
   of the product / quotient, including the int -> float conversion of a large count). *)
Inductive number := NInt (k : Z) | NFloat (n : Z) (d : positive).     (* a float is n/d exactly *)
Definition ts_near (r n : Z) (d : positive) : bool :=
  Z.abs (r * Zpos d - n) * 4503599627370496 <=? Zpos d * 2251799813685248 + 2 * Z.abs n.
Definition near_ts (n : Z) (d : positive) : val :=
  (* the exact quotient must be a representable timespan (with a microsecond to spare) *)
  if ts_in_range (n / Zpos d - 1) && ts_in_range (n / Zpos d + 2) then VTsNear n d else VErr RangeErr.
Definition y_ts_mul (t : Z) (x : number) : val :=
  match x with
  | NInt k => mk_ts (t * k)
  | NFloat n d => near_ts (t * n) d
  end.
Definition y_ts_div (t : Z) (x : number) : val :=
  match x with
  | NInt 0 | NFloat 0 _ => VErr ZeroDiv
  | NInt (Zpos k) => near_ts t k
  | NInt (Zneg k) => near_ts (- t) k
  | NFloat (Zpos n) d => near_ts (t * Zpos d) n
  | NFloat (Zneg n) d => near_ts (- t * Zpos d) n
  end.

(* ---- ISO-8601 text: YYYY-MM-DDTHH:MM:SS[.ffffff](Z | +HH:MM | -HH:MM | nothing) ------------
   format: dt.format("%Y-%m-%dT%H:%M:%S.%f%:z") (for years >= 1000; the C library does not pad
   smaller years); parse: datetime(string) (dateutil, then yaql's rule "no zone means UTC"),
   modelled for this shape only. *)
Definition fmt2 (n : Z) : list Z := [48 + n / 10 mod 10; 48 + n mod 10].
Definition fmt4 (n : Z) : list Z := [48 + n / 1000 mod 10; 48 + n / 100 mod 10; 48 + n / 10 mod 10; 48 + n mod 10].
Definition fmt6 (n : Z) : list Z :=
  [48 + n / 100000 mod 10; 48 + n / 10000 mod 10; 48 + n / 1000 mod 10; 48 + n / 100 mod 10; 48 + n / 10 mod 10; 48 + n mod 10].
Definition iso_zone (o : Z) : list Z :=
  let m := Z.abs o / 60000000 in (if o <? 0 then 45 else 43) :: fmt2 (m / 60) ++ 58 :: fmt2 (m mod 60).
Definition iso_format (d : adt) : list Z :=
  let w := wall d in
  fmt4 (dt_field FYear w) ++ 45 :: fmt2 (dt_field FMonth w) ++ 45 :: fmt2 (dt_field FDay w) ++ 84 ::
  fmt2 (dt_field FHour w) ++ 58 :: fmt2 (dt_field FMinute w) ++ 58 :: fmt2 (dt_field FSecond w) ++ 46 ::
  fmt6 (dt_field FMicrosecond w) ++ iso_zone (off d).

Definition dig (c : Z) : option Z := if (48 <=? c) && (c <=? 57) then Some (c - 48) else None.
Fixpoint take_digits (k : nat) (acc : Z) (s : list Z) : option (Z * list Z) :=
  match k with
  | O => Some (acc, s)
  | S k' => match s with
            | c :: r => match dig c with Some x => take_digits k' (10 * acc + x) r | None => None end
            | [] => None
            end
  end.
Definition expect (c : Z) (s : list Z) : option (list Z) :=
  match s with x :: r => if x =? c then Some r else None | [] => None end.
Definition parse_frac (s : list Z) : option (Z * list Z) :=
  match s with
  | 46 :: r => take_digits 6 0 r
  | _ => Some (0, s)
  end.
Definition parse_zone (s : list Z) : option Z :=
  match s with
  | [] => Some 0                                  (* yaql: a result without zone is UTC *)
  | [90] => Some 0                                (* Z *)
  | sg :: r =>
      if (sg =? 43) || (sg =? 45) then
        match take_digits 2 0 r with
        | Some (hh, r1) => match expect 58 r1 with
            | Some r2 => match take_digits 2 0 r2 with
                | Some (mm, []) => if (hh <? 24) && (mm <? 60)
                                   then Some ((if sg =? 45 then -1 else 1) * ((hh * 60 + mm) * 60000000)) else None
                | _ => None end
            | None => None end
        | None => None end
      else None
  end.
Definition bind {A B} (x : option A) (f : A -> option B) : option B := match x with Some a => f a | None => None end.
(* None = not of the modelled shape *)
Definition iso_parse (s : list Z) : option val :=
  bind (take_digits 4 0 s) (fun '(y, s) => bind (expect 45 s) (fun s =>
  bind (take_digits 2 0 s) (fun '(m, s) => bind (expect 45 s) (fun s =>
  bind (take_digits 2 0 s) (fun '(d, s) => bind (expect 84 s) (fun s =>
  bind (take_digits 2 0 s) (fun '(h, s) => bind (expect 58 s) (fun s =>
  bind (take_digits 2 0 s) (fun '(mi, s) => bind (expect 58 s) (fun s =>
  bind (take_digits 2 0 s) (fun '(sec, s) =>
  bind (parse_frac s) (fun '(us, s) =>
  bind (parse_zone s) (fun o => Some (y_build y m d h mi sec us o)))))))))))))).

(* one yaql call on host data *)
Inductive op :=
| OpFromTimestamp (s o : Z)                 (* datetime(timestamp, offset), timestamp given in microseconds *)
| OpTimestamp (h : hdt)
| OpUtc (h : hdt)
| OpOffset (h : hdt)
| OpAdd (h : hdt) (t : Z)                   (* dt + ts *)
| OpAddR (t : Z) (h : hdt)                  (* ts + dt *)
| OpSubTs (h : hdt) (t : Z)                 (* dt - ts *)
| OpDiff (a b : hdt)                        (* dt - dt *)
| OpCmp (c : cmp) (a b : hdt)
| OpDate (h : hdt)
| OpTime (h : hdt)
| OpField (f : field) (h : hdt)
| OpBuild (y m d h mi s us o : Z)
| OpReplace (h : hdt) (ry rm rd rh rmi rs rus ro : option Z)
| OpUnit (u : unit_) (t : Z)
| OpTimespan (d h m s ms us : Z)
| OpTsCmp (c : cmp) (a b : Z)
| OpTsOp (o : tsop) (a b : Z)
| OpTsMul (t : Z) (x : number)              (* ts * n *)
| OpTsMulR (x : number) (t : Z)             (* n * ts *)
| OpTsDiv (t : Z) (x : number)              (* ts / n *)
| OpFormatIso (h : hdt)                     (* dt.format("%Y-%m-%dT%H:%M:%S.%f%:z") *)
| OpParseIso (s : list Z).                  (* datetime(string) for a string of the ISO shape *)

Definition eval_with (D : decls) (o : op) : val :=
  match o with
  | OpFromTimestamp s o => y_datetime_of_timestamp s o
  | OpTimestamp h => y_timestamp D h
  | OpUtc h => y_utc h
  | OpOffset h => y_offset h
  | OpAdd h t => y_add h t
  | OpAddR t h => y_add h t
  | OpSubTs h t => y_sub_ts h t
  | OpDiff a b => y_diff a b
  | OpCmp c a b => y_cmp D c a b
  | OpDate h => y_date h
  | OpTime h => y_time h
  | OpField f h => y_field f h
  | OpBuild y m d h mi s us o => y_build y m d h mi s us o
  | OpReplace h ry rm rd rh rmi rs rus ro => y_replace h ry rm rd rh rmi rs rus ro
  | OpUnit u t => y_unit u t
  | OpTimespan d h m s ms us => y_timespan d h m s ms us
  | OpTsCmp c a b => VBool (z_cmp c a b)
  | OpTsOp o a b => y_tsop o a b
  | OpTsMul t x => y_ts_mul t x
  | OpTsMulR x t => y_ts_mul t x
  | OpTsDiv t x => y_ts_div t x
  | OpFormatIso h => VStr (iso_format (conv h))
  | OpParseIso s => match iso_parse s with Some v => v | None => VErr TypeErr end
  end.
Definition eval := eval_with repaired_decls.

(* ---- correspondence --------------------------------------------------------- *)
(* what the harness saw the real code do; a float is given exactly as n/d (d a power of two) *)
Inductive obs :=
| ODt (w o : Z) | ONaive (w : Z) | OTs (t : Z) | OBool (b : bool) | OInt (z : Z)
| OFloat (n : Z) (d : positive) | OErr (e : err) | OStr (s : list Z) | OOther.

Definition err_eqb (a b : err) : bool :=
  match a, b with RangeErr, RangeErr | TypeErr, TypeErr | ZeroDiv, ZeroDiv => true | _, _ => false end.

(* the float fn/fd is the rational n/d up to a relative error of 2^-51 (a correctly
   rounded quotient is within 2^-53; int->float conversion of a big numerator before
   the division adds another 2^-53) *)
Definition float_close (fn : Z) (fd : positive) (n : Z) (d : positive) : bool :=
  Z.abs (fn * Zpos d - n * Zpos fd) * 2251799813685248 <=? Z.abs (n * Zpos fd).

Definition obs_match (v : val) (o : obs) : bool :=
  match v, o with
  | VDt d, ODt w f => (wall d =? w) && (off d =? f)
  | VNaive x, ONaive w => x =? w
  | VTs a, OTs b => a =? b
  | VBool a, OBool b => Bool.eqb a b
  | VInt a, OInt b => a =? b
  | VRat n d, OFloat fn fd => float_close fn fd n d
  | VTsNear n d, OTs r => ts_near r n d
  | VStr a, OStr b => (fix eqb (x y : list Z) : bool :=
                         match x, y with
                         | [], [] => true
                         | p :: x', q :: y' => (p =? q) && eqb x' y'
                         | _, _ => false
                         end) a b
  | VErr a, OErr b => err_eqb a b
  | _, _ => false
  end.

(* where an equally acceptable implementation may differ: the timestamp of a
   datetime whose instant lies outside years 1..9999 may be a range error
   (it is when computed through .utc) *)
Definition lenient (o : op) (b : obs) : bool :=
  match o, b with
  | OpTimestamp h, OErr RangeErr => negb (in_range (instant (conv h)))
  | _, _ => false
  end.

Record case := { c_op : op; c_obs : obs }.
Definition case_ok (c : case) : bool := obs_match (eval (c_op c)) (c_obs c) || lenient (c_op c) (c_obs c).

(* replace every naive host datetime argument by the aware datetime with the
   same fields at offset zero (used to state C20_naive_is_utc) *)
Definition as_utc (h : hdt) : hdt := Aware (conv h).
Definition op_map (f : hdt -> hdt) (o : op) : op :=
  match o with
  | OpTimestamp h => OpTimestamp (f h)
  | OpUtc h => OpUtc (f h)
  | OpOffset h => OpOffset (f h)
  | OpAdd h t => OpAdd (f h) t
  | OpAddR t h => OpAddR t (f h)
  | OpSubTs h t => OpSubTs (f h) t
  | OpDiff a b => OpDiff (f a) (f b)
  | OpCmp c a b => OpCmp c (f a) (f b)
  | OpDate h => OpDate (f h)
  | OpTime h => OpTime (f h)
  | OpField g h => OpField g (f h)
  | OpReplace h ry rm rd rh rmi rs rus ro => OpReplace (f h) ry rm rd rh rmi rs rus ro
  | OpFormatIso h => OpFormatIso (f h)
  | _ => o
  end.

(* values a host may pass: readings inside years 1..9999, offsets strictly inside (-24h, 24h) *)
Definition valid_off (o : Z) : bool := (- US_DAY <? o) && (o <? US_DAY).
Definition valid_adt (d : adt) : bool := in_range (wall d) && valid_off (off d).
Definition valid_hdt (h : hdt) : bool := match h with Naive w => in_range w | Aware d => valid_adt d end.
