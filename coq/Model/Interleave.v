(* Generic interleaving model (C18): threads that share a read-only region and own private regions.
   A step of thread i is any function of (shared region, its own private region) that returns its
   new private region - this is the footprint discipline; that yaql's evaluation obeys it is the
   content of the frame theorems of Lemmas/EvalFrame.v (writes go only to contexts the evaluation
   allocated itself) and is monitored on the implementation by harness/props/c18.py.
   No proofs in this file. *)
From Coq Require Import List Arith.
Import ListNotations.

Section Interleave.
  Variables (S P : Type).
  Variable tstep : nat -> S -> P -> P.

  Definition iworld := (S * (nat -> P))%type.
  Definition iupd (f : nat -> P) (i : nat) (v : P) : nat -> P := fun j => if Nat.eqb j i then v else f j.
  Definition istep (w : iworld) (i : nat) : iworld := (fst w, iupd (snd w) i (tstep i (fst w) (snd w i))).
  Definition irun (w : iworld) (sched : list nat) : iworld := fold_left istep sched w.
  Fixpoint iiter (n : nat) (i : nat) (s : S) (p : P) : P :=
    match n with O => p | Datatypes.S k => iiter k i s (tstep i s p) end.
End Interleave.
