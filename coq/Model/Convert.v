(* Model of yaql/language/utils.py: convert_input_data, convert_output_data
   (the '#finalize' conversion, yaql/__init__.py) and of Python's hashability
   rule on the values involved.

   Value universe: host (mutable) and frozen containers are DISTINCT constructors.
   Dicts are association lists in insertion order, sets are lists in the
   iteration order of the Python object, strings are code-point lists, a float is
   an opaque tag (index into the harness' table of non-integral finite floats; it
   is only ever copied).  [VIter] is a one-shot iterator / generator / map /
   filter object (its remaining elements), [VView k kvs] is a KeysView /
   ValuesView / ItemsView (or dict_keys/...) over a mapping with items [kvs],
   [VOrd l] is queries.OrderingIterable (re-iterable, neither list nor tuple)
   yielding [l].

   No proofs in this file. *)
From Coq Require Import List ZArith Bool.
From YV Require Import Common.Corr.
Import ListNotations.

Inductive vkind := KKeys | KValues | KItems.

Inductive val :=
| VNull
| VBool (b : bool)
| VInt (z : Z)
| VFloat (tag : Z)
| VStr (s : str)
| VTuple (l : list val)
| VList (l : list val)
| VFDict (kvs : list (val * val))      (* utils.FrozenDict *)
| VDict (kvs : list (val * val))       (* dict *)
| VFSet (l : list val)                 (* frozenset *)
| VSet (l : list val)                  (* set *)
| VIter (l : list val)
| VView (k : vkind) (kvs : list (val * val))
| VOrd (l : list val).

Inductive err := PyType.                (* TypeError: unhashable type *)
Inductive res (A : Type) := Ok (a : A) | Err (e : err).
Arguments Ok {A} a.
Arguments Err {A} e.

(* yaql.convertTuplesToLists (default true), yaql.convertSetsToLists (default false) *)
Record opts := { t2l : bool; s2l : bool }.
Definition default_opts := {| t2l := true; s2l := false |}.

Definition is_scalar (v : val) : bool :=
  match v with VNull | VBool _ | VInt _ | VFloat _ | VStr _ => true | _ => false end.

(* ---- Python's hash(): which values can be dict keys / set elements ------- *)
(* list/dict/set: __hash__ is None.  tuple: hashes its elements.  frozenset:
   hashes the element hashes (elements of a real frozenset are hashable anyway).
   FrozenDict.__hash__ (utils.py): xor of hash((key, value)) over the items.
   Iterators, generators, OrderingIterable, ValuesView: object identity hash.
   KeysView / ItemsView (and dict_keys / dict_items): collections.abc.Set
   defines __eq__ without __hash__, so they are unhashable. *)
Fixpoint hashable (v : val) : bool :=
  match v with
  | VNull | VBool _ | VInt _ | VFloat _ | VStr _ => true
  | VTuple l => forallb hashable l
  | VList _ => false
  | VFDict kvs => forallb (fun kv => hashable (fst kv) && hashable (snd kv)) kvs
  | VDict _ => false
  | VFSet l => forallb hashable l
  | VSet _ => false
  | VIter _ => true
  | VView k _ => match k with KValues => true | _ => false end
  | VOrd _ => true
  end.

(* ---- Python == on the values that can meet as keys / elements ------------- *)
(* True == 1, False == 0; floats of the harness table are non-integral, so a
   float equals only itself; objects hashed by identity equal nothing else
   (every occurrence in a value tree is a different object).  Exact on scalars
   and tuples of such - the only hashable results of convert_output. *)
Section ListEq.
  Variable eqb : val -> val -> bool.
  Fixpoint vlist_eqb (a b : list val) : bool :=
    match a, b with
    | [], [] => true
    | x :: a', y :: b' => eqb x y && vlist_eqb a' b'
    | _, _ => false
    end.
  Fixpoint kvlist_eqb (a b : list (val * val)) : bool :=
    match a, b with
    | [], [] => true
    | x :: a', y :: b' => eqb (fst x) (fst y) && eqb (snd x) (snd y) && kvlist_eqb a' b'
    | _, _ => false
    end.
End ListEq.

Definition bool_z (b : bool) : Z := if b then 1%Z else 0%Z.

Fixpoint py_eqb (a b : val) : bool :=
  match a, b with
  | VNull, VNull => true
  | VBool x, VBool y => Bool.eqb x y
  | VBool x, VInt y => Z.eqb (bool_z x) y
  | VInt x, VBool y => Z.eqb x (bool_z y)
  | VInt x, VInt y => Z.eqb x y
  | VFloat x, VFloat y => Z.eqb x y
  | VStr x, VStr y => str_eqb x y
  | VTuple x, VTuple y => vlist_eqb py_eqb x y
  | VList x, VList y => vlist_eqb py_eqb x y
  | VFDict x, VFDict y => kvlist_eqb py_eqb x y
  | VDict x, VDict y => kvlist_eqb py_eqb x y
  | VFDict x, VDict y => kvlist_eqb py_eqb x y
  | VDict x, VFDict y => kvlist_eqb py_eqb x y
  | VFSet x, VFSet y => vlist_eqb py_eqb x y
  | VSet x, VSet y => vlist_eqb py_eqb x y
  | VFSet x, VSet y => vlist_eqb py_eqb x y
  | VSet x, VFSet y => vlist_eqb py_eqb x y
  | _, _ => false
  end.

(* d[k] = v : an equal key keeps its position and the OLD key object *)
Fixpoint dict_set (kvs : list (val * val)) (k v : val) : list (val * val) :=
  match kvs with
  | [] => [(k, v)]
  | kv :: r => if py_eqb (fst kv) k then (fst kv, v) :: r else kv :: dict_set r k v
  end.
(* dict(pairs) *)
Definition dict_of (ps : list (val * val)) : list (val * val) :=
  fold_left (fun acc p => dict_set acc (fst p) (snd p)) ps [].

Definition set_add (l : list val) (x : val) : list val :=
  if existsb (fun y => py_eqb y x) l then l else l ++ [x].
(* set(xs) / frozenset(xs) *)
Definition set_of (xs : list val) : list val := fold_left set_add xs [].

(* ---- convert_input_data (utils.py:67-82) ---------------------------------- *)
(* branch order: str, Sequence -> tuple, Mapping -> FrozenDict, MutableSet ->
   frozenset, any other Iterable -> lazy map object (this is where frozensets,
   dict views, generators and ordering objects go), else the object itself *)
Fixpoint convert_input (v : val) : val :=
  match v with
  | VNull | VBool _ | VInt _ | VFloat _ | VStr _ => v
  | VTuple l => VTuple (map convert_input l)
  | VList l => VTuple (map convert_input l)
  | VFDict kvs => VFDict (dict_of (map (fun kv => (convert_input (fst kv), convert_input (snd kv))) kvs))
  | VDict kvs => VFDict (dict_of (map (fun kv => (convert_input (fst kv), convert_input (snd kv))) kvs))
  | VSet l => VFSet (set_of (map convert_input l))
  | VFSet l => VIter (map convert_input l)
  | VIter l => VIter (map convert_input l)
  | VOrd l => VIter (map convert_input l)
  | VView KKeys kvs => VIter (map (fun kv => convert_input (fst kv)) kvs)
  | VView KValues kvs => VIter (map (fun kv => convert_input (snd kv)) kvs)
  | VView KItems kvs => VIter (map (fun kv => VTuple [convert_input (fst kv); convert_input (snd kv)]) kvs)
  end.

(* ---- convert_output_data (utils.py:85-113) -------------------------------- *)
Section MapM.
  Variables (A B : Type) (f : A -> res B).
  Fixpoint mapM (l : list A) : res (list B) :=
    match l with
    | [] => Ok []
    | x :: r => match f x with
                | Err e => Err e
                | Ok y => match mapM r with Err e => Err e | Ok ys => Ok (y :: ys) end
                end
    end.
End MapM.
Arguments mapM {A B} f l.

(* result = {}; result[k] = v ... : TypeError at the first unhashable key *)
Definition build_dict (ps : list (val * val)) : res val :=
  if forallb (fun p => hashable (fst p)) ps then Ok (VDict (dict_of ps)) else Err PyType.
(* set(generator) *)
Definition build_set (xs : list val) : res val :=
  if forallb hashable xs then Ok (VSet (set_of xs)) else Err PyType.

Definition seq_out (o : opts) (tuple_in : bool) (xs : list val) : val :=
  if tuple_in && negb (t2l o) then VTuple xs else VList xs.

(* branch order of the code: Mapping, Set (mapping views excepted: they are
   plain iterables), tuple/list, any other iterable, leaf.  Keys, values and
   elements are converted recursively.  (There is one error class, so the
   interleaving of conversions and insertions cannot be observed.) *)
Fixpoint convert_output (o : opts) (v : val) : res val :=
  let pair := fun kv : val * val =>
    match convert_output o (fst kv) with
    | Err e => Err e
    | Ok ck => match convert_output o (snd kv) with Err e => Err e | Ok cv => Ok (ck, cv) end
    end in
  let mapping := fun kvs : list (val * val) =>
    match mapM pair kvs with Err e => Err e | Ok ps => build_dict ps end in
  let setlike := fun l : list val =>
    match mapM (convert_output o) l with
    | Err e => Err e
    | Ok xs => if s2l o then Ok (VList xs) else build_set xs
    end in
  let listlike := fun (tuple_in : bool) (l : list val) =>
    match mapM (convert_output o) l with Err e => Err e | Ok xs => Ok (seq_out o tuple_in xs) end in
  match v with
  | VNull | VBool _ | VInt _ | VFloat _ | VStr _ => Ok v
  | VFDict kvs => mapping kvs
  | VDict kvs => mapping kvs
  | VFSet l => setlike l
  | VSet l => setlike l
  | VTuple l => listlike true l
  | VList l => listlike false l
  | VIter l => listlike false l
  | VOrd l => listlike false l
  | VView KKeys kvs =>
      match mapM (fun kv => convert_output o (fst kv)) kvs with Err e => Err e | Ok xs => Ok (VList xs) end
  | VView KValues kvs =>
      match mapM (fun kv => convert_output o (snd kv)) kvs with Err e => Err e | Ok xs => Ok (VList xs) end
  | VView KItems kvs =>
      match mapM (fun kv => match pair kv with Err e => Err e
                                          | Ok p => Ok (seq_out o true [fst p; snd p]) end) kvs with
      | Err e => Err e
      | Ok xs => Ok (VList xs)
      end
  end.

(* ---- the property's predicates (decidable) --------------------------------- *)
(* plain data under options o: dict, list, tuple iff not t2l, set iff not s2l,
   scalar leaves - at every depth, keys included *)
Fixpoint plainb (o : opts) (r : val) : bool :=
  match r with
  | VNull | VBool _ | VInt _ | VFloat _ | VStr _ => true
  | VDict kvs => forallb (fun kv => plainb o (fst kv) && plainb o (snd kv)) kvs
  | VList l => forallb (plainb o) l
  | VTuple l => negb (t2l o) && forallb (plainb o) l
  | VSet l => negb (s2l o) && forallb (plainb o) l
  | VFDict _ | VFSet _ | VIter _ | VView _ _ | VOrd _ => false
  end.

(* no mutable container anywhere (what convert_input produces) *)
Fixpoint frozenb (v : val) : bool :=
  match v with
  | VNull | VBool _ | VInt _ | VFloat _ | VStr _ => true
  | VTuple l => forallb frozenb l
  | VFDict kvs => forallb (fun kv => frozenb (fst kv) && frozenb (snd kv)) kvs
  | VFSet l => forallb frozenb l
  | VIter l => forallb frozenb l
  | VList _ | VDict _ | VSet _ | VView _ _ | VOrd _ => false
  end.

(* the converted form of v is hashable: v is a scalar, or a tuple of such values
   that stays a tuple *)
Fixpoint key_ok (o : opts) (v : val) : bool :=
  match v with
  | VNull | VBool _ | VInt _ | VFloat _ | VStr _ => true
  | VTuple l => negb (t2l o) && forallb (key_ok o) l
  | _ => false
  end.

(* exact guard for success of convert_output: every dict key, and every set
   element when sets stay sets, converts to something hashable *)
Fixpoint guard (o : opts) (v : val) : bool :=
  match v with
  | VNull | VBool _ | VInt _ | VFloat _ | VStr _ => true
  | VTuple l => forallb (guard o) l
  | VList l => forallb (guard o) l
  | VIter l => forallb (guard o) l
  | VOrd l => forallb (guard o) l
  | VFDict kvs => forallb (fun kv => guard o (fst kv) && guard o (snd kv) && key_ok o (fst kv)) kvs
  | VDict kvs => forallb (fun kv => guard o (fst kv) && guard o (snd kv) && key_ok o (fst kv)) kvs
  | VFSet l => forallb (fun x => guard o x && (s2l o || key_ok o x)) l
  | VSet l => forallb (fun x => guard o x && (s2l o || key_ok o x)) l
  | VView KKeys kvs => forallb (fun kv => guard o (fst kv)) kvs
  | VView KValues kvs => forallb (fun kv => guard o (snd kv)) kvs
  | VView KItems kvs => forallb (fun kv => guard o (fst kv) && guard o (snd kv)) kvs
  end.

(* JSON-like documents "and tuples, sets and generators of such": scalar keys,
   pairwise different (Python ==) keys and set elements, set elements scalar *)
Fixpoint nodupb (l : list val) : bool :=
  match l with [] => true | x :: r => negb (existsb (fun y => py_eqb x y) r) && nodupb r end.

Fixpoint jsonlike (v : val) : bool :=
  match v with
  | VNull | VBool _ | VInt _ | VFloat _ | VStr _ => true
  | VList l => forallb jsonlike l
  | VTuple l => forallb jsonlike l
  | VIter l => forallb jsonlike l
  | VDict kvs => forallb (fun kv => is_scalar (fst kv) && jsonlike (snd kv)) kvs && nodupb (map fst kvs)
  | VSet l => forallb is_scalar l && nodupb l
  | _ => false
  end.

(* the canonical form a document comes back in *)
Fixpoint canon (o : opts) (v : val) : val :=
  match v with
  | VList l => seq_out o true (map (canon o) l)       (* lists travel as tuples *)
  | VTuple l => seq_out o true (map (canon o) l)
  | VIter l => VList (map (canon o) l)
  | VDict kvs => VDict (map (fun kv => (fst kv, canon o (snd kv))) kvs)
  | VSet l => if s2l o then VList l else VSet l
  | _ => v
  end.

(* ---- correspondence --------------------------------------------------------- *)
(* similarity of observations: structural, dict items in order, set elements up
   to permutation (iteration order of a set is not an observation) *)

Fixpoint sim (a b : val) : bool :=
  match a, b with
  | VNull, VNull => true
  | VBool x, VBool y => Bool.eqb x y
  | VInt x, VInt y => Z.eqb x y
  | VFloat x, VFloat y => Z.eqb x y
  | VStr x, VStr y => str_eqb x y
  | VTuple x, VTuple y => vlist_eqb sim x y
  | VList x, VList y => vlist_eqb sim x y
  | VIter x, VIter y => vlist_eqb sim x y
  | VOrd x, VOrd y => vlist_eqb sim x y
  | VFDict x, VFDict y => kvlist_eqb sim x y
  | VDict x, VDict y => kvlist_eqb sim x y
  | VView k x, VView k' y =>
      match k, k' with KKeys, KKeys | KValues, KValues | KItems, KItems => kvlist_eqb sim x y | _, _ => false end
  | VFSet x, VFSet y => Nat.eqb (length x) (length y) && forallb (fun p => existsb (fun q => sim p q) y) x
      && forallb (fun q => existsb (fun p => sim p q) x) y
  | VSet x, VSet y => Nat.eqb (length x) (length y) && forallb (fun p => existsb (fun q => sim p q) y) x
      && forallb (fun q => existsb (fun p => sim p q) x) y
  | _, _ => false
  end.

Inductive obs := OVal (v : val) | OErr (e : err) | OOther.   (* OOther: any other exception class *)

Definition obs_sim (r : res val) (x : obs) : bool :=
  match r, x with
  | Ok v, OVal w => sim v w
  | Err PyType, OErr PyType => true
  | _, _ => false
  end.

(* what the harness ran:
   KOut    utils.convert_output_data(c_in)                         (c_mid unused)
   KIn     utils.convert_input_data(c_in)                          (c_mid unused)
   KDollar engine('$').evaluate(data=c_in); c_mid is the value convert_input_data
           returned on an identical object (fixes the iteration order of the
           frozensets it built)
   KHash   hash(c_in) succeeded?  observed as OVal (VBool _) *)
Inductive ckind := KOut | KIn | KDollar | KHash.
Record case := { c_kind : ckind; c_opts : opts; c_in : val; c_mid : val; c_obs : obs }.

Definition case_ok (c : case) : bool :=
  match c_kind c with
  | KOut => obs_sim (convert_output (c_opts c) (c_in c)) (c_obs c)
  | KIn => obs_sim (Ok (convert_input (c_in c))) (c_obs c)
  | KDollar => sim (convert_input (c_in c)) (c_mid c)
               && obs_sim (convert_output (c_opts c) (c_mid c)) (c_obs c)
  | KHash => obs_sim (Ok (VBool (hashable (c_in c)))) (c_obs c)
  end.
