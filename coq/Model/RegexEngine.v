(* A backtracking matcher for the pattern language of the generated regex family:
   literals, `.`, classes `[ab]` / `[^a]`, `^`, `$`, concatenation, alternation, capturing
   (numbered / named) and non-capturing groups, repeats `?` `*` `+` `{m,n}` greedy and lazy,
   with the ignoreCase / multiLine / dotAll flags on ASCII text.

   Semantics: CPython's sre - leftmost start, ordered alternation, greedy (or lazy)
   backtracking repeats with sre's zero-width-iteration protection (an iteration is not
   attempted from the position at which the previous attempt of the same loop started),
   captures of earlier iterations are kept, captures of failed attempts are undone, and the
   scanner protocol of finditer / sub / split (after an empty match the next match at the
   same position must be non-empty).

   The matcher is defunctionalised: the continuation is a stack of frames, and [run] is one
   recursion on fuel.  Result: None = out of fuel, Some None = no match, Some (Some x).

   No proofs in this file. *)
From Coq Require Import List ZArith Bool Arith.
From YV Require Import Common.Corr Model.Strings Model.Regex.
Import ListNotations.

Inductive re :=
| Eps
| Chr (c : Z)
| Any
| Cls (neg : bool) (cs : list Z)
| Bol
| Eol
| Seq (a b : re)
| Alt (a b : re)
| Rep (r : re) (mn : nat) (mx : option nat) (greedy : bool)
| Grp (idx : nat) (r : re).          (* capturing group number idx >= 1 *)

Record flags := { ignore_case : bool; multi_line : bool; dot_all : bool }.

(* a compiled pattern: the tree, the number of groups, the name -> group number table *)
Record pattern := { p_re : re; p_groups : nat; p_names : list (str * nat) }.

(* ---- positions ---------------------------------------------------------------- *)
(* position, the character before it, the rest of the subject *)
Record mpos := { pos : nat; prev : option Z; rest : str }.

Definition advance (st : mpos) : option (Z * mpos) :=
  match rest st with
  | [] => None
  | x :: r => Some (x, {| pos := S (pos st); prev := Some x; rest := r |})
  end.

Definition nl : Z := 10%Z.
Definition fold_c (c : Z) : Z := lower_c c.      (* ASCII case folding *)

Definition chr_eq (fl : flags) (c x : Z) : bool :=
  if ignore_case fl then Z.eqb (fold_c c) (fold_c x) else Z.eqb c x.

Definition cls_mem (fl : flags) (cs : list Z) (x : Z) : bool := existsb (fun c => chr_eq fl c x) cs.

Definition at_bol (fl : flags) (st : mpos) : bool :=
  match prev st with
  | None => true
  | Some c => multi_line fl && Z.eqb c nl
  end.

Definition at_eol (fl : flags) (st : mpos) : bool :=
  match rest st with
  | [] => true
  | c :: r => Z.eqb c nl && (multi_line fl || match r with [] => true | _ => false end)
  end.

(* ---- captures ------------------------------------------------------------------ *)
Definition caps := list (option (nat * nat)).       (* group i is element i-1 *)

Fixpoint set_nth {A} (n : nat) (v : A) (l : list A) : list A :=
  match l, n with
  | [], _ => []
  | _ :: r, O => v :: r
  | x :: r, S n' => x :: set_nth n' v r
  end.

Definition set_cap (c : caps) (idx : nat) (sp : nat * nat) : caps :=
  match idx with O => c | S i => set_nth i (Some sp) c end.

(* ---- the matcher ------------------------------------------------------------------ *)
Inductive frame :=
| FRe (r : re)
| FClose (idx : nat) (start : nat)
| FUntil (r : re) (mn : nat) (mx : option nat) (greedy : bool) (count : nat) (last : option nat).

Definition below (count : nat) (mx : option nat) : bool :=
  match mx with None => true | Some m => Nat.ltb count m end.
Definition moved (last : option nat) (p : nat) : bool :=
  match last with None => true | Some q => negb (Nat.eqb q p) end.

Definition outcome := option (option (nat * caps)).
Definition failed : outcome := Some None.

(* try [a]; on failure [b] *)
Definition orelse (a : outcome) (b : unit -> outcome) : outcome :=
  match a with Some None => b tt | o => o end.

(* [must_adv]: a match that ends where the scan started is rejected (sre's must_advance) *)
Fixpoint run (fuel : nat) (fl : flags) (must_adv : bool) (start : nat)
             (k : list frame) (st : mpos) (c : caps) {struct fuel} : outcome :=
  match fuel with
  | O => None
  | S f =>
    match k with
    | [] => if must_adv && Nat.eqb (pos st) start then failed else Some (Some (pos st, c))
    | FClose idx s0 :: k' => run f fl must_adv start k' st (set_cap c idx (s0, pos st))
    | FUntil r mn mx g count last :: k' =>
        let again lastp := run f fl must_adv start (FRe r :: FUntil r mn mx g (S count) lastp :: k') st c in
        if Nat.ltb count mn then again last
        else
          let more := below count mx && moved last (pos st) in
          if g then
            if more then orelse (again (Some (pos st))) (fun _ => run f fl must_adv start k' st c)
            else run f fl must_adv start k' st c
          else
            orelse (run f fl must_adv start k' st c)
                   (fun _ => if more then again (Some (pos st)) else failed)
    | FRe r :: k' =>
        match r with
        | Eps => run f fl must_adv start k' st c
        | Chr ch =>
            match advance st with
            | Some (x, st') => if chr_eq fl ch x then run f fl must_adv start k' st' c else failed
            | None => failed
            end
        | Any =>
            match advance st with
            | Some (x, st') => if dot_all fl || negb (Z.eqb x nl) then run f fl must_adv start k' st' c else failed
            | None => failed
            end
        | Cls neg cs =>
            match advance st with
            | Some (x, st') => if xorb neg (cls_mem fl cs x) then run f fl must_adv start k' st' c else failed
            | None => failed
            end
        | Bol => if at_bol fl st then run f fl must_adv start k' st c else failed
        | Eol => if at_eol fl st then run f fl must_adv start k' st c else failed
        | Seq a b => run f fl must_adv start (FRe a :: FRe b :: k') st c
        | Alt a b => orelse (run f fl must_adv start (FRe a :: k') st c)
                            (fun _ => run f fl must_adv start (FRe b :: k') st c)
        | Rep r' mn mx g => run f fl must_adv start (FUntil r' mn mx g O None :: k') st c
        | Grp idx r' => run f fl must_adv start (FRe r' :: FClose idx (pos st) :: k') st c
        end
    end
  end.

(* one anchored attempt at a position: fresh captures *)
Definition attempt (fuel : nat) (fl : flags) (p : pattern) (must_adv : bool) (st : mpos) : outcome :=
  run fuel fl must_adv (pos st) [FRe (p_re p)] st (repeat None (p_groups p)).

(* leftmost match at or after a position; must_adv only constrains the first position.
   Structural on the rest of the subject.  Result: (start, end, captures). *)
Definition found := option (option (nat * nat * caps)).

Fixpoint scan (fuel : nat) (fl : flags) (p : pattern) (must_adv : bool) (ps : nat) (pv : option Z) (rs : str) : found :=
  match attempt fuel fl p must_adv {| pos := ps; prev := pv; rest := rs |} with
  | None => None
  | Some (Some (e, c)) => Some (Some (ps, e, c))
  | Some None =>
      match rs with
      | [] => Some None
      | x :: r => scan fuel fl p false (S ps) (Some x) r
      end
  end.

(* drop n characters, remembering the last one dropped *)
Fixpoint seek (n : nat) (pv : option Z) (rs : str) : option Z * str :=
  match n, rs with
  | S n', x :: r => seek n' (Some x) r
  | _, _ => (pv, rs)
  end.

(* finditer / sub / split: [gas] bounds the number of matches (2 * length + 3 suffices) *)
Fixpoint find_all_go (gas fuel : nat) (fl : flags) (p : pattern) (s : str) (from : nat) (must_adv : bool)
  : option (list (nat * nat * caps)) :=
  match gas with
  | O => None
  | S g =>
      let '(pv, rs) := seek from None s in
      match scan fuel fl p must_adv from pv rs with
      | None => None
      | Some None => Some []
      | Some (Some (b, e, c)) =>
          match find_all_go g fuel fl p s e (Nat.eqb b e) with
          | None => None
          | Some l => Some ((b, e, c) :: l)
          end
      end
  end.

Definition find_all (fuel : nat) (fl : flags) (p : pattern) (s : str) : option (list (nat * nat * caps)) :=
  find_all_go (2 * length s + 3) fuel fl p s 0 false.

Definition find_first (fuel : nat) (fl : flags) (p : pattern) (s : str) : found :=
  scan fuel fl p false 0 None s.

(* ---- match records (what re.Match reports) -------------------------------------------------- *)
Definition slice_nat (s : str) (b e : nat) : str := firstn (e - b) (skipn b s).

Definition cap_rec (s : str) (cp : option (nat * nat)) : grec :=
  match cp with
  | Some (b, e) => (Some (slice_nat s b e), Z.of_nat b, Z.of_nat e)
  | None => none_rec
  end.

Definition to_mrec (p : pattern) (s : str) (m : nat * nat * caps) : mrec :=
  let '(b, e, c) := m in
  {| m_whole := cap_rec s (Some (b, e)); m_groups := map (cap_rec s) c; m_named := p_names p |}.

Definition engine_search (fuel : nat) (fl : flags) (p : pattern) (s : str) : option (option mrec) :=
  match find_first fuel fl p s with
  | None => None
  | Some None => Some None
  | Some (Some m) => Some (Some (to_mrec p s m))
  end.

Definition engine_finditer (fuel : nat) (fl : flags) (p : pattern) (s : str) : option (list mrec) :=
  match find_all fuel fl p s with
  | None => None
  | Some l => Some (map (to_mrec p s) l)
  end.

(* ---- the yaql functions on top of the modelled engine ------------------------------------------ *)
Inductive eop :=
| EMatches
| ESearch (sel : option (list vkey))
| ESearchAll (sel : option (list vkey))
| EReplaceBy (items : list ritem) (cnt : Z)
| EReplaceLit (repl : str) (cnt : Z)
| ESplit (cnt : Z)
| ESearchLazy (sel : lsel)
| ESearchAllLazy (sel : lsel) (c : consumer).

Definition needs_all (op : eop) : bool :=
  match op with EMatches | ESearch _ | ESearchLazy _ => false | _ => true end.

Definition to_rcall (op : eop) (s : str) (first : option mrec) (all : list mrec) : rcall :=
  match op with
  | EMatches => RMatches first
  | ESearch sel => RSearch first sel
  | ESearchAll sel => RSearchAll all sel
  | EReplaceBy items cnt => RReplaceBy s all items cnt
  | EReplaceLit repl cnt => RReplaceLit s all repl cnt
  | ESplit cnt => RSplit s all cnt
  | ESearchLazy sel => RSearchLazy first sel
  | ESearchAllLazy sel c => RSearchAllLazy all sel c
  end.

Definition eeval (fuel : nat) (fl : flags) (p : pattern) (s : str) (op : eop) : option rres :=
  if needs_all op then
    match engine_finditer fuel fl p s with
    | Some all => Some (reval (to_rcall op s None all))
    | None => None
    end
  else
    match engine_search fuel fl p s with
    | Some first => Some (reval (to_rcall op s first []))
    | None => None
    end.

(* ---- correspondence ----------------------------------------------------------------------------- *)
Definition big_fuel : nat := Z.to_nat 400000.

(* engine vs CPython re: all matches of finditer, as match records *)
Record mcase := { mc_fl : flags; mc_p : pattern; mc_s : str; mc_obs : list mrec }.

Definition mrec_eqb (a b : mrec) : bool :=
  grec_eqb (m_whole a) (m_whole b) && list_eqb grec_eqb (m_groups a) (m_groups b)
  && list_eqb (pair_eqb str_eqb Nat.eqb) (m_named a) (m_named b).

Definition mcase_ok (c : mcase) : bool :=
  match engine_finditer big_fuel (mc_fl c) (mc_p c) (mc_s c) with
  | Some l => list_eqb mrec_eqb l (mc_obs c)
  | None => false
  end.

(* yaql on the modelled engine vs yaql on re *)
Record ecase := { ec_fl : flags; ec_p : pattern; ec_s : str; ec_op : eop; ec_obs : rres }.

Definition ecase_ok (c : ecase) : bool :=
  match eeval big_fuel (ec_fl c) (ec_p c) (ec_s c) (ec_op c) with
  | Some r => rres_eqb r (ec_obs c)
  | None => false
  end.

(* did the fuel suffice?  (cases on which it did not fall back to the re oracle and are counted) *)
Definition ecase_fuel_ok (c : ecase) : bool :=
  match eeval big_fuel (ec_fl c) (ec_p c) (ec_s c) (ec_op c) with Some _ => true | None => false end.
Definition mcase_fuel_ok (c : mcase) : bool :=
  match engine_finditer big_fuel (mc_fl c) (mc_p c) (mc_s c) with Some _ => true | None => false end.
