(* C01 correspondence instance in which the tokenizer is the lexer MODEL of C03/C16 (Model/Lexer.v with the
   configuration regenerated from /repo), instead of a table recorded from solo parses: one evaluation of ply's
   token() on the cursor fields (data, pos, len) = the first token of [lex] on the first len code points of data that
   starts at or after pos.  The LR automaton stays abstract: the number of fetches each call makes is taken from the
   real parser.  No proofs in this file. *)
From Coq Require Import List ZArith Bool Arith.
From YV Require Import Common.Corr Model.Lexer Model.LexerState.
Import ListNotations.

Definition lexfun_real (d : list Z) (p len : nat) : fetch Lexer.token :=
  let '(toks, e) := Lexer.lex (Lexer.default_cfg (fun _ => None)) (firstn len d) in
  match find (fun t => Nat.leb p (Lexer.tk_pos t)) toks with
  | Some t => FTok t (Lexer.tk_pos t + Lexer.tk_len t)
  | None => match e with Lexer.EndOk => FEof | _ => FErr end
  end.

Definition rr_pst := (nat * list (bool * nat))%type.
Definition rr_step (s : rr_pst) (f : fetch Lexer.token) : rr_pst + list (bool * nat) :=
  let '(n, tr) := s in
  let tr' := match f with FTok _ p' => (false, p') :: tr | FEof => (true, 0%nat) :: tr | FErr => (true, 1%nat) :: tr end in
  match n with
  | O | S O => inr (rev tr')
  | S k => inl (k, tr')
  end.

Record c01r_case := {
  r_fetches : list (list Z * nat);      (* per text: number of fetches of its solo parse *)
  r_threads : list (list Z);            (* text parsed by call i *)
  r_sched : list nat;
  r_priv : bool;
  r_obs : list (list (bool * nat))
}.

Fixpoint fetches_of_text (l : list (list Z * nat)) (t : list Z) : nat :=
  match l with [] => 1%nat | (t', n) :: r => if str_eqb t t' then n else fetches_of_text r t end.

Definition c01r_run (c : c01r_case) : list (list (bool * nat)) :=
  let pin (text : list Z) : rr_pst := (fetches_of_text (r_fetches c) text, []) in
  let init : world rr_pst (list (bool * nat)) :=
      (fresh_cells, fun i => match nth_error (r_threads c) i with Some t => NotStarted t | None => Done [] end) in
  let w := run_schedule Lexer.token rr_pst (list (bool * nat)) lexfun_real pin rr_step (r_priv c) init (r_sched c) in
  map (fun i => match snd w i with Done r => r | _ => [] end) (seq 0%nat (length (r_threads c))).

Definition c01r_case_ok (c : c01r_case) : bool := obs_eqb (c01r_run c) (r_obs c).
