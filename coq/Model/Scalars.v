(* C15 - scalar operators.  Executable model of
     - overload dispatch over the acceptance rows REGENERATED from the live registry
       (Gen/ScalarOps.v), transcribed from yaql/language/runner.py choose_overload;
     - the payloads of yaql/standard_library/{math,strings,common,boolean}.py and the
       repetition / membership / concatenation overloads of collections.py.
   Floats are a type parameter [F] with a record of operations [fops F]; theorems keep it
   abstract (Lemmas/Scalars*.v), the correspondence instantiates it with PrimFloat (end of
   this file).  No proofs in this file. *)
From Coq Require Import List ZArith Bool PrimFloat Uint63.
From YV Require Import Common.Corr.
Import ListNotations.

(* ------------------------------------------------------------------ kinds and operators *)
Inductive kind := KNull | KBool | KInt | KFloat | KStr
                | KList | KTuple | KDict | KSet | KDateTime | KTimespan.

Definition all_kinds : list kind :=
  [KNull; KBool; KInt; KFloat; KStr; KList; KTuple; KDict; KSet; KDateTime; KTimespan].
Definition scalar_kinds : list kind := [KNull; KBool; KInt; KFloat; KStr].

Definition kind_index (k : kind) : nat :=
  match k with
  | KNull => 0 | KBool => 1 | KInt => 2 | KFloat => 3 | KStr => 4 | KList => 5
  | KTuple => 6 | KDict => 7 | KSet => 8 | KDateTime => 9 | KTimespan => 10
  end.
Definition kind_eqb (a b : kind) : bool := Nat.eqb (kind_index a) (kind_index b).

Inductive op := OAdd | OSub | OMul | ODiv | OMod | OLt | OLe | OGt | OGe | OIn | OEq | ONeq
              | UPos | UNeg | UNot.
Definition binary_ops : list op := [OAdd; OSub; OMul; ODiv; OMod; OLt; OLe; OGt; OGe; OIn; OEq; ONeq].
Definition unary_ops : list op := [UPos; UNeg; UNot].
Definition all_ops : list op := binary_ops ++ unary_ops.
Definition arity (o : op) : nat := match o with UPos | UNeg | UNot => 1 | _ => 2 end.

Inductive cmpop := CLt | CLe | CGt | CGe.

(* engine/context configurations whose options touch dispatch: the default engine and
   context; an engine created with yaql.iterableDicts (dictionaries pass Iterable());
   the legacy factory (sets that option itself) with the legacy context *)
Inductive cfg := CDefault | CIterDicts | CLegacy
               | CQuota.   (* engine with yaql.memoryQuota and yaql.limitIterators set *)
Definition all_cfgs : list cfg := [CDefault; CIterDicts; CLegacy; CQuota].

(* payload tags: which Python function an overload runs (mapped by the generator from the
   function's module and qualified name; anything it does not know is POther) *)
Inductive tag :=
  | PNumAdd | PNumSub | PNumMul | PNumDiv | PNumMod | PNumPos | PNumNeg
  | PNumCmp (c : cmpop)
  | PStrCmp (c : cmpop) | PStrConcat | PStrRep | PRepStr | PStrIn
  | PEq | PNeq
  | PLeftNull (c : cmpop) | PNullRight (c : cmpop) | PNullNull (c : cmpop)
  | PNot
  | PSeqRep | PRepSeq | PCollIn | PSeqConcat
  | PSetCmp (c : cmpop) | PSetDiff | PDictAdd
  | POther (n : nat).

Definition cmpop_index (c : cmpop) : nat := match c with CLt => 0 | CLe => 1 | CGt => 2 | CGe => 3 end.
Definition tag_index (t : tag) : nat * nat :=
  match t with
  | PNumAdd => (0, 0) | PNumSub => (1, 0) | PNumMul => (2, 0) | PNumDiv => (3, 0) | PNumMod => (4, 0)
  | PNumPos => (5, 0) | PNumNeg => (6, 0) | PNumCmp c => (7, cmpop_index c)
  | PStrCmp c => (8, cmpop_index c) | PStrConcat => (9, 0) | PStrRep => (10, 0) | PRepStr => (11, 0)
  | PStrIn => (12, 0) | PEq => (13, 0) | PNeq => (14, 0)
  | PLeftNull c => (15, cmpop_index c) | PNullRight c => (16, cmpop_index c) | PNullNull c => (17, cmpop_index c)
  | PNot => (18, 0) | PSeqRep => (19, 0) | PRepSeq => (20, 0) | PCollIn => (21, 0) | PSeqConcat => (22, 0)
  | PSetCmp c => (24, cmpop_index c) | PSetDiff => (25, 0) | PDictAdd => (26, 0)
  | POther n => (23, n)
  end.
Definition tag_eqb (a b : tag) : bool :=
  Nat.eqb (fst (tag_index a)) (fst (tag_index b)) && Nat.eqb (snd (tag_index a)) (snd (tag_index b)).

(* ------------------------------------------------------------------ the regenerated table *)
(* one overload as the runner sees it for a call `$a OP $b` / `OP $a` *)
Record overload := {
  ov_id : nat;                  (* index inside its operator (for the specialization relation) *)
  ov_tag : tag;
  ov_maps : bool;               (* map_args on unevaluated variable expressions succeeds *)
  ov_nokw : bool;               (* FunctionDefinition.no_kwargs *)
  ov_lazy : list nat;           (* positions mapped to lazy parameter types (sorted) *)
  ov_rows : list (list bool)    (* per positional argument: value_type.check per kind, in all_kinds order *)
}.

Record optable := {
  ot_layers : list (list overload);       (* context layers, nearest first *)
  ot_spec : list (nat * nat)              (* (i, j): mapping of overload i is a specialization of mapping j *)
}.

Inductive dres := DPayload (t : tag) | DNoMatch | DAmbiguous.
Definition dres_eqb (a b : dres) : bool :=
  match a, b with
  | DPayload x, DPayload y => tag_eqb x y
  | DNoMatch, DNoMatch => true
  | DAmbiguous, DAmbiguous => true
  | _, _ => false
  end.

Definition natlist_eqb := list_eqb Nat.eqb.

(* runner.choose_overload: all candidates of all layers must agree on no_kwargs; first
   loop: candidates whose map_args succeeds, all of which must agree on the set of lazy
   positions.  None = AmbiguousFunctionException. *)
Fixpoint p1_level (lz : option (list nat)) (l : list overload)
  : option (option (list nat) * list overload) :=
  match l with
  | [] => Some (lz, [])
  | c :: r =>
    if negb (ov_maps c) then p1_level lz r else
    let lz_ok := match lz with None => true | Some z => natlist_eqb z (ov_lazy c) end in
    if negb lz_ok then None else
    match p1_level (Some (match lz with None => ov_lazy c | Some z => z end)) r with
    | None => None
    | Some (b, l') => Some (b, c :: l')
    end
  end.

Fixpoint p1_layers (lz : option (list nat)) (ls : list (list overload))
  : option (list (list overload)) :=
  match ls with
  | [] => Some []
  | l :: r =>
    match p1_level lz l with
    | None => None
    | Some (lz', l') =>
      match p1_layers lz' r with
      | None => None
      | Some r' => Some (match l' with [] => r' | _ => l' :: r' end)
      end
    end
  end.

Definition nokw_agree (ls : list (list overload)) : bool :=
  match concat ls with
  | [] => true
  | c :: r => forallb (fun d => Bool.eqb (ov_nokw c) (ov_nokw d)) r
  end.

Definition row_accepts (row : list bool) (k : kind) : bool := nth (kind_index k) row false.

Fixpoint rows_accept (rows : list (list bool)) (ks : list kind) : bool :=
  match rows, ks with
  | [], [] => true
  | row :: rows', k :: ks' => row_accepts row k && rows_accept rows' ks'
  | _, _ => false
  end.

(* get_delegate succeeds (no ArgumentException) on evaluated arguments of these kinds *)
Definition accepts (c : overload) (ks : list kind) : bool := rows_accept (ov_rows c) ks.

Definition is_spec (spec : list (nat * nat)) (a b : overload) : bool :=
  existsb (fun p => Nat.eqb (fst p) (ov_id a) && Nat.eqb (snd p) (ov_id b)) spec.

(* second loop, one layer: the winner is the accepting overload whose mapping is a
   specialization of the mapping of every other accepting overload; there must be exactly
   one.  None = ambiguous, Some None = nothing accepts *)
Definition p2_level (spec : list (nat * nat)) (ks : list kind) (l : list overload)
  : option (option overload) :=
  let ms := filter (fun c => accepts c ks) l in
  match ms with
  | [] => Some None
  | _ =>
    match filter (fun c => forallb (fun o => Nat.eqb (ov_id o) (ov_id c) || is_spec spec c o) ms) ms with
    | [w] => Some (Some w)
    | _ => None
    end
  end.

Fixpoint p2_layers (spec : list (nat * nat)) (ks : list kind) (ls : list (list overload)) : dres :=
  match ls with
  | [] => DNoMatch
  | l :: r =>
    match p2_level spec ks l with
    | None => DAmbiguous
    | Some (Some c) => DPayload (ov_tag c)
    | Some None => p2_layers spec ks r
    end
  end.

Definition dispatch (t : optable) (ks : list kind) : dres :=
  if negb (nokw_agree (ot_layers t)) then DAmbiguous else
  match p1_layers None (ot_layers t) with
  | None => DAmbiguous
  | Some ls => p2_layers (ot_spec t) ks ls
  end.

(* every overload that would accept (used to state that resolution here never depends on order) *)
Definition acceptors (t : optable) (ks : list kind) : list tag :=
  map ov_tag (filter (fun c => ov_maps c && accepts c ks) (concat (ot_layers t))).

(* ------------------------------------------------------------------ values *)
Inductive err := ENoMatch | EAmbiguous | EZeroDiv | EResource | EUnmodelled.
Definition err_index (e : err) : nat :=
  match e with ENoMatch => 0 | EAmbiguous => 1 | EZeroDiv => 2 | EResource => 3 | EUnmodelled => 4 end.
Definition err_eqb (a b : err) : bool := Nat.eqb (err_index a) (err_index b).

Section Values.
Variable F : Type.

Inductive val := VNull | VBool (b : bool) | VInt (z : Z) | VFloat (f : F) | VStr (s : list Z)
               | VList (l : list Z) | VTuple (l : list Z)
               | VSet (l : list Z)               (* set / frozenset of integers, as a list (any order) *)
               | VDict (d : list (Z * Z))        (* dict with integer keys and values, keys distinct *)
               | VOpaque (k : kind).

Definition kind_of (v : val) : kind :=
  match v with
  | VNull => KNull | VBool _ => KBool | VInt _ => KInt | VFloat _ => KFloat | VStr _ => KStr
  | VList _ => KList | VTuple _ => KTuple | VSet _ => KSet | VDict _ => KDict | VOpaque k => k
  end.

Inductive res := RVal (v : val) | RErr (e : err).

(* float operations used by the payloads; the order is a three-way comparison that is None
   exactly when an operand is NaN; fo_cmpZ compares an integer EXACTLY with a float *)
Record fops := {
  fo_of_Z : Z -> option F;            (* None: OverflowError (int too large to convert to float) *)
  fo_add : F -> F -> F;
  fo_sub : F -> F -> F;
  fo_mul : F -> F -> F;
  fo_div : F -> F -> option F;        (* None: ZeroDivisionError *)
  fo_mod : F -> F -> option (option F); (* None: ZeroDivisionError; Some None: value not modelled *)
  fo_neg : F -> F;
  fo_compare : F -> F -> option comparison;
  fo_cmpZ : Z -> F -> option comparison;
}.
Variable fo : fops.

Definition b2z (b : bool) : Z := if b then 1%Z else 0%Z.

(* ---- strings: lexicographic order on code points (CPython unicode_compare) *)
Fixpoint str_compare (a b : list Z) : comparison :=
  match a, b with
  | [], [] => Eq
  | [], _ :: _ => Lt
  | _ :: _, [] => Gt
  | x :: a', y :: b' => match Z.compare x y with Eq => str_compare a' b' | c => c end
  end.

Definition cmp_holds (c : cmpop) (r : comparison) : bool :=
  match c, r with
  | CLt, Lt => true | CLe, Lt => true | CLe, Eq => true
  | CGt, Gt => true | CGe, Gt => true | CGe, Eq => true
  | _, _ => false
  end.
(* an unordered pair (NaN involved): every ordering operator is false *)
Definition ocmp_holds (c : cmpop) (r : option comparison) : bool :=
  match r with Some x => cmp_holds c x | None => false end.

Fixpoint prefixb (a b : list Z) : bool :=
  match a, b with
  | [], _ => true
  | _ :: _, [] => false
  | x :: a', y :: b' => Z.eqb x y && prefixb a' b'
  end.
Fixpoint infixb (a b : list Z) : bool :=
  prefixb a b || match b with [] => false | _ :: b' => infixb a b' end.

(* ---- repetition: Python sequence * int.  Counts outside [-2^63, 2^63-1] cannot be converted
   to an index (OverflowError); results too large to allocate raise OverflowError/MemoryError.
   The harness never generates a result size between 10^7 and 2^31. *)
Definition max_index : Z := 9223372036854775807%Z.
Definition alloc_limit : Z := 2147483648%Z.

Fixpoint repeat_list (n : nat) (l : list Z) : list Z :=
  match n with O => [] | S n' => l ++ repeat_list n' l end.

Definition repetition (l : list Z) (n : Z) : option (list Z) :=
  if ((n >? max_index) || (n <? - max_index - 1))%Z then None
  else if (n <=? 0)%Z then Some []
  else match l with
       | [] => Some []
       | _ => if (Z.of_nat (length l) * n >=? alloc_limit)%Z then None
              else Some (repeat_list (Z.to_nat n) l)
       end.

(* ---- sets and dicts of integers *)
Definition zmem (x : Z) (l : list Z) : bool := existsb (Z.eqb x) l.
Definition subsetb (a b : list Z) : bool := forallb (fun x => zmem x b) a.
Definition set_eqb (a b : list Z) : bool := subsetb a b && subsetb b a.
(* Python: a <= b is issubset; a < b is proper subset *)
Definition set_cmp (c : cmpop) (a b : list Z) : bool :=
  match c with
  | CLe => subsetb a b
  | CLt => subsetb a b && negb (subsetb b a)
  | CGe => subsetb b a
  | CGt => subsetb b a && negb (subsetb a b)
  end.
Definition set_diff (a b : list Z) : list Z := filter (fun x => negb (zmem x b)) a.
Fixpoint set_union (a b : list Z) : list Z :=
  match a with [] => b | x :: a' => if zmem x b then set_union a' b else x :: set_union a' b end.

Fixpoint dlookup (k : Z) (d : list (Z * Z)) : option Z :=
  match d with [] => None | (k', v) :: r => if Z.eqb k k' then Some v else dlookup k r end.
Definition dkeys (d : list (Z * Z)) : list Z := map fst d.
(* dict(left); update(right): right wins *)
Definition dict_add (a b : list (Z * Z)) : list (Z * Z) :=
  filter (fun kv => negb (zmem (fst kv) (dkeys b))) a ++ b.
Definition dict_sub (a b : list (Z * Z)) : bool :=
  forallb (fun kv => match dlookup (fst kv) b with Some v => Z.eqb v (snd kv) | None => false end) a.
Definition dict_eqb (a b : list (Z * Z)) : bool := dict_sub a b && dict_sub b a.

(* ---- numbers *)
Inductive num := NI (z : Z) | NF (f : F).
Definition as_num (v : val) : option num :=
  match v with VInt z => Some (NI z) | VFloat f => Some (NF f) | _ => None end.

Definition num_compare (a b : num) : option comparison :=
  match a, b with
  | NI x, NI y => Some (Z.compare x y)
  | NI x, NF g => fo_cmpZ fo x g
  | NF f, NI y => option_map CompOpp (fo_cmpZ fo y f)
  | NF f, NF g => fo_compare fo f g
  end.

Definition lift_f (a b : num) (k : F -> F -> res) : res :=
  let cv n := match n with NI z => fo_of_Z fo z | NF f => Some f end in
  match cv a, cv b with
  | Some x, Some y => k x y
  | _, _ => RErr EResource
  end.

Definition num_arith (t : tag) (a b : num) : res :=
  match a, b with
  | NI x, NI y =>
    match t with
    | PNumAdd => RVal (VInt (x + y))
    | PNumSub => RVal (VInt (x - y))
    | PNumMul => RVal (VInt (x * y))
    | PNumDiv => if Z.eqb y 0 then RErr EZeroDiv else RVal (VInt (Z.div x y))
    | PNumMod => if Z.eqb y 0 then RErr EZeroDiv else RVal (VInt (Z.modulo x y))
    | _ => RErr EUnmodelled
    end
  | _, _ =>
    lift_f a b (fun f g =>
      match t with
      | PNumAdd => RVal (VFloat (fo_add fo f g))
      | PNumSub => RVal (VFloat (fo_sub fo f g))
      | PNumMul => RVal (VFloat (fo_mul fo f g))
      | PNumDiv => match fo_div fo f g with Some r => RVal (VFloat r) | None => RErr EZeroDiv end
      | PNumMod => match fo_mod fo f g with
                   | Some (Some r) => RVal (VFloat r)
                   | Some None => RErr EUnmodelled
                   | None => RErr EZeroDiv
                   end
      | _ => RErr EUnmodelled
      end)
  end.

(* ---- Python == on the modelled values *)
Definition is_eq (r : option comparison) : bool := match r with Some Eq => true | _ => false end.

Definition eq_as_num (v : val) : option num :=
  match v with VBool b => Some (NI (b2z b)) | VInt z => Some (NI z) | VFloat f => Some (NF f) | _ => None end.

Definition py_eq (a b : val) : bool :=
  match eq_as_num a, eq_as_num b with
  | Some x, Some y => is_eq (num_compare x y)
  | _, _ =>
    match a, b with
    | VNull, VNull => true
    | VStr s, VStr t => match str_compare s t with Eq => true | _ => false end
    | VList l, VList m => list_eqb Z.eqb l m
    | VTuple l, VTuple m => list_eqb Z.eqb l m
    | VSet l, VSet m => set_eqb l m
    | VDict l, VDict m => dict_eqb l m
    | _, _ => false
    end
  end.

(* Python truthiness *)
Definition truthy (v : val) : option bool :=
  match v with
  | VNull => Some false
  | VBool b => Some b
  | VInt z => Some (negb (Z.eqb z 0))
  | VFloat f => Some (negb (is_eq (fo_cmpZ fo 0%Z f)))
  | VStr s => Some (match s with [] => false | _ => true end)
  | VList l | VTuple l | VSet l => Some (match l with [] => false | _ => true end)
  | VDict d => Some (match d with [] => false | _ => true end)
  | VOpaque _ => None
  end.

Definition seq_items (v : val) : option (list Z) :=
  match v with VList l | VTuple l => Some l | _ => None end.

(* what iterating the value yields (dict: its keys); sets have no modelled iteration order *)
Definition iter_items (v : val) : option (list Z) :=
  match v with VList l | VTuple l => Some l | VDict d => Some (dkeys d) | _ => None end.
Definition members (v : val) : option (list Z) :=
  match v with VSet l => Some l | _ => iter_items v end.

Definition rep_result (mk : list Z -> val) (l : list Z) (n : val) : res :=
  match n with
  | VInt z => match repetition l z with Some r => RVal (mk r) | None => RErr EResource end
  | VBool b => match repetition l (b2z b) with Some r => RVal (mk r) | None => RErr EResource end
  | _ => RErr EUnmodelled
  end.

Definition null_const (side : nat) (c : cmpop) : bool :=
  (* side 0: (x, null)   1: (null, x)   2: (null, null) *)
  match side, c with
  | 0, CLt => false | 0, CLe => false | 0, CGt => true | 0, CGe => true
  | 1, CLt => true | 1, CLe => true | 1, CGt => false | 1, CGe => false
  | _, CLt => false | _, CLe => true | _, CGt => false | _, CGe => true
  end.

Definition run_payload (t : tag) (args : list val) : res :=
  match t, args with
  | (PNumAdd | PNumSub | PNumMul | PNumDiv | PNumMod), [a; b] =>
    match as_num a, as_num b with
    | Some x, Some y => num_arith t x y
    | _, _ => RErr EUnmodelled
    end
  | PNumPos, [VInt z] => RVal (VInt z)
  | PNumPos, [VFloat f] => RVal (VFloat f)
  | PNumNeg, [VInt z] => RVal (VInt (- z))
  | PNumNeg, [VFloat f] => RVal (VFloat (fo_neg fo f))
  | PNumCmp c, [a; b] =>
    match as_num a, as_num b with
    | Some x, Some y => RVal (VBool (ocmp_holds c (num_compare x y)))
    | _, _ => RErr EUnmodelled
    end
  | PStrCmp c, [VStr s; VStr u] => RVal (VBool (cmp_holds c (str_compare s u)))
  | PStrConcat, [VStr s; VStr u] => RVal (VStr (s ++ u))
  | PStrRep, [VStr s; n] => rep_result VStr s n
  | PRepStr, [n; VStr s] => rep_result VStr s n
  | PStrIn, [VStr s; VStr u] => RVal (VBool (infixb s u))
  | PEq, [a; b] => match a, b with
                   | VOpaque _, _ | _, VOpaque _ => RErr EUnmodelled
                   | _, _ => RVal (VBool (py_eq a b))
                   end
  | PNeq, [a; b] => match a, b with
                    | VOpaque _, _ | _, VOpaque _ => RErr EUnmodelled
                    | _, _ => RVal (VBool (negb (py_eq a b)))
                    end
  | PLeftNull c, [_; _] => RVal (VBool (null_const 0 c))
  | PNullRight c, [_; _] => RVal (VBool (null_const 1 c))
  | PNullNull c, [_; _] => RVal (VBool (null_const 2 c))
  | PNot, [a] => match truthy a with Some b => RVal (VBool (negb b)) | None => RErr EUnmodelled end
  | PSeqRep, [a; n] | PRepSeq, [n; a] =>
    match a with
    | VList l => rep_result VList l n
    | VTuple l => rep_result VTuple l n
    | _ => RErr EUnmodelled
    end
  | PCollIn, [a; b] =>
    match a, members b with
    | VOpaque _, _ => RErr EUnmodelled
    | _, Some l => RVal (VBool (existsb (fun x => py_eq a (VInt x)) l))
    | _, None => RErr EUnmodelled
    end
  | PSeqConcat, [a; b] =>
    match a, b with
    | VTuple l, VTuple m => RVal (VTuple (l ++ m))
    | VSet l, VSet m => RVal (VSet (set_union l m))         (* frozenset + frozenset: union *)
    | _, _ =>
      match iter_items a, iter_items b with
      | Some l, Some m => RVal (VList (l ++ m))
      | _, _ => RErr EUnmodelled
      end
    end
  | PSetCmp c, [VSet l; VSet m] => RVal (VBool (set_cmp c l m))
  | PSetDiff, [VSet l; VSet m] => RVal (VSet (set_diff l m))
  | PDictAdd, [VDict l; VDict m] => RVal (VDict (dict_add l m))
  | _, _ => RErr EUnmodelled
  end.

Definition eval_op (table : op -> optable) (o : op) (args : list val) : res :=
  match dispatch (table o) (map kind_of args) with
  | DPayload t => run_payload t args
  | DNoMatch => RErr ENoMatch
  | DAmbiguous => RErr EAmbiguous
  end.

End Values.

Arguments VNull {F}. Arguments VBool {F}. Arguments VInt {F}. Arguments VFloat {F}.
Arguments VStr {F}. Arguments VList {F}. Arguments VTuple {F}. Arguments VOpaque {F}.
Arguments VSet {F}. Arguments VDict {F}.
Arguments RVal {F}. Arguments RErr {F}.
Arguments NI {F}. Arguments NF {F}.

(* ================================================================== executable floats (C only) *)
(* IEEE binary64 via Coq's primitive floats.  Exact integer/float comparison and the
   correctly rounded Z -> float conversion are computed through the mantissa/exponent
   decomposition (frshiftexp / normfr_mantissa / ldshiftexp). *)
Module PF.
Local Open Scope Z_scope.

Definition shift : Z := 2101.

(* finite non-zero |f| = m * 2^e with m an integer of 53 bits; returns (negative?, m, e) *)
Definition decompose (f : float) : bool * Z * Z :=
  let neg := PrimFloat.ltb f PrimFloat.zero || (PrimFloat.eqb f PrimFloat.zero && PrimFloat.ltb (PrimFloat.div PrimFloat.one f) PrimFloat.zero) in
  let a := PrimFloat.abs f in
  let '(m, e) := PrimFloat.frshiftexp a in
  (neg, Uint63.to_Z (PrimFloat.normfr_mantissa m), Uint63.to_Z e - shift - 53).

Definition is_nan (f : float) : bool := negb (PrimFloat.eqb f f).
Definition is_inf (f : float) : bool := PrimFloat.eqb (PrimFloat.abs f) PrimFloat.infinity.
Definition is_zero (f : float) : bool := PrimFloat.eqb f PrimFloat.zero.

(* exact comparison of z with f *)
Definition cmpZ (z : Z) (f : float) : option comparison :=
  if is_nan f then None
  else if is_inf f then Some (if PrimFloat.ltb f PrimFloat.zero then Gt else Lt)
  else if is_zero f then Some (Z.compare z 0)
  else
    let '(neg, m, e) := decompose f in
    let sm := if neg then - m else m in
    (* compare z with sm * 2^e *)
    if e >=? 0 then Some (Z.compare z (sm * 2 ^ e))
    else Some (Z.compare (z * 2 ^ (- e)) sm).

Definition fcompare (a b : float) : option comparison :=
  match PrimFloat.compare a b with
  | FEq => Some Eq | FLt => Some Lt | FGt => Some Gt | FNotComparable => None
  end.

(* m * 2^e for 0 <= m < 2^63, correctly rounded by the primitive operations
   (of_uint63 rounds to nearest even, ldshiftexp is exact unless the result is subnormal;
   callers pass m < 2^53 when e is small) *)
Definition ldexp_pos (m e : Z) : float :=
  let e' := e + shift in
  if e' <? 0 then PrimFloat.zero
  else if e' >? 5000 then PrimFloat.infinity
  else PrimFloat.ldshiftexp (PrimFloat.of_uint63 (Uint63.of_Z m)) (Uint63.of_Z e').

(* round-half-even conversion of a non-negative integer *)
Definition of_Z_pos (z : Z) : option float :=
  let n := Z.log2 z + 1 in                  (* bit length *)
  if n <=? 53 then Some (ldexp_pos z 0)
  else
    let sh := n - 53 in
    let q := Z.shiftr z sh in
    let r := z - Z.shiftl q sh in
    let half := Z.shiftl 1 (sh - 1) in
    let q' := if (r >? half) || ((r =? half) && Z.odd q) then q + 1 else q in
    if n >? 1024 then None
    else let f := ldexp_pos q' sh in
         if is_inf f then None else Some f.

Definition of_Z (z : Z) : option float :=
  if z =? 0 then Some PrimFloat.zero
  else if z <? 0 then option_map PrimFloat.opp (of_Z_pos (- z))
  else of_Z_pos z.

Definition fdiv (a b : float) : option float :=
  if is_zero b then None else Some (PrimFloat.div a b).

(* Python float %: fmod (exact), then sign adjustment.  Modelled for finite operands
   through exact integer arithmetic on a common exponent; infinities / NaN: not modelled *)
Definition fmod (a b : float) : option (option float) :=
  if is_zero b then None
  else if is_nan a || is_nan b || is_inf a || is_inf b then Some None
  else if is_zero a then
    (* fmod(+-0, y) = +-0 ; python: r == 0 -> copysign(0, y) *)
    Some (Some (if PrimFloat.ltb b PrimFloat.zero then PrimFloat.neg_zero else PrimFloat.zero))
  else
    let '(na, ma, ea) := decompose a in
    let '(nb, mb, eb) := decompose b in
    let e := Z.min ea eb in
    let x := ma * 2 ^ (ea - e) in
    let y := mb * 2 ^ (eb - e) in
    let r := Z.rem x y in                        (* magnitude of fmod; sign of a *)
    if r =? 0 then Some (Some (if nb then PrimFloat.neg_zero else PrimFloat.zero))
    else
      (* r < y <= mb * 2^(eb-e): representable exactly; bring to 53 bits *)
      let n := Z.log2 r + 1 in
      let rf := if n <=? 53 then ldexp_pos r e
                else ldexp_pos (Z.shiftr r (n - 53)) (e + (n - 53)) in
      let rf := if na then PrimFloat.opp rf else rf in
      if Bool.eqb na nb then Some (Some rf) else Some (Some (PrimFloat.add rf b)).

Definition ops : fops float := {|
  fo_of_Z := of_Z;
  fo_add := PrimFloat.add;
  fo_sub := PrimFloat.sub;
  fo_mul := PrimFloat.mul;
  fo_div := fdiv;
  fo_mod := fmod;
  fo_neg := PrimFloat.opp;
  fo_compare := fcompare;
  fo_cmpZ := cmpZ;
|}.

(* bit-level identity of observations (what float.hex() distinguishes): equal as numbers and
   same sign of zero, or both NaN *)
Definition sign_bit (a : float) : bool := PrimFloat.ltb (PrimFloat.div PrimFloat.one a) PrimFloat.zero.
Definition same_float (a b : float) : bool :=
  (is_nan a && is_nan b)
  || (PrimFloat.eqb a b && (negb (is_zero a) || Bool.eqb (sign_bit a) (sign_bit b))).
End PF.

(* ================================================================== correspondence cases *)
(* generic in the float type: instantiated with PrimFloat below and with Flocq's binary64
   in Model/ScalarsB64.v *)
Section Cases.
Variable F : Type.
Variable fo : fops F.
Variable same : F -> F -> bool.   (* bit-level identity of floats *)

Definition val_same (a b : val F) : bool :=
  match a, b with
  | VNull, VNull => true
  | VBool x, VBool y => Bool.eqb x y
  | VInt x, VInt y => Z.eqb x y
  | VFloat x, VFloat y => same x y
  | VStr x, VStr y => list_eqb Z.eqb x y
  | VList x, VList y => list_eqb Z.eqb x y
  | VTuple x, VTuple y => list_eqb Z.eqb x y
  | VSet x, VSet y => set_eqb x y
  | VDict x, VDict y => dict_eqb x y
  | _, _ => false
  end.

(* results are observed after yaql's output conversion: tuples come out as lists *)
Definition canon (v : val F) : val F := match v with VTuple l => VList l | _ => v end.

(* OFloatUnchecked: a float result whose value the executable instance does not model
   (`mod` with an infinite or NaN operand); only the dispatch is compared *)
(* OBigInt: an integer result too large to be written down as a literal (more than 4300
   decimal digits cannot even be printed by the implementation's host): observed through its
   sign, bit length and residues modulo 2^61-1 and 10^9+7 *)
Inductive obs := OVal (v : val F) | OErr (e : err) | OFloatUnchecked | OOtherExc
               | OBigInt (neg : bool) (bits r1 r2 : Z).
Definition big_m1 : Z := 2305843009213693951%Z.
Definition big_m2 : Z := 1000000007%Z.

(* `a OP b`, or `(a OP b) OP2 c` when c_then is given; then the unary operators of c_post are
   applied to the result, innermost first (sign chains: `- + a` is UPos with c_post [UNeg]) *)
Record case := {
  c_cfg : cfg;
  c_op : op;
  c_args : list (val F);
  c_then : option (op * val F);
  c_post : list op;
  c_ran : list tag;        (* the payloads the implementation ran, in order *)
  c_obs : obs;
}.

Definition res_matches (r : res F) (o : obs) : bool :=
  match r, o with
  | RVal (VFloat _), OFloatUnchecked => true
  | RErr EUnmodelled, OFloatUnchecked => true
  | RVal v, OVal w => val_same (canon v) w
  | RVal (VInt z), OBigInt n b r1 r2 =>
    Bool.eqb (Z.ltb z 0) n && Z.eqb (Z.log2 (Z.abs z) + 1) b
    && Z.eqb (Z.modulo (Z.abs z) big_m1) r1 && Z.eqb (Z.modulo (Z.abs z) big_m2) r2
  | RErr EUnmodelled, _ => false
  | RErr e, OErr e' => err_eqb e e'
  | _, _ => false
  end.

Definition tags_of (d : dres) : list tag := match d with DPayload t => [t] | _ => [] end.

Definition run_case (table : op -> optable) (c : case) : list tag * res F :=
  let d1 := dispatch (table (c_op c)) (map (kind_of F) (c_args c)) in
  let r1 := eval_op F fo table (c_op c) (c_args c) in
  match c_then c with
  | None => (tags_of d1, r1)
  | Some (o2, z) =>
    match r1 with
    | RVal v => (tags_of d1 ++ tags_of (dispatch (table o2) [kind_of F v; kind_of F z]),
                 eval_op F fo table o2 [v; z])
    | RErr _ => (tags_of d1, r1)
    end
  end.

Fixpoint run_post (table : op -> optable) (us : list op) (tr : list tag * res F) : list tag * res F :=
  match us with
  | [] => tr
  | u :: us' =>
    match snd tr with
    | RVal v => run_post table us' (fst tr ++ tags_of (dispatch (table u) [kind_of F v]), eval_op F fo table u [v])
    | RErr _ => tr
    end
  end.

Definition run_full (table : op -> optable) (c : case) : list tag * res F :=
  run_post table (c_post c) (run_case table c).

Definition gcase_ok (tables : cfg -> op -> optable) (c : case) : bool :=
  let '(tags, r) := run_full (tables (c_cfg c)) c in
  list_eqb tag_eqb tags (c_ran c) && res_matches r (c_obs c).
End Cases.

Arguments OVal {F}. Arguments OErr {F}. Arguments OFloatUnchecked {F}. Arguments OOtherExc {F}.
Arguments OBigInt {F}.
Arguments Build_case {F}.
Arguments c_cfg {F}. Arguments c_op {F}. Arguments c_args {F}. Arguments c_then {F}.
Arguments c_ran {F}. Arguments c_obs {F}. Arguments c_post {F}.

(* the PrimFloat instance *)
Definition fval := val float.
Definition pcase := case float.
Definition case_ok (tables : cfg -> op -> optable) (c : pcase) : bool :=
  gcase_ok float PF.ops PF.same_float tables c.
Definition prun_case (table : op -> optable) (c : pcase) := run_full float PF.ops table c.
