(* The paths AROUND the yaqlization gate, and settings inheritance:
     yaql/language/utils.py        is_keyword (KEYWORD_REGEX = the regex of Lexer.t_KEYWORD_STRING,
                                   used with .match), filter_parameters_dict
     yaql/standard_library/system.py   get_property ('#property#name' dispatch), op_dot (method
                                   dispatch on the receiver), elvis_operator, call_func
     yaql/yaqlization.py           yaqlize: settings found through getattr (instance first, then class)
     yaql/standard_library/yaqlized.py  _auto_yaqlize
   The function registry is an oracle (which names have a registered function / method): what a
   registered payload may do to a host object is the subject of Gen/Effects.v.  No proofs here. *)
From Coq Require Import List ZArith Bool.
From YV Require Import Common.Corr Model.Lexer Model.Yaqlized.
Import ListNotations.
Open Scope Z_scope.

(* ---- utils.is_keyword ------------------------------------------------------------------
   KEYWORD_REGEX.match(text): (?!__)\b[^\W\d]\w*\b anchored at the start only.  After the
   first [^\W\d] character the greedy \w* run always ends at a word boundary, so the regex
   matches iff the text does not start with '__' and its first character is [^\W\d]. *)
Definition is_keyword (cfg : lexcfg) (w : text) : bool :=
  negb (starts_dunder w) && match w with c :: _ => ident_start cfg c | [] => false end.

(* utils.filter_parameters_dict deletes from the dict it iterates: any non-keyword key ends in
   RuntimeError('dictionary changed size during iteration'); otherwise the dict is unchanged *)
Definition filter_kwargs (cfg : lexcfg) (keys : list text) : option (list text) :=
  if forallb (is_keyword cfg) keys then Some keys else None.

(* ---- ways an expression can try to get at a member of a host object -------------------- *)
Inductive path :=
| PProp (n : name)                         (* $o.n *)
| PMeth (n : name)                         (* $o.n() *)
| PIndex (n : name)                        (* $o[n] *)
| PElvisProp (n : name)                    (* $o?.n *)
| PElvisMeth (n : name)                    (* $o?.n() *)
| PCallFn (n : name) (kw : list name) (lam : bool)      (* call(n, [$o], {kw => $o ...}) *)
| PCallMeth (n : name) (kw : list name) (lam : bool).   (* call(n, [], {kw ...}, $o) *)
(* lam: the object is callable and call() hands it, as a VALUE, to a Lambda-typed parameter of a
   function registered under n (args list, kwargs dict or receiver).  Lambda.convert / Lambda._call
   treat any callable value as the lambda's body and INVOKE it with the lambda's arguments - also in
   engines created without allow_delegates.  Known finding F22 (open); the model is faithful to it. *)

Inductive fres :=
| FDenied (e : exn)
| FReach (m : name)          (* getattr / [] on the host object for member m *)
| FDispatch (fn : name)      (* overload resolution among the REGISTERED functions of that name *)
| FInvoke.                   (* the host object itself is called (as the body of a lambda parameter) *)

Definition property_prefix : name := [35; 112; 114; 111; 112; 101; 114; 116; 121; 35].   (* #property# *)
Definition indexer_name : name := [35; 105; 110; 100; 101; 120; 101; 114].               (* #indexer *)

Definition path_form (p : path) : option form :=
  match p with
  | PProp _ | PElvisProp _ => Some FAttr
  | PMeth _ | PElvisMeth _ => Some FMethod
  | PIndex _ => Some FIndex
  | PCallFn _ _ _ | PCallMeth _ _ _ => None
  end.

Definition path_lam (p : path) : bool :=
  match p with PCallFn _ _ lam | PCallMeth _ _ lam => lam | _ => false end.

Definition lift (o : outcome) : fres := match o with Denied e => FDenied e | Reach m => FReach m end.

Section Paths.
  Variable rs ps : nat -> name -> bool.       (* regex / predicate oracles of the policy *)
  Variable cfg : lexcfg.                      (* character classes of the keyword regex *)
  Variable reg_fn : name -> bool.             (* some function of that name is registered *)
  Variable reg_meth : name -> bool.           (* some method of that name is registered *)

  Definition dispatch (known : bool) (fn : name) : fres :=
    if known then FDispatch fn else FDenied ENoMatch.

  (* '.' / '[]' : the Yaqlized-typed overloads live in the innermost layer and win whenever their
     type check accepts the object; otherwise the system-layer overloads run *)
  Definition dot_attr (st : option settings) (n : name) : fres :=
    if yaqlized_check FAttr st then lift (access rs ps FAttr st n)
    else dispatch (reg_fn (property_prefix ++ n)) (property_prefix ++ n).          (* system.get_property *)

  Definition dot_method (st : option settings) (n : name) : fres :=
    if yaqlized_check FMethod st then lift (access rs ps FMethod st n)
    else dispatch (reg_meth n) n.                                                  (* system.op_dot *)

  Definition index (st : option settings) (n : name) : fres :=
    if yaqlized_check FIndex st then lift (access rs ps FIndex st n)
    else FDispatch indexer_name.                                                   (* list / dict indexers *)

  (* system.call_func: kwargs filtered first (an argument of the call), then lookup by name among
     the registered functions (methods when a receiver is given); never getattr *)
  Definition call_path (as_method : bool) (n : name) (kw : list name) (lam : bool) : fres :=
    match filter_kwargs cfg kw with
    | None => FDenied ERuntime
    | Some _ =>
        if (if as_method then reg_meth n else reg_fn n)
        then (if lam then FInvoke else FDispatch n)
        else FDenied ENoMatch
    end.

  (* the object is a host object (not null): `?.` hands over to '.' *)
  Definition run_path (st : option settings) (p : path) : fres :=
    match p with
    | PProp n | PElvisProp n => dot_attr st n
    | PMeth n | PElvisMeth n => dot_method st n
    | PIndex n => index st n
    | PCallFn n kw lam => call_path false n kw lam
    | PCallMeth n kw lam => call_path true n kw lam
    end.
End Paths.

(* ---- where settings live: instance first, then class (plain getattr) -------------------- *)
Record hobj2 := {
  h_inst : option settings;       (* __yaqlization__ in the instance __dict__ *)
  h_class : option settings;      (* ... on the class (or a base class) *)
  h_fixed : bool                  (* class lives in builtins, or the instance refuses setattr *)
}.

Definition effective (o : hobj2) : option settings :=
  match h_inst o with Some s => Some s | None => h_class o end.

(* yaqlize(obj, **a): no-op when hasattr(obj, '__yaqlization__') *)
Definition yaqlize_obj (o : hobj2) (a : yargs) : hobj2 :=
  match effective o with
  | Some _ => o
  | None => {| h_inst := yaqlize None a; h_class := h_class o; h_fixed := h_fixed o |}
  end.

Definition auto_args : yargs :=
  {| a_attrs := true; a_methods := true; a_indexer := true; a_auto := true; a_white := []; a_black := [];
     a_remap := []; a_blacklist_remapped := true |}.

(* _auto_yaqlize(value, parent settings) *)
Definition auto_yaqlize (parent : settings) (o : hobj2) : hobj2 :=
  if s_auto parent && negb (h_fixed o) then yaqlize_obj o auto_args else o.

Definition view (o : hobj2) : hobj := {| h_settings := effective o; h_builtin := h_fixed o |}.

(* ---- correspondence ----------------------------------------------------------------------- *)
Definition fres_eqb (a b : fres) : bool :=
  match a, b with
  | FDenied x, FDenied y => exn_eqb x y
  | FReach x, FReach y => str_eqb x y
  | FDispatch _, FDispatch _ => true
  | FInvoke, FInvoke => true
  | _, _ => false
  end.

(* is_keyword on a name, as observed *)
Record kw_case := { k_name : text; k_obs : bool }.
Definition kw_ok (cfg : lexcfg) (c : kw_case) : bool := Bool.eqb (is_keyword cfg (k_name c)) (k_obs c).

(* observation of a path: a member was reached | error class | a registered function ran (any
   other outcome with the object untouched).  FDispatch allows "ran" and the resolution error
   (whether an overload accepts the arguments is C05's subject) *)
(* PoInvoked: the object itself was called.  FInvoke means "may be invoked": whether the overload
   is selected and whether it ever evaluates that lambda is not decided here *)
Inductive pobs := PoReach (m : name) | PoDenied (e : exn) | PoRan | PoInvoked.

Record path_case := {
  pc_regex : table; pc_pred : table;
  pc_args : option yargs;
  pc_fns : list name;           (* which of the names used are registered functions *)
  pc_meths : list name;
  pc_path : path;
  pc_obs : pobs
}.

Definition path_ok (cfg : lexcfg) (c : path_case) : bool :=
  let st := match pc_args c with Some a => Some (build_settings a) | None => None end in
  match run_path (table_oracle (pc_regex c)) (table_oracle (pc_pred c)) cfg
                 (fun n => smem n (pc_fns c)) (fun n => smem n (pc_meths c)) st (pc_path c), pc_obs c with
  | FReach m, PoReach m' => str_eqb m m'
  | FDenied e, PoDenied e' => exn_eqb e e'
  | FDispatch _, PoRan => true
  | FDispatch _, PoDenied ENoMatch => true
  | FInvoke, PoInvoked => true
  | FInvoke, PoRan => true
  | FInvoke, PoDenied ENoMatch => true
  | _, _ => false
  end.

(* one auto-yaqlization step: where the settings are afterwards.
   0 = none, 1 = the object's original ones, 2 = the automatic defaults *)
Record auto_case := {
  ac_parent_auto : bool;
  ac_inst : bool; ac_class : bool; ac_fixed : bool;     (* the child has own instance / class settings; refuses writes *)
  ac_obs : Z * Z                                         (* (instance slot, class slot) afterwards *)
}.

Definition marker : yargs :=    (* the child's original settings: distinguishable from the defaults *)
  {| a_attrs := true; a_methods := false; a_indexer := true; a_auto := false; a_white := []; a_black := [];
     a_remap := []; a_blacklist_remapped := true |}.

Definition slot_code (orig : bool) (s : option settings) : Z :=
  match s with
  | None => 0
  | Some s' => if s_auto s' then 2 else 1
  end.

Definition auto_ok (c : auto_case) : bool :=
  let o := {| h_inst := if ac_inst c then Some (build_settings marker) else None;
              h_class := if ac_class c then Some (build_settings marker) else None;
              h_fixed := ac_fixed c |} in
  let parent := build_settings {| a_attrs := true; a_methods := true; a_indexer := true; a_auto := ac_parent_auto c;
                                  a_white := []; a_black := []; a_remap := []; a_blacklist_remapped := true |} in
  let o' := auto_yaqlize parent o in
  Z.eqb (slot_code (ac_inst c) (h_inst o')) (fst (ac_obs c)) && Z.eqb (slot_code (ac_class c) (h_class o')) (snd (ac_obs c)).

(* ---- the object's own indexing protocol ---------------------------------------------------
   `$obj[key]` (yaqlized.indexation) performs obj[key] and nothing else.  What happens then is the
   object's business: a __getitem__ that takes the key answers or raises its own error AFTER having
   been asked; an object without __getitem__, or whose __getitem__ refuses string keys, makes obj[key]
   raise TypeError - the expression gets that TypeError, never an attribute read. *)
Inductive iproto :=
| ISubscript        (* __getitem__ is asked for the key *)
| INoStr.           (* not subscriptable by a string key: obj[key] raises TypeError *)

Definition index_on (rs ps : nat -> name -> bool) (p : iproto) (st : option settings) (n : name) : outcome :=
  match access rs ps FIndex st n with
  | Reach m => match p with ISubscript => Reach m | INoStr => Denied EType end
  | Denied e => Denied e
  end.

Record icase := {
  ic_regex : table; ic_pred : table;
  ic_via_yaqlize : bool;
  ic_args : option yargs;
  ic_proto : iproto;
  ic_name : name;
  ic_obs : outcome         (* Reach n: __getitem__ was asked for n; Denied e: error class, nothing touched *)
}.

Definition icase_ok (c : icase) : bool :=
  let st := match ic_args c with
            | None => None
            | Some a => if ic_via_yaqlize c then yaqlize None a else Some (build_settings a)
            end in
  outcome_eqb (index_on (table_oracle (ic_regex c)) (table_oracle (ic_pred c)) (ic_proto c) st (ic_name c)) (ic_obs c).
