(* Convention-aware function lookup: get_functions / collect_functions with use_convention=True.

   Every plain Context carries its own naming convention (given explicitly or inherited from its parent when it was
   created); a lookup with use_convention=True right-strips the name and then rewrites it with the convention OF THE
   PLAIN CONTEXT THAT IS ASKED (Context.get_functions).  MultiContext and LinkedContext only forward the request, so
   the conventions of the composite contexts themselves never take part in a lookup.

   The conversion is a parameter [cv : pid -> str -> str] (which rewriting each plain context applies); the
   correspondence check instantiates it with a finite table computed by the harness from the documented inheritance
   rule and its own implementation of the conventions. *)
From Coq Require Import List ZArith Bool Arith.
From YV Require Import Common.Corr Model.Contexts.
Import ListNotations.

Definition plain_functions_key (st : pstate) (k : str) : list fdef * bool :=
  (filter (fun f => str_eqb (fst f) k) (pfuncs st), smem k (pexcl st)).

Fixpoint get_functions_cv (cv : pid -> str -> str) (s : store) (c : ctx) (n : str) : list fdef * bool :=
  match c with
  | CPlain p _ => plain_functions_key (sget s p) (cv p (rstrip_us n))
  | CMulti ms _ =>
      (fix go (l : list ctx) (acc : list fdef) (ex : bool) : list fdef * bool :=
         match l with [] => (acc, ex)
         | m :: r => let '(fs, e) := get_functions_cv cv s m n in go r (funion fs acc) (ex || e) end) ms [] false
  | CLinked l _ => get_functions_cv cv s l n
  end.

Fixpoint collect_functions_cv (cv : pid -> str -> str) (s : store) (c : ctx) (n : str) : list (list fdef) :=
  let '(fs, ex) := get_functions_cv cv s c n in
  let rest :=
    if ex then [] else
      match c with
      | CPlain _ (Some p) => collect_functions_cv cv s p n
      | CMulti _ (Some p) => collect_functions_cv cv s p n
      | CLinked _ (Some p) => collect_functions_cv cv s p n
      | _ => []
      end in
  match fs with [] => rest | _ => fs :: rest end.

(* ---- finite conversion tables (what the harness supplies) ------------------------ *)
Definition convtab := list (pid * (str * str)).
Fixpoint conv_lookup (t : convtab) (p : pid) (n : str) : str :=
  match t with
  | [] => n
  | (q, (a, b)) :: r => if Nat.eqb p q && str_eqb a n then b else conv_lookup r p n
  end.

Definition observe_cv (t : convtab) (s : store) (fnames : list str) (c : ctx) : list Z :=
  flat_map (fun n => let '(fs, ex) := get_functions_cv (conv_lookup t) s c n in
                     [3000%Z] ++ ser_fids fs ++ [if ex then 1%Z else 0%Z]
                     ++ [4000%Z] ++ (let ls := collect_functions_cv (conv_lookup t) s c n in
                                     Z.of_nat (length ls) :: flat_map ser_fids ls)) fnames.

(* per step: (outcome, hash of the convention-aware observation of every context); the table is fixed for the whole
   history (entries for contexts that do not exist yet are simply not consulted) *)
Fixpoint runv (x : state) (t : convtab) (fnames : list str) (ops : list cop) : list (Z * Z) :=
  match ops with
  | [] => []
  | One o :: r => let '(x', out) := step x o in
                  (outcome_code out, hash_list (flat_map (observe_cv t (st x') fnames) (env x'))) :: runv x' t fnames r
  | Two o1 o2 :: r => let '(x1, out1) := step x o1 in
                      let '(x2, out2) := step x1 o2 in
                      (Z.max (outcome_code out1) (outcome_code out2),
                       hash_list (flat_map (observe_cv t (st x2) fnames) (env x2))) :: runv x2 t fnames r
  end.

Record vcase := { vc_tab : convtab; vc_fnames : list str; vc_ops : list cop; vc_obs : list (Z * Z) }.
Definition vcase_ok (c : vcase) : bool := obs_eqb (runv init_state (vc_tab c) (vc_fnames c) (vc_ops c)) (vc_obs c).
