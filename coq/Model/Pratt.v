(* C02 - the parse tree the operator table dictates.
   A precedence-climbing reference parser over the token stream of the real lexer.
   Its shift/reduce decisions are yacc's conflict resolution read off the table
   (yaql/language/parser.py:28-89, ply precedence semantics):
     every operator role has a rank (group, line); line = l for left-associative
     binary and prefix roles, r for right-associative binary and suffix roles;
     tighter group first, inside one group r above l;
     pending rule of rank p, look-ahead token of rank t:
       t above p -> shift, t below p -> reduce, t = p -> shift iff line = r.
   The grammar of argument lists (args / arglist / incomplete_arglist /
   named_arglist, parser.py:131-214) is followed literally.
   No proofs in this file. *)
From Coq Require Import List ZArith Bool Arith.
From YV Require Import Common.Corr Model.OpTable.
Import ListNotations.
Open Scope Z_scope.

Definition above (t p : rank) : bool :=            (* token rank t strictly above pending rank p *)
  (grp t <? grp p) || ((grp t =? grp p) && match ln t, ln p with Lr, Ll => true | _, _ => false end).
Definition same (t p : rank) : bool :=
  (grp t =? grp p) && match ln t, ln p with Ll, Ll | Lr, Lr => true | _, _ => false end.
Definition continues (t : rank) (p : option rank) : bool :=   (* yacc: shift rather than reduce *)
  match p with
  | None => true
  | Some p => above t p || (same t p && match ln t with Lr => true | Ll => false end)
  end.

(* what the parser needs from a table *)
(* callr: the rank of `(` after a complete operand (the rule `func : value '(' args ')'`
   that exists when the factory allows delegates); None when delegates are off *)
Record table := { pre : str -> option rank; suf : str -> option rank; bin : str -> option rank;
                  callr : option rank }.
Definition table_of (B : built) : table :=
  {| pre := pre_rank B; suf := suf_rank B; bin := bin_rank B; callr := None |}.

(* `(` carries no precedence in ply while every operator rule does, so yacc reduces every
   pending operator rule before a delegate call: its rank lies below every level in use *)
Definition max_level (B : built) : Z :=
  fold_left (fun m r => Z.max m (Z.max (Z.abs (b_up r)) (Z.abs (b_bp r)))) (rows B) 0.
Definition call_rank (B : built) : rank := {| grp := max_level B + 1; ln := Ll |}.
Definition table_of_delegates (B : built) : table :=
  {| pre := pre_rank B; suf := suf_rank B; bin := bin_rank B; callr := Some (call_rank B) |}.

Inductive token :=
| TAtom (a : nat)          (* NUMBER, QUOTED_STRING, KEYWORD_STRING, DOLLAR, TRUE, FALSE, NULL *)
| TOp (o : str)            (* an operator symbol of the table *)
| TFunc (f : str)          (* FUNC: `name(` *)
| TLP | TRP                (* ( ) *)
| TLB | TRB                (* INDEXER `[`, `]` *)
| TLC | TRC                (* MAP `{`, `}` *)
| TComma
| TMap.                    (* MAPPING: the keyword operator, `=>` *)

Inductive tree :=
| Atom (a : nat)
| Un (o : str) (x : tree)            (* prefix *)
| Suf (o : str) (x : tree)           (* suffix *)
| Bin (o : str) (l r : tree)
| Wrap (x : tree)
| Index (x : tree) (a : args)
| ListE (a : args)
| MapE (a : args)
| Call (f : str) (a : args)
| CallV (x : tree) (a : args)        (* delegate call `value(args)`: Function('#call', value, args) *)
with args :=
| ANil
| AEmpty (r : args)                  (* NO_VALUE slot *)
| AVal (x : tree) (r : args)
| ANamed (k v : tree) (r : args).    (* MappingRuleExpression *)

(* where we are in the positional part of an argument list *)
Inductive sstate := S0 | SV | SVE | SBad.
Definition after_empty (s : sstate) : sstate :=
  match s with S0 => SBad | SV => SVE | SVE => SBad | SBad => SBad end.
Definition named_ok (s : sstate) : bool := match s with SBad => false | _ => true end.
Definition is_closer (t : token) : bool := match t with TRP | TRB | TRC => true | _ => false end.

Section Parser.
Variable T : table.

Fixpoint expr (fuel : nat) (p : option rank) (ts : list token) {struct fuel} : option (tree * list token) :=
  match fuel with O => None | S f =>
    match ts with
    | TAtom a :: r => loop f p (Atom a) r
    | TLP :: r => match expr f None r with
                  | Some (x, TRP :: r') => loop f p (Wrap x) r'
                  | _ => None
                  end
    | TOp o :: r => match pre T o with
                    | Some q => match expr f (Some q) r with
                                | Some (x, r') => loop f p (Un o x) r'
                                | None => None
                                end
                    | None => None
                    end
    | TLB :: r => match slots f S0 r with
                  | Some (a, TRB :: r') => loop f p (ListE a) r'
                  | _ => None
                  end
    | TLC :: r => match slots f S0 r with
                  | Some (a, TRC :: r') => loop f p (MapE a) r'
                  | _ => None
                  end
    | TFunc g :: r => match slots f S0 r with
                      | Some (a, TRP :: r') => loop f p (Call g a) r'
                      | _ => None
                      end
    | _ => None
    end
  end
with loop (fuel : nat) (p : option rank) (l : tree) (ts : list token) {struct fuel} : option (tree * list token) :=
  match fuel with O => None | S f =>
    match ts with
    | TOp o :: r =>
        match bin T o with
        | Some q => if continues q p
                    then match expr f (Some q) r with
                         | Some (x, r') => loop f p (Bin o l x) r'
                         | None => None
                         end
                    else Some (l, ts)
        | None => match suf T o with
                  | Some q => if continues q p then loop f p (Suf o l) r else Some (l, ts)
                  | None => Some (l, ts)
                  end
        end
    | TLB :: r =>
        match bin T sym_index with
        | Some q => if continues q p
                    then match slots f S0 r with
                         | Some (a, TRB :: r') => loop f p (Index l a) r'
                         | _ => None
                         end
                    else Some (l, ts)
        | None => Some (l, ts)
        end
    | TLP :: r =>
        match callr T with
        | Some q => if continues q p
                    then match slots f S0 r with
                         | Some (a, TRP :: r') => loop f p (CallV l a) r'
                         | _ => None
                         end
                    else Some (l, ts)
        | None => Some (l, ts)
        end
    | _ => Some (l, ts)
    end
  end
(* at the start of a slot of an argument list; stops in front of the closing token *)
with slots (fuel : nat) (st : sstate) (ts : list token) {struct fuel} : option (args * list token) :=
  match fuel with O => None | S f =>
    match ts with
    | TComma :: r => match slots f (after_empty st) r with
                     | Some (a, r') => Some (AEmpty a, r')
                     | None => None
                     end
    | _ =>
      if match ts with t :: _ => is_closer t | [] => false end
      then match st with S0 => Some (ANil, ts) | _ => None end
      else
        match expr f None ts with
        | Some (x, TComma :: r) => match slots f SV r with
                                   | Some (a, r') => Some (AVal x a, r')
                                   | None => None
                                   end
        | Some (x, TMap :: r) =>
            if named_ok st then
              match expr f None r with
              | Some (y, TComma :: r2) => match named f r2 with
                                          | Some (a, r3) => Some (ANamed x y a, r3)
                                          | None => None
                                          end
              | Some (y, r2) => Some (ANamed x y ANil, r2)
              | None => None
              end
            else None
        | Some (x, r) => Some (AVal x ANil, r)
        | None => None
        end
    end
  end
(* named_arglist : named_arg (',' named_arg)* *)
with named (fuel : nat) (ts : list token) {struct fuel} : option (args * list token) :=
  match fuel with O => None | S f =>
    match expr f None ts with
    | Some (x, TMap :: r) =>
        match expr f None r with
        | Some (y, TComma :: r2) => match named f r2 with
                                    | Some (a, r3) => Some (ANamed x y a, r3)
                                    | None => None
                                    end
        | Some (y, r2) => Some (ANamed x y ANil, r2)
        | None => None
        end
    | _ => None
    end
  end.

Definition parse (ts : list token) : option tree :=
  match expr (2 * length ts + 2) None ts with
  | Some (t, []) => Some t
  | _ => None
  end.

End Parser.

(* the text of a tree, token by token; no parenthesis is added (Wrap prints its own) *)
Fixpoint yield (t : tree) : list token :=
  match t with
  | Atom a => [TAtom a]
  | Un o x => TOp o :: yield x
  | Suf o x => yield x ++ [TOp o]
  | Bin o l r => yield l ++ TOp o :: yield r
  | Wrap x => TLP :: yield x ++ [TRP]
  | Index x a => yield x ++ TLB :: yield_args a ++ [TRB]
  | ListE a => TLB :: yield_args a ++ [TRB]
  | MapE a => TLC :: yield_args a ++ [TRC]
  | Call f a => TFunc f :: yield_args a ++ [TRP]
  | CallV x a => yield x ++ TLP :: yield_args a ++ [TRP]
  end
with yield_args (a : args) : list token :=
  match a with
  | ANil => []
  | AEmpty r => TComma :: yield_args r
  | AVal x r => yield x ++ match r with ANil => [] | _ => TComma :: yield_args r end
  | ANamed k v r => yield k ++ TMap :: yield v ++ match r with ANil => [] | _ => TComma :: yield_args r end
  end.

(* ---------------------------------------------------------------- the table's reading as a predicate on trees *)
Section Wf.
Variable T : table.

(* a pending rule of rank q is reduced when the look-ahead has rank t *)
Definition reduces (q t : rank) : Prop := continues t (Some q) = false.

(* the rank an operator token has when it follows a complete operand *)
Definition tokrank (ts : list token) : option rank :=
  match ts with
  | TOp o :: _ => match bin T o with Some q => Some q | None => suf T o end
  | TLB :: _ => bin T sym_index
  | TLP :: _ => callr T
  | _ => None
  end.

(* right spine: the chain of nodes that end at the last token (right child of Bin,
   operand of a prefix Un); every open node on it was reduced before a token of rank t *)
Fixpoint rs_ok (t : rank) (x : tree) : Prop :=
  match x with
  | Un o y => (exists q, pre T o = Some q /\ reduces q t) /\ rs_ok t y
  | Bin o _ r => (exists q, bin T o = Some q /\ reduces q t) /\ rs_ok t r
  | _ => True
  end.

(* left spine: the chain of nodes that start at the first token (left child of Bin,
   operand of Suf, subject of Index); every node on it was shifted over the pending p *)
Fixpoint ls_ok (p : option rank) (x : tree) : Prop :=
  match x with
  | Bin o l _ => (exists q, bin T o = Some q /\ continues q p = true) /\ ls_ok p l
  | Suf o l => (exists q, suf T o = Some q /\ continues q p = true) /\ ls_ok p l
  | Index l _ => (exists q, bin T sym_index = Some q /\ continues q p = true) /\ ls_ok p l
  | CallV l _ => (exists q, callr T = Some q /\ continues q p = true) /\ ls_ok p l
  | _ => True
  end.

(* the local reading of the table: earlier groups bind tighter, a group associates as
   declared, a prefix operator takes the tightest operand its group allows;
   parentheses, brackets and arguments start afresh *)
Fixpoint wf (x : tree) : Prop :=
  match x with
  | Atom _ => True
  | Wrap y => wf y
  | Un o y => exists q, pre T o = Some q /\ wf y /\ ls_ok (Some q) y
  | Bin o l r => exists q, bin T o = Some q /\ wf l /\ wf r /\ rs_ok q l /\ ls_ok (Some q) r
  | Suf o l => exists q, suf T o = Some q /\ bin T o = None /\ wf l /\ rs_ok q l
  | Index l a => exists q, bin T sym_index = Some q /\ wf l /\ rs_ok q l /\ wf_args a
  | CallV l a => exists q, callr T = Some q /\ wf l /\ rs_ok q l /\ wf_args a
  | ListE a | MapE a | Call _ a => wf_args a
  end
with wf_args (a : args) : Prop :=
  match a with
  | ANil => True
  | AEmpty r => wf_args r
  | AVal x r => wf x /\ wf_args r
  | ANamed k v r => wf k /\ wf v /\ wf_args r
  end.

End Wf.

(* the shape of argument lists: the args / arglist / incomplete_arglist / named_arglist
   grammar of parser.py as a condition on the slots - positional slots (values and empty
   slots) first, then named ones; the positional part ends with a value, or with
   `value, <empty>` when a named argument follows ([sstate] tracks this) *)
Fixpoint all_named (a : args) : Prop :=
  match a with
  | ANil => True
  | ANamed _ _ r => all_named r
  | _ => False
  end.
Fixpoint shape_from (st : sstate) (a : args) : Prop :=
  match a with
  | ANil => st = S0
  | AEmpty r => shape_from (after_empty st) r
  | AVal _ r => match r with ANil => True | _ => shape_from SV r end
  | ANamed _ _ r => named_ok st = true /\ all_named r
  end.
Fixpoint shaped (t : tree) : Prop :=
  match t with
  | Atom _ => True
  | Un _ y | Suf _ y | Wrap y => shaped y
  | Bin _ l r => shaped l /\ shaped r
  | Index x a | CallV x a => shaped x /\ shape_from S0 a /\ shaped_args a
  | ListE a | MapE a | Call _ a => shape_from S0 a /\ shaped_args a
  end
with shaped_args (a : args) : Prop :=
  match a with
  | ANil => True
  | AEmpty r => shaped_args r
  | AVal x r => shaped x /\ shaped_args r
  | ANamed k v r => shaped k /\ shaped v /\ shaped_args r
  end.

(* the core fragment: atoms, prefix and binary operators, parentheses *)
Fixpoint core (x : tree) : Prop :=
  match x with
  | Atom _ => True
  | Un _ y | Wrap y => core y
  | Bin _ l r => core l /\ core r
  | _ => False
  end.

(* ---------------------------------------------------------------- decidable equality for the correspondence *)
Definition token_eqb (a b : token) : bool :=
  match a, b with
  | TAtom x, TAtom y => Nat.eqb x y
  | TOp x, TOp y | TFunc x, TFunc y => str_eqb x y
  | TLP, TLP | TRP, TRP | TLB, TLB | TRB, TRB | TLC, TLC | TRC, TRC | TComma, TComma | TMap, TMap => true
  | _, _ => false
  end.

Fixpoint tree_eqb (a b : tree) : bool :=
  match a, b with
  | Atom x, Atom y => Nat.eqb x y
  | Un o x, Un o' x' | Suf o x, Suf o' x' => str_eqb o o' && tree_eqb x x'
  | Bin o l r, Bin o' l' r' => str_eqb o o' && tree_eqb l l' && tree_eqb r r'
  | Wrap x, Wrap x' => tree_eqb x x'
  | Index x s, Index x' s' => tree_eqb x x' && args_eqb s s'
  | ListE s, ListE s' | MapE s, MapE s' => args_eqb s s'
  | Call f s, Call f' s' => str_eqb f f' && args_eqb s s'
  | CallV x s, CallV x' s' => tree_eqb x x' && args_eqb s s'
  | _, _ => false
  end
with args_eqb (a b : args) : bool :=
  match a, b with
  | ANil, ANil => true
  | AEmpty r, AEmpty r' => args_eqb r r'
  | AVal x r, AVal x' r' => tree_eqb x x' && args_eqb r r'
  | ANamed k v r, ANamed k' v' r' => tree_eqb k k' && tree_eqb v v' && args_eqb r r'
  | _, _ => false
  end.

(* one correspondence case: the tokens the real lexer produced for a text and the
   tree the real parser built (None: YaqlGrammarException) *)
Record case := { c_toks : list token; c_tree : option tree }.
Definition case_ok_with (delegates : bool) (B : option built) (c : case) : bool :=
  match B with
  | None => false
  | Some b => option_eqb tree_eqb
                (parse (if delegates then table_of_delegates b else table_of b) (c_toks c)) (c_tree c)
  end.
Definition case_ok := case_ok_with false.
