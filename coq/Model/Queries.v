(* Reference (list) semantics of yaql/standard_library/queries.py and
   collections.py: values, the defunctionalised lambda family, and every
   collection function as a total function over lists.  No proofs here.

   Values: null, booleans, integers, strings, (nested) sequences and dicts.  A sequence / dict carries a flag telling
   whether the Python object is a mutable `list` / `dict` or yaql's `tuple` / FrozenDict: Python never equates a list
   with a tuple and lists and dicts are unhashable, both of which are visible through indexOf/distinct/groupBy/toSet.
   Since the repairs F25 (b83548a) and F26 (6c8b3da) no function of the two modules produces the mutable kinds any
   more (theorem C13_collection_kinds; the raw-kind census of the correspondence checks it on the code). *)
From Coq Require Import List ZArith Bool Arith Lia.
From YV Require Import Common.Corr.
Import ListNotations.

Inductive val :=
| VNull
| VBool (b : bool)
| VInt (z : Z)
| VList (mut : bool) (l : list val)
| VStr (s : list Z)                              (* a string: its code points *)
| VDict (mut : bool) (d : list (val * val)).     (* FrozenDict (false) / dict (true), insertion order *)

Inductive err := EValue | EType | EStop | ENoMatch | ETooLarge | EIndex | EKey | EOther.

Definition err_eqb (a b : err) : bool :=
  match a, b with
  | EValue, EValue | EType, EType | EStop, EStop | ENoMatch, ENoMatch
  | ETooLarge, ETooLarge | EIndex, EIndex | EKey, EKey | EOther, EOther => true
  | _, _ => false
  end.

(* sorted(key=Comparator): a stable sort driven by `lt` only *)
Section Sort.
  Context {A : Type}.
  Variable lt : A -> A -> bool.
  Fixpoint ins_sorted (x : A) (l : list A) : list A :=
    match l with
    | [] => [x]
    | y :: r => if lt y x then y :: ins_sorted x r else x :: y :: r
    end.
  Fixpoint sort_l (l : list A) : list A :=
    match l with [] => [] | x :: r => ins_sorted x (sort_l r) end.
End Sort.

(* ---- ordering used by orderBy: yaql's #operator_< / #operator_> ------------ *)
(* null is below everything else; integers (and booleans) by value; strings by code points.  Sequences
   are not orderable in yaql (no overload); the rank function places them in one
   class so that the relation stays a total preorder on the whole universe. *)
Definition key_rank (v : val) : Z * list Z :=
  match v with
  | VNull => (0, [])
  | VBool b => (1, [if b then 1 else 0])
  | VInt z => (1, [z])
  | VStr s => (2, s)
  | VList _ _ => (3, [])
  | VDict _ _ => (4, [])
  end%Z.

(* lexicographic comparison of code point / integer lists: Python's str and tuple-of-int order *)
Fixpoint lcmp (a b : list Z) : comparison :=
  match a, b with
  | [], [] => Eq
  | [], _ :: _ => Lt
  | _ :: _, [] => Gt
  | x :: r, y :: r' => match Z.compare x y with Eq => lcmp r r' | c => c end
  end.

Definition kcmp (a b : val) : comparison :=
  let '(ra, za) := key_rank a in
  let '(rb, zb) := key_rank b in
  match Z.compare ra rb with
  | Eq => lcmp za zb
  | c => c
  end.

Definition val_ltb (a b : val) : bool := match kcmp a b with Lt => true | _ => false end.
Definition val_gtb (a b : val) : bool := match kcmp a b with Gt => true | _ => false end.

(* ---- equality ------------------------------------------------------------ *)
(* Python ==/hash on the modelled values: True == 1, False == 0; a tuple never
   equals a list. *)
Definition num_of (v : val) : option Z :=
  match v with VBool b => Some (if b then 1 else 0)%Z | VInt z => Some z | _ => None end.

Fixpoint val_seqb (a b : val) : bool :=
  match a, b with
  | VNull, VNull => true
  | VList m l, VList m' l' =>
      Bool.eqb m m' &&
      (fix go (l l' : list val) : bool :=
         match l, l' with
         | [], [] => true
         | x :: r, y :: r' => val_seqb x y && go r r'
         | _, _ => false
         end) l l'
  | VBool x, VBool y => Bool.eqb x y
  | VBool x, VInt y => Z.eqb (if x then 1 else 0) y
  | VInt x, VBool y => Z.eqb x (if y then 1 else 0)
  | VInt x, VInt y => Z.eqb x y
  | VStr x, VStr y => list_eqb Z.eqb x y
  | VDict _ d, VDict _ d' =>
      (fix go (d d' : list (val * val)) : bool :=
         match d, d' with
         | [], [] => true
         | (k, v) :: r, (k', v') :: r' => val_seqb k k' && val_seqb v v' && go r r'
         | _, _ => false
         end) d d'
  | _, _ => false
  end.

(* Python compares dicts (FrozenDict and dict alike) as finite maps, regardless of insertion order, and hashes them
   accordingly.  [canon] brings every dict (at every depth) into one order - its items stably sorted by key for the
   order yaql's < induces on scalars (null < numbers < strings) - and forgets the frozen/mutable distinction;
   equality is structural equality of the canonical forms.  (Dicts whose keys are themselves sequences or dicts tie
   in that order and are compared in insertion order.) *)
Fixpoint canon (v : val) : val :=
  match v with
  | VList m l => VList m (map canon l)
  | VDict _ d => VDict false (sort_l (fun p q => val_ltb (fst p) (fst q))
                                     (map (fun kv => match kv with (k, x) => (canon k, canon x) end) d))
  | x => x
  end.

Definition val_eqb (a b : val) : bool := val_seqb (canon a) (canon b).

(* strict structural equality modulo the tuple/list flag: what two finalised
   results are compared with (True and 1 are different observations) *)
Fixpoint val_obs_eqb (a b : val) : bool :=
  match a, b with
  | VNull, VNull => true
  | VBool x, VBool y => Bool.eqb x y
  | VInt x, VInt y => Z.eqb x y
  | VList _ l, VList _ l' =>
      (fix go (l l' : list val) : bool :=
         match l, l' with
         | [], [] => true
         | x :: r, y :: r' => val_obs_eqb x y && go r r'
         | _, _ => false
         end) l l'
  | VStr x, VStr y => list_eqb Z.eqb x y
  | VDict _ d, VDict _ d' =>
      (fix go (d d' : list (val * val)) : bool :=
         match d, d' with
         | [], [] => true
         | (k, v) :: r, (k', v') :: r' => val_obs_eqb k k' && val_obs_eqb v v' && go r r'
         | _, _ => false
         end) d d'
  | _, _ => false
  end.

Fixpoint hashable (v : val) : bool :=
  match v with
  | VList m l => negb m && forallb hashable l
  | VDict m d => negb m && forallb (fun kv => hashable (fst kv) && hashable (snd kv)) d
  | _ => true
  end.

Fixpoint vmem (v : val) (l : list val) : bool :=
  match l with [] => false | x :: r => val_eqb v x || vmem v r end.

Definition truthy (v : val) : bool :=
  match v with
  | VNull => false
  | VBool b => b
  | VInt z => negb (Z.eqb z 0)
  | VList _ l => match l with [] => false | _ => true end
  | VStr s => match s with [] => false | _ => true end
  | VDict _ d => match d with [] => false | _ => true end
  end.

(* ---- the lambda family ------------------------------------------------------ *)
Inductive lam :=
| LId                      (* $            *)
| LGt (c : Z)              (* $ > c        *)
| LLt (c : Z)              (* $ < c        *)
| LEqZ (c : Z)             (* $ = c        *)
| LNeqZ (c : Z)            (* $ != c       *)
| LIsNull                  (* $ = null     *)
| LModEq (c r : Z)         (* $ mod c = r  *)
| LMod (c : Z)             (* $ mod c      *)
| LAdd (c : Z)             (* $ + c        *)
| LMul (c : Z)             (* $ * c        *)
| LPair                    (* [$, $]       *)
| LPairMod (c : Z)         (* [$ mod c, $] *)
| LIdx (n : nat)           (* $[n]         *)
| LConst (c : Z)           (* c            *)
| LField (k : list Z)      (* $.k on a dict element (k a keyword) *)
| LFieldGt (k : list Z) (c : Z)   (* $.k > c *)
| LStrLt (s : list Z)      (* $ < 's'      *)
| LStrCat (s : list Z)     (* $ + 's'      *)
| LStrLen.                 (* len($)       *)

Definition apply (f : lam) (v : val) : val :=
  match f, v with
  | LId, _ => v
  | LGt c, VInt z => VBool (Z.ltb c z)
  | LGt c, VNull => VBool false
  | LLt c, VInt z => VBool (Z.ltb z c)
  | LLt c, VNull => VBool true
  | LEqZ c, _ => VBool (val_eqb v (VInt c))
  | LNeqZ c, _ => VBool (negb (val_eqb v (VInt c)))
  | LIsNull, _ => VBool (match v with VNull => true | _ => false end)
  | LModEq c r, VInt z => VBool (Z.eqb (Z.modulo z c) r)
  | LMod c, VInt z => VInt (Z.modulo z c)
  | LAdd c, VInt z => VInt (z + c)
  | LMul c, VInt z => VInt (z * c)
  | LPair, _ => VList false [v; v]
  | LPairMod c, VInt z => VList false [VInt (Z.modulo z c); v]
  | LIdx n, VList _ l => nth n l VNull
  | LConst c, _ => VInt c
  | LField k, VDict _ d => match find (fun kv => val_eqb (fst kv) (VStr k)) d with Some kv => snd kv | None => VNull end
  | LFieldGt k c, VDict _ d =>
      match find (fun kv => val_eqb (fst kv) (VStr k)) d with
      | Some (_, VInt z) => VBool (Z.ltb c z)
      | Some (_, VNull) => VBool false
      | _ => VNull
      end
  | LStrLt t, VStr s => VBool (match lcmp s t with Lt => true | _ => false end)
  | LStrCat t, VStr s => VStr (s ++ t)
  | LStrLen, VStr s => VInt (Z.of_nat (length s))
  | _, _ => VNull          (* ill-typed application: never generated (see harness) *)
  end.

Inductive lam2 :=
| L2Add        (* $1 + $2 *)
| L2Mul        (* $1 * $2 *)
| L2Fst        (* $1 *)
| L2Snd        (* $2 *)
| L2Max        (* max($1, $2) *)
| L2Min        (* min($1, $2) *)
| L2Pair       (* [$1, $2] *)
| L2Gt         (* $1 > $2 *)
| L2Eq.        (* $1 = $2 *)

Definition apply2 (f : lam2) (a b : val) : val :=
  match f, a, b with
  | L2Add, VInt x, VInt y => VInt (x + y)
  | L2Add, VList false x, VList false y => VList false (x ++ y)     (* tuple + tuple *)
  | L2Add, VStr x, VStr y => VStr (x ++ y)
  | L2Mul, VInt x, VInt y => VInt (x * y)
  | L2Fst, _, _ => a
  | L2Snd, _, _ => b
  | L2Max, VInt x, VInt y => VInt (Z.max x y)
  | L2Min, VInt x, VInt y => VInt (Z.min x y)
  | L2Pair, _, _ => VList false [a; b]
  | L2Gt, _, _ => VBool (val_gtb a b)
  | L2Eq, _, _ => VBool (val_eqb a b)
  | _, _, _ => VNull
  end.

(* ========================================================================== *)
(* List semantics, generic in the element type wherever no value is inspected  *)
(* ========================================================================== *)
Section Generic.
  Context {A : Type}.

  Definition where_l (p : A -> bool) (l : list A) : list A := filter p l.
  Definition select_l {B} (f : A -> B) (l : list A) : list B := map f l.
  Definition take_l (n : nat) (l : list A) : list A := firstn n l.
  Definition skip_l (n : nat) (l : list A) : list A := skipn n l.

  Fixpoint take_while_l (p : A -> bool) (l : list A) : list A :=
    match l with [] => [] | x :: r => if p x then x :: take_while_l p r else [] end.
  Fixpoint skip_while_l (p : A -> bool) (l : list A) : list A :=
    match l with [] => [] | x :: r => if p x then skip_while_l p r else l end.

  (* list.insert(position, value): negative positions count from the end, clamped *)
  Definition norm_pos (len pos : Z) : nat :=
    Z.to_nat (if Z.ltb pos 0 then Z.max 0 (len + pos) else Z.min pos len).
  Definition list_insert_l (l : list A) (pos : Z) (v : A) : list A :=
    let i := norm_pos (Z.of_nat (length l)) pos in firstn i l ++ v :: skipn i l.

  (* iter_insert: the generator's rule (negative positions never match) *)
  Fixpoint iter_insert_from (n : Z) (pos : Z) (v : A) (l : list A) : list A :=
    match l with
    | [] => if Z.gtb pos (n - 1) then [v] else []
    | t :: r => if Z.eqb n pos then v :: t :: iter_insert_from (n + 1) pos v r
                else t :: iter_insert_from (n + 1) pos v r
    end.
  Definition iter_insert_l (l : list A) (pos : Z) (v : A) : list A := iter_insert_from 0 pos v l.

  Fixpoint insert_many_from (n : Z) (pos : Z) (vs : list A) (l : list A) : list A :=
    match l with
    | [] => if Z.gtb pos (n - 1) then vs else []
    | t :: r => if Z.eqb n pos then vs ++ t :: insert_many_from (n + 1) pos vs r
                else t :: insert_many_from (n + 1) pos vs r
    end.
  Definition insert_many_l (l : list A) (pos : Z) (vs : list A) : list A :=
    (if Z.ltb pos 0 then vs else []) ++ insert_many_from 0 pos vs l.

  Definition del_keep (pos cnt n : Z) : bool :=
    if Z.geb cnt 0 then negb (Z.leb pos n && Z.ltb n (pos + cnt)) else negb (Z.geb n pos).
  Fixpoint delete_from (n pos cnt : Z) (l : list A) : list A :=
    match l with
    | [] => []
    | t :: r => if del_keep pos cnt n then t :: delete_from (n + 1) pos cnt r
                else delete_from (n + 1) pos cnt r
    end.
  Definition delete_l (l : list A) (pos cnt : Z) : list A := delete_from 0 pos cnt l.

  Definition in_window (pos cnt n : Z) : bool :=
    (Z.geb cnt 0 && Z.leb pos n && Z.ltb n (pos + cnt)) || (Z.ltb cnt 0 && Z.geb n pos).
  Fixpoint replace_from (n pos cnt : Z) (vs : list A) (yielded : bool) (l : list A) : list A :=
    match l with
    | [] => []
    | t :: r => if in_window pos cnt n
                then (if yielded then [] else vs) ++ replace_from (n + 1) pos cnt vs true r
                else t :: replace_from (n + 1) pos cnt vs yielded r
    end.
  Definition replace_many_l (l : list A) (pos : Z) (vs : list A) (cnt : Z) : list A :=
    replace_from 0 pos cnt vs false l.
  Definition replace_l (l : list A) (pos : Z) (v : A) (cnt : Z) : list A :=
    replace_many_l l pos [v] cnt.

  (* Python slicing lst[:index], lst[index:] *)
  Definition slice_index (len idx : Z) : nat :=
    Z.to_nat (if Z.ltb idx 0 then Z.max 0 (len + idx) else Z.min idx len).
  Definition split_at_l (l : list A) (idx : Z) : list A * list A :=
    let i := slice_index (Z.of_nat (length l)) idx in (firstn i l, skipn i l).

  (* slice(n): chunks of n; fuel = length of the list is always enough *)
  Fixpoint chunks_fuel (fuel n : nat) (l : list A) : list (list A) :=
    match fuel with
    | O => []
    | S f => match l with
             | [] => []
             | _ => match n with O => [] | _ => firstn n l :: chunks_fuel f n (skipn n l) end
             end
    end.
  Definition chunks_l (n : nat) (l : list A) : list (list A) := chunks_fuel (length l) n l.

  (* splitWhere: delimiters removed; a trailing empty part is dropped, others kept *)
  Fixpoint split_where_go (p : A -> bool) (cur : list A) (l : list A) : list (list A) :=
    match l with
    | [] => match cur with [] => [] | _ => [rev cur] end
    | x :: r => if p x then rev cur :: split_where_go p [] r else split_where_go p (x :: cur) r
    end.
  Definition split_where_l (p : A -> bool) (l : list A) : list (list A) := split_where_go p [] l.

  (* sliceWhere: maximal runs on which the predicate's VALUE is constant *)
  Fixpoint slice_where_go {B} (eqb : B -> B -> bool) (p : A -> B) (prev : option B) (cur : list A) (l : list A)
    : list (list A) :=
    match l with
    | [] => match cur with [] => [] | _ => [rev cur] end
    | x :: r =>
        let p2 := p x in
        match prev with
        | Some p1 => if negb (eqb p2 p1) then rev cur :: slice_where_go eqb p (Some p2) [x] r
                     else slice_where_go eqb p (Some p2) (x :: cur) r
        | None => slice_where_go eqb p (Some p2) (x :: cur) r
        end
    end.
  Definition slice_where_l {B} (eqb : B -> B -> bool) (p : A -> B) (l : list A) : list (list A) :=
    slice_where_go eqb p None [] l.

  Fixpoint zip_l {B} (a : list A) (b : list B) : list (A * B) :=
    match a, b with x :: r, y :: r' => (x, y) :: zip_l r r' | _, _ => [] end.

  Fixpoint enumerate_l (n : Z) (l : list A) : list (Z * A) :=
    match l with [] => [] | x :: r => (n, x) :: enumerate_l (n + 1) r end.

  (* functools.reduce with an initial value / accumulate with a seed *)
  Definition aggregate_seed (f : A -> A -> A) (seed : A) (l : list A) : A := fold_left f l seed.
  Definition aggregate_l (f : A -> A -> A) (l : list A) : option A :=
    match l with [] => None | x :: r => Some (fold_left f r x) end.
  Fixpoint accumulate_from (f : A -> A -> A) (tot : A) (l : list A) : list A :=
    match l with [] => [] | x :: r => let t := f tot x in t :: accumulate_from f t r end.
  Definition accumulate_seed (f : A -> A -> A) (seed : A) (l : list A) : list A :=
    seed :: accumulate_from f seed l.
  Definition accumulate_l (f : A -> A -> A) (l : list A) : option (list A) :=
    match l with [] => None | x :: r => Some (accumulate_seed f x r) end.

  Section Eq.
    Variable eqb : A -> A -> bool.
    Fixpoint mem_by (x : A) (l : list A) : bool :=
      match l with [] => false | y :: r => eqb x y || mem_by x r end.

    (* indexOf / lastIndexOf: position or -1 *)
    Fixpoint index_from (n : Z) (p : A -> bool) (l : list A) : Z :=
      match l with [] => (-1)%Z | x :: r => if p x then n else index_from (n + 1) p r end.
    Fixpoint last_index_from (n : Z) (p : A -> bool) (best : Z) (l : list A) : Z :=
      match l with [] => best | x :: r => last_index_from (n + 1) p (if p x then n else best) r end.
  End Eq.

  (* distinct with a key: keep an element iff its key was not seen before *)
  Section Key.
    Context {K : Type}.
    Variable keqb : K -> K -> bool.
    Variable key : A -> K.
    Fixpoint kmem (k : K) (seen : list K) : bool :=
      match seen with [] => false | y :: r => keqb k y || kmem k r end.
    Fixpoint distinct_from (seen : list K) (l : list A) : list A :=
      match l with
      | [] => []
      | x :: r => if kmem (key x) seen then distinct_from seen r
                  else x :: distinct_from (key x :: seen) r
      end.
    Definition distinct_l (l : list A) : list A := distinct_from [] l.

    (* groupBy: dict.setdefault(key, []).append(value); items() in insertion order *)
    Fixpoint group_add {V} (k : K) (v : V) (g : list (K * list V)) : list (K * list V) :=
      match g with
      | [] => [(k, [v])]
      | (k', vs) :: r => if keqb k k' then (k', vs ++ [v]) :: r else (k', vs) :: group_add k v r
      end.
    Definition group_by_l {V} (value : A -> V) (l : list A) : list (K * list V) :=
      fold_left (fun g x => group_add (key x) (value x) g) l [].
  End Key.

End Generic.

(* OrderingIterable.Comparator.compare: first key on which `<` or `>` decides *)
Definition okey := (lam * bool)%type.        (* selector, ascending? *)
Fixpoint compare_keys (keys : list okey) (a b : val) : Z :=
  match keys with
  | [] => 0%Z
  | (f, asc) :: r =>
      let x := apply f a in
      let y := apply f b in
      if val_ltb x y then (if asc then (-1)%Z else 1%Z)
      else if val_gtb x y then (if asc then 1%Z else (-1)%Z)
      else compare_keys r a b
  end.
Definition keys_lt (keys : list okey) (a b : val) : bool := Z.ltb (compare_keys keys a b) 0.
Definition order_by_l (keys : list okey) (l : list val) : list val := sort_l (keys_lt keys) l.

(* ---- association lists (Python dicts keep insertion order) ------------------- *)
Definition kvs := list (val * val).
Fixpoint dict_set_l (k v : val) (d : kvs) : kvs :=
  match d with
  | [] => [(k, v)]
  | (k', v') :: r => if val_eqb k k' then (k', v) :: r else (k', v') :: dict_set_l k v r
  end.
Fixpoint dict_get_l (k : val) (d : kvs) : option val :=
  match d with [] => None | (k', v) :: r => if val_eqb k k' then Some v else dict_get_l k r end.
Fixpoint dict_del_l (k : val) (d : kvs) : kvs :=
  match d with [] => [] | (k', v) :: r => if val_eqb k k' then r else (k', v) :: dict_del_l k r end.
Definition dict_of_items (items : kvs) : kvs := fold_left (fun d kv => dict_set_l (fst kv) (snd kv) d) items [].
Definition dict_update_l (d e : kvs) : kvs := fold_left (fun d kv => dict_set_l (fst kv) (snd kv) d) e d.
Definition dict_delete_all (d : kvs) (ks : list val) : kvs := fold_left (fun d k => dict_del_l k d) ks d.

(* ---- sets as duplicate-free lists in insertion order ---------------------------- *)
Fixpoint set_of_list_from (acc : list val) (l : list val) : list val :=
  match l with [] => acc | x :: r => if vmem x acc then set_of_list_from acc r else set_of_list_from (acc ++ [x]) r end.
Definition set_of_list (l : list val) : list val := set_of_list_from [] l.
Definition set_union (a b : list val) : list val := set_of_list_from a b.
Definition set_inter (a b : list val) : list val := filter (fun x => vmem x b) a.
Definition set_diff (a b : list val) : list val := filter (fun x => negb (vmem x b)) a.
Definition set_symdiff (a b : list val) : list val := set_diff a b ++ set_diff b a.

(* range(start, stop, step) for step <> 0 *)
Fixpoint range_fuel (fuel : nat) (cur stop step : Z) : list val :=
  match fuel with
  | O => []
  | S f => if (if Z.ltb 0 step then Z.ltb cur stop else Z.ltb stop cur)
           then VInt cur :: range_fuel f (cur + step) stop step else []
  end.
Definition range_l (start stop step : Z) : list val :=
  range_fuel (Z.to_nat (Z.abs (stop - start)) + 1) start stop step.

(* flatten: every nested sequence is expanded, depth first *)
Fixpoint flat_val (v : val) : list val :=
  match v with VList _ l => flat_map flat_val l | x => [x] end.

(* sequence * n *)
Definition times_l (l : list val) (n : Z) : list val := concat (repeat l (Z.to_nat n)).

(* Python indexing lst[i] *)
Definition py_index (l : list val) (i : Z) : option val :=
  let n := Z.of_nat (length l) in
  let j := if Z.ltb i 0 then (i + n)%Z else i in
  if Z.leb 0 j && Z.ltb j n then nth_error l (Z.to_nat j) else None.

(* set comparisons *)
Definition set_le (a b : list val) : bool := forallb (fun x => vmem x b) a.
Definition set_lt (a b : list val) : bool := set_le a b && Nat.ltb (length a) (length b).
