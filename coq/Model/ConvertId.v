(* C10 / C09: convert_output_data with OBJECT IDENTITY.

   [ival] is the value universe of Model/Convert.v in which every mutable
   container node (list, dict, set) carries the identity of its Python object
   (an allocation index; the same index at two positions = the same object =
   shared sub-structure / aliasing).  [co_id o v n] is convert_output_data as a
   function on the allocator: n is the next free index, every list / dict / set
   the conversion builds takes the next index.  Tuples and scalar leaves are
   immutable and carry no identity (leaves ARE shared with the input: `return obj`).

   No proofs in this file. *)
From Coq Require Import List ZArith Bool Arith.
From YV Require Import Common.Corr Model.Convert.
Import ListNotations.

Inductive ival :=
| INull
| IBool (b : bool)
| IInt (z : Z)
| IFloat (tag : Z)
| IStr (s : str)
| ITuple (l : list ival)
| IList (id : nat) (l : list ival)
| IFDict (kvs : list (ival * ival))
| IDict (id : nat) (kvs : list (ival * ival))
| IFSet (l : list ival)
| ISet (id : nat) (l : list ival)
| IIter (l : list ival)
| IView (k : vkind) (kvs : list (ival * ival))
| IOrd (l : list ival).

(* forget identities *)
Fixpoint erase (v : ival) : val :=
  match v with
  | INull => VNull
  | IBool b => VBool b
  | IInt z => VInt z
  | IFloat t => VFloat t
  | IStr s => VStr s
  | ITuple l => VTuple (map erase l)
  | IList _ l => VList (map erase l)
  | IFDict kvs => VFDict (map (fun kv => (erase (fst kv), erase (snd kv))) kvs)
  | IDict _ kvs => VDict (map (fun kv => (erase (fst kv), erase (snd kv))) kvs)
  | IFSet l => VFSet (map erase l)
  | ISet _ l => VSet (map erase l)
  | IIter l => VIter (map erase l)
  | IView k kvs => VView k (map (fun kv => (erase (fst kv), erase (snd kv))) kvs)
  | IOrd l => VOrd (map erase l)
  end.

(* the identities of all mutable container nodes, every occurrence *)
Fixpoint cells (v : ival) : list nat :=
  match v with
  | INull | IBool _ | IInt _ | IFloat _ | IStr _ => []
  | ITuple l => flat_map cells l
  | IList i l => i :: flat_map cells l
  | IFDict kvs => flat_map (fun kv => cells (fst kv) ++ cells (snd kv)) kvs
  | IDict i kvs => i :: flat_map (fun kv => cells (fst kv) ++ cells (snd kv)) kvs
  | IFSet l => flat_map cells l
  | ISet i l => i :: flat_map cells l
  | IIter l => flat_map cells l
  | IView _ kvs => flat_map (fun kv => cells (fst kv) ++ cells (snd kv)) kvs
  | IOrd l => flat_map cells l
  end.

Definition cells_kv (kv : ival * ival) : list nat := cells (fst kv) ++ cells (snd kv).

(* a value without identities (what convert_input produces has no mutable node at all) *)
Fixpoint inj (v : val) : ival :=
  match v with
  | VNull => INull
  | VBool b => IBool b
  | VInt z => IInt z
  | VFloat t => IFloat t
  | VStr s => IStr s
  | VTuple l => ITuple (map inj l)
  | VList l => IList 0 (map inj l)
  | VFDict kvs => IFDict (map (fun kv => (inj (fst kv), inj (snd kv))) kvs)
  | VDict kvs => IDict 0 (map (fun kv => (inj (fst kv), inj (snd kv))) kvs)
  | VFSet l => IFSet (map inj l)
  | VSet l => ISet 0 (map inj l)
  | VIter l => IIter (map inj l)
  | VView k kvs => IView k (map (fun kv => (inj (fst kv), inj (snd kv))) kvs)
  | VOrd l => IOrd (map inj l)
  end.

(* dict(...) / set(...) on identified values: equality is Python == of the erased keys *)
Fixpoint idict_set (kvs : list (ival * ival)) (k v : ival) : list (ival * ival) :=
  match kvs with
  | [] => [(k, v)]
  | kv :: r => if py_eqb (erase (fst kv)) (erase k) then (fst kv, v) :: r else kv :: idict_set r k v
  end.
Definition idict_of (ps : list (ival * ival)) : list (ival * ival) :=
  fold_left (fun acc p => idict_set acc (fst p) (snd p)) ps [].
Definition iset_add (l : list ival) (x : ival) : list ival :=
  if existsb (fun y => py_eqb (erase y) (erase x)) l then l else l ++ [x].
Definition iset_of (xs : list ival) : list ival := fold_left iset_add xs [].

(* state-passing map: the allocator is threaded left to right *)
Section MapS.
  Variables (A B : Type) (f : A -> nat -> res (B * nat)).
  Fixpoint mapS (l : list A) (n : nat) : res (list B * nat) :=
    match l with
    | [] => Ok ([], n)
    | x :: r => match f x n with
                | Err e => Err e
                | Ok (y, n1) => match mapS r n1 with
                                | Err e => Err e
                                | Ok (ys, n2) => Ok (y :: ys, n2)
                                end
                end
    end.
End MapS.
Arguments mapS {A B} f l n.

(* a new list object / a new tuple *)
Definition iseq_out (o : opts) (tuple_in : bool) (xs : list ival) (n : nat) : ival * nat :=
  if tuple_in && negb (t2l o) then (ITuple xs, n) else (IList n xs, S n).

Definition ibuild_dict (ps : list (ival * ival)) (n : nat) : res (ival * nat) :=
  if forallb (fun p => hashable (erase (fst p))) ps then Ok (IDict n (idict_of ps), S n) else Err PyType.
Definition ibuild_set (xs : list ival) (n : nat) : res (ival * nat) :=
  if forallb (fun x => hashable (erase x)) xs then Ok (ISet n (iset_of xs), S n) else Err PyType.

Fixpoint co_id (o : opts) (v : ival) (n : nat) {struct v} : res (ival * nat) :=
  let pair := fun (kv : ival * ival) (n : nat) =>
    match co_id o (fst kv) n with
    | Err e => Err e
    | Ok (ck, n1) => match co_id o (snd kv) n1 with
                     | Err e => Err e
                     | Ok (cv, n2) => Ok ((ck, cv), n2)
                     end
    end in
  let mapping := fun kvs : list (ival * ival) =>
    match mapS pair kvs n with Err e => Err e | Ok (ps, n1) => ibuild_dict ps n1 end in
  let setlike := fun l : list ival =>
    match mapS (co_id o) l n with
    | Err e => Err e
    | Ok (xs, n1) => if s2l o then Ok (IList n1 xs, S n1) else ibuild_set xs n1
    end in
  let listlike := fun (tuple_in : bool) (l : list ival) =>
    match mapS (co_id o) l n with Err e => Err e | Ok (xs, n1) => Ok (iseq_out o tuple_in xs n1) end in
  match v with
  | INull | IBool _ | IInt _ | IFloat _ | IStr _ => Ok (v, n)
  | IFDict kvs => mapping kvs
  | IDict _ kvs => mapping kvs
  | IFSet l => setlike l
  | ISet _ l => setlike l
  | ITuple l => listlike true l
  | IList _ l => listlike false l
  | IIter l => listlike false l
  | IOrd l => listlike false l
  | IView KKeys kvs =>
      match mapS (fun kv n => co_id o (fst kv) n) kvs n with
      | Err e => Err e | Ok (xs, n1) => Ok (IList n1 xs, S n1) end
  | IView KValues kvs =>
      match mapS (fun kv n => co_id o (snd kv) n) kvs n with
      | Err e => Err e | Ok (xs, n1) => Ok (IList n1 xs, S n1) end
  | IView KItems kvs =>
      match mapS (fun kv n => match pair kv n with
                              | Err e => Err e
                              | Ok (p, n1) => Ok (iseq_out o true [fst p; snd p] n1)
                              end) kvs n with
      | Err e => Err e | Ok (xs, n1) => Ok (IList n1 xs, S n1) end
  end.

(* ---- decidable form of the freshness statement, run on OBSERVED results ------ *)
Fixpoint nat_nodupb (l : list nat) : bool :=
  match l with [] => true | x :: r => negb (existsb (Nat.eqb x) r) && nat_nodupb r end.

(* every mutable node of r was allocated at or after n, and no two positions of r
   hold the same mutable object *)
Definition fresh_okb (n : nat) (r : ival) : bool :=
  forallb (fun i => Nat.leb n i) (cells r) && nat_nodupb (cells r).

(* ---- correspondence ----------------------------------------------------------- *)
(* the harness numbers the distinct mutable objects of the input 0 .. i_n-1 (first
   occurrence; shared objects repeat their number), runs the real conversion, and
   numbers the mutable objects of the result: an object that already is an input
   object keeps its input number, a new object gets i_n, i_n+1, ... by first
   occurrence.  [i_via_input]: the value went through convert_input_data first
   (evaluate('$')), else it reached the finaliser as it is. *)
Inductive iobs := IOVal (v : ival) | IOErr | IOOther.
Record icase := { i_opts : opts; i_via_input : bool; i_n : nat; i_in : ival; i_obs : iobs }.

Definition icase_ok (c : icase) : bool :=
  let src := if i_via_input c then inj (convert_input (erase (i_in c))) else i_in c in
  match co_id (i_opts c) src (i_n c), i_obs c with
  | Ok (r, _), IOVal w => sim (erase r) (erase w) && fresh_okb (i_n c) r && fresh_okb (i_n c) w
  | Err _, IOErr => true
  | _, _ => false
  end.
