(* The iterator algebra: a defunctionalised model of the lazy objects that
   queries.py / collections.py return (filter, map, islice, chain, takewhile,
   dropwhile, zip and the hand-written generators), with a small-step [next]
   that threads a state counting pulls from the instrumented endless source and
   lambda applications.  On top of it: runtime values, one [stage] per yaql
   function, finalisation, and the case records used by the correspondence.
   No proofs here. *)
From Coq Require Import List ZArith Bool Arith Lia.
From YV Require Import Common.Corr Model.Queries.
Import ListNotations.

Record st := mkst { pulls : nat; ticks : nat }.
Definition st0 := mkst 0 0.
Definition pull (s : st) : st := mkst (S (pulls s)) (ticks s).
Definition tick (s : st) : st := mkst (pulls s) (S (ticks s)).
Definition tick_n (n : nat) (s : st) : st := mkst (pulls s) (n + ticks s).

Inductive collector :=
| CSort (keys : list okey)
| CSplitWhere (p : lam)
| CSliceWhere (p : lam).

(* lazy groups a selectMany selector can return: the group is itself an iterator, consumed only as far as the consumer asks *)
Inductive gsel :=
| GSeq                                   (* sequence($): endless $, $+1, ... (not instrumented) *)
| GRange                                 (* range($) *)
| GRepeat (n : option nat)               (* $.repeat(n) / $.repeat() *)
| GHost (k : Z)                          (* a second instrumented host iterator held in a context variable *)
| GHostMap (k : Z) (f : lam)             (* $grp.select(f) *)
| GHostFilter (k : Z) (p : lam).         (* $grp.where(p) *)

Inductive it :=
| Src (k : Z)                                   (* endless instrumented source k, k+1, ... *)
| OfList (l : list val)
| FailIt (e : err)
| Map (f : lam) (i : it)
| Filter (p : lam) (i : it)
| ISlice (a : nat) (b : option nat) (i : it)    (* still to skip, still to emit *)
| TakeWhile (p : lam) (i : it)
| DropWhile (p : lam) (i : it)
| Chain (i j : it)
| Enumerate (n : Z) (i : it)
| Distinct (f : option lam) (seen : list val) (i : it)
| Zip (l : list it)
| AccStart (f : lam2) (seed : option val) (i : it)
| AccRun (f : lam2) (tot : val) (i : it)
| InsertAt (pos : Z) (v : val) (n : Z) (i : it)
| InsertMany (pos : Z) (vals : it) (n : Z) (i : it)
| DeleteAt (pos cnt : Z) (n : Z) (i : it)
| ReplaceAt (pos cnt : Z) (vals : list val) (yielded : bool) (n : Z) (i : it)
| SliceN (n : Z) (i : it)
| SelectMany (f : lam) (i : it)
| Join (p f : lam2) (l2 : list val) (cur : option (val * list val)) (i : it)
| Memo (i : it)
| Limit (rem : nat) (i : it)
| Collect (c : collector) (acc : list val) (i : it)
| Cycle (saved : list val) (i : it)
| CycleL (orig cur : list val)
| Repeat (v : val) (n : option nat)
| Flatten (i : it)
| ZipLongest (fill : val) (l : list (option it))
| Generate (cur : val) (started : bool) (p f : lam) (sel : option lam) (seen : option (list val))
| GenMany (queue : list val) (bound : Z) (sel : option lam) (seen : option (list val)) (depth_first : bool)
| Count (k : Z)                                 (* sequence(k): k, k+1, ... without instrumentation *)
| SelectManyG (g : gsel) (i : it).              (* selectMany whose selector returns a LAZY group *)

Definition gsel_it (g : gsel) (x : val) : it :=
  match g, x with
  | GSeq, VInt z => Count z
  | GRange, VInt z => OfList (range_l 0 z 1)
  | GRepeat n, _ => Repeat x n
  | GHost k, _ => Src k
  | GHostMap k f, _ => Map f (Src k)
  | GHostFilter k p, _ => Filter p (Src k)
  | _, _ => FailIt ENoMatch
  end.

Inductive outcome := Yield (v : val) (i : it) | Done | Fail (e : err) | NoFuel.

Definition collect_result (c : collector) (l : list val) : list val :=
  match c with
  | CSort keys => order_by_l keys l
  | CSplitWhere p => map (VList false) (split_where_l (fun x => truthy (apply p x)) l)
  | CSliceWhere p => map (VList false) (slice_where_l val_eqb (apply p) l)
  end.
Definition collect_ticks (c : collector) (l : list val) : nat :=
  match c with CSort _ => 0 | _ => length l end.

(* zip of several collections: one pull from each member, left to right; the first exhausted member ends it *)
Fixpoint zip_go (step : st -> it -> st * outcome) (s : st) (l : list it) (vs : list val) (js : list it)
  : st * outcome :=
  match l with
  | [] => (s, Yield (VList false (rev vs)) (Zip (rev js)))
  | j :: r =>
      match step s j with
      | (s1, Yield v j') => zip_go step s1 r (v :: vs) (j' :: js)
      | r' => r'
      end
  end.

(* itertools.zip_longest: exhausted members give the fill value; ends when a round pulls nothing *)
Fixpoint zipl_go (step : st -> it -> st * outcome) (fill : val) (s : st) (l : list (option it))
         (vs : list val) (js : list (option it)) (active : bool) : st * outcome :=
  match l with
  | [] => if active then (s, Yield (VList false (rev vs)) (ZipLongest fill (rev js))) else (s, Done)
  | None :: r => zipl_go step fill s r (fill :: vs) (None :: js) active
  | Some j :: r =>
      match step s j with
      | (s1, Yield v j') => zipl_go step fill s1 r (v :: vs) (Some j' :: js) true
      | (s1, Done) => zipl_go step fill s1 r (fill :: vs) (None :: js) active
      | r' => r'
      end
  end.

(* the producer family of generateMany: [$ * 2, $ * 2 + 1].where($ < bound) *)
Definition gm_children (bound : Z) (v : val) : list val :=
  match v with
  | VInt z => filter (fun c => match c with VInt y => Z.ltb y bound | _ => false end) [VInt (z * 2); VInt (z * 2 + 1)]
  | _ => []
  end.

(* slice(n): to_list(islice(collection, n)), empty chunk ends the generator *)
Fixpoint slice_collect (step : st -> it -> st * outcome) (n : Z) (k : nat) (s : st) (j : it) (acc : list val)
  : st * outcome :=
  match k with
  | O => match acc with [] => (s, Done) | _ => (s, Yield (VList false (rev acc)) (SliceN n j)) end
  | S k' =>
      match step s j with
      | (s1, Yield v j') => slice_collect step n k' s1 j' (v :: acc)
      | (s1, Done) => match acc with [] => (s1, Done)
                      | _ => (s1, Yield (VList false (rev acc)) (SliceN n (OfList []))) end
      | r => r
      end
  end.

Fixpoint next (fuel : nat) (s : st) (i : it) {struct fuel} : st * outcome :=
  match fuel with
  | O => (s, NoFuel)
  | S fu =>
    match i with
    | Src k => (pull s, Yield (VInt k) (Src (k + 1)))
    | OfList [] => (s, Done)
    | OfList (x :: r) => (s, Yield x (OfList r))
    | FailIt e => (s, Fail e)
    | Map f j =>
        match next fu s j with
        | (s1, Yield v j') => (tick s1, Yield (apply f v) (Map f j'))
        | r => r
        end
    | Filter p j =>
        match next fu s j with
        | (s1, Yield v j') =>
            if truthy (apply p v) then (tick s1, Yield v (Filter p j'))
            else next fu (tick s1) (Filter p j')
        | r => r
        end
    | ISlice (S a) b j =>
        match next fu s j with
        | (s1, Yield _ j') => next fu s1 (ISlice a b j')
        | r => r
        end
    | ISlice O (Some O) _ => (s, Done)
    | ISlice O (Some (S b)) j =>
        match next fu s j with
        | (s1, Yield v j') => (s1, Yield v (ISlice O (Some b) j'))
        | r => r
        end
    | ISlice O None j =>
        match next fu s j with
        | (s1, Yield v j') => (s1, Yield v (ISlice O None j'))
        | r => r
        end
    | TakeWhile p j =>
        match next fu s j with
        | (s1, Yield v j') =>
            if truthy (apply p v) then (tick s1, Yield v (TakeWhile p j')) else (tick s1, Done)
        | r => r
        end
    | DropWhile p j =>
        match next fu s j with
        | (s1, Yield v j') =>
            if truthy (apply p v) then next fu (tick s1) (DropWhile p j') else (tick s1, Yield v j')
        | r => r
        end
    | Chain a b =>
        match next fu s a with
        | (s1, Yield v a') => (s1, Yield v (Chain a' b))
        | (s1, Done) => next fu s1 b
        | r => r
        end
    | Enumerate n j =>
        match next fu s j with
        | (s1, Yield v j') => (s1, Yield (VList false [VInt n; v]) (Enumerate (n + 1) j'))
        | r => r
        end
    | Distinct f seen j =>
        match next fu s j with
        | (s1, Yield v j') =>
            let '(s2, key) := match f with Some g => (tick s1, apply g v) | None => (s1, v) end in
            if negb (hashable key) then (s2, Fail EType)
            else if vmem key seen then next fu s2 (Distinct f seen j')
            else (s2, Yield v (Distinct f (key :: seen) j'))
        | r => r
        end
    | Zip [] => (s, Done)
    | Zip l => zip_go (next fu) s l [] []
    | AccStart f None j =>
        match next fu s j with
        | (s1, Yield v j') => (s1, Yield v (AccRun f v j'))
        | (s1, Done) => (s1, Fail EType)
        | r => r
        end
    | AccStart f (Some sd) j => (s, Yield sd (AccRun f sd j))
    | AccRun f tot j =>
        match next fu s j with
        | (s1, Yield v j') => let t := apply2 f tot v in (tick s1, Yield t (AccRun f t j'))
        | r => r
        end
    | InsertAt pos v n j =>
        match next fu s j with
        | (s1, Yield t j') =>
            if Z.eqb n pos then (s1, Yield v (Chain (OfList [t]) (InsertAt pos v (n + 1) j')))
            else (s1, Yield t (InsertAt pos v (n + 1) j'))
        | (s1, Done) => if Z.gtb pos (n - 1) then (s1, Yield v (OfList [])) else (s1, Done)
        | r => r
        end
    | InsertMany pos vals n j =>
        match next fu s j with
        | (s1, Yield t j') =>
            if Z.eqb n pos then next fu s1 (Chain vals (Chain (OfList [t]) (InsertMany pos (OfList []) (n + 1) j')))
            else (s1, Yield t (InsertMany pos vals (n + 1) j'))
        | (s1, Done) => if Z.gtb pos (n - 1) then next fu s1 vals else (s1, Done)
        | r => r
        end
    | DeleteAt pos cnt n j =>
        match next fu s j with
        | (s1, Yield t j') =>
            if del_keep pos cnt n then (s1, Yield t (DeleteAt pos cnt (n + 1) j'))
            else next fu s1 (DeleteAt pos cnt (n + 1) j')
        | r => r
        end
    | ReplaceAt pos cnt vals yielded n j =>
        match next fu s j with
        | (s1, Yield t j') =>
            if in_window pos cnt n then
              (if yielded then next fu s1 (ReplaceAt pos cnt vals true (n + 1) j')
               else next fu s1 (Chain (OfList vals) (ReplaceAt pos cnt vals true (n + 1) j')))
            else (s1, Yield t (ReplaceAt pos cnt vals yielded (n + 1) j'))
        | r => r
        end
    | SliceN n j =>
        if Z.ltb n 0 then (s, Fail EValue) else slice_collect (next fu) n (Z.to_nat n) s j []
    | SelectMany f j =>
        match next fu s j with
        | (s1, Yield x j') =>
            match apply f x with
            | VList _ l => next fu (tick s1) (Chain (OfList l) (SelectMany f j'))
            | v => (tick s1, Yield v (SelectMany f j'))
            end
        | r => r
        end
    | Count k => (s, Yield (VInt k) (Count (k + 1)))
    | SelectManyG g j =>
        match next fu s j with
        | (s1, Yield x j') => next fu (tick s1) (Chain (gsel_it g x) (SelectManyG g j'))
        | r => r
        end
    | Join p f l2 (Some (x, y :: r)) j =>
        if truthy (apply2 p x y) then (tick (tick s), Yield (apply2 f x y) (Join p f l2 (Some (x, r)) j))
        else next fu (tick s) (Join p f l2 (Some (x, r)) j)
    | Join p f l2 _ j =>
        match next fu s j with
        | (s1, Yield x j') => next fu s1 (Join p f l2 (Some (x, l2)) j')
        | r => r
        end
    | Memo j =>
        match next fu s j with
        | (s1, Yield v j') => (s1, Yield v (Memo j'))
        | r => r
        end
    | Limit rem j =>
        match next fu s j with
        | (s1, Yield v j') => match rem with O => (s1, Fail ETooLarge) | S r => (s1, Yield v (Limit r j')) end
        | r => r
        end
    | Collect c acc j =>
        match next fu s j with
        | (s1, Yield v j') => next fu s1 (Collect c (v :: acc) j')
        | (s1, Done) => let l := rev acc in next fu (tick_n (collect_ticks c l) s1) (OfList (collect_result c l))
        | r => r
        end
    | Cycle saved j =>
        match next fu s j with
        | (s1, Yield v j') => (s1, Yield v (Cycle (saved ++ [v]) j'))
        | (s1, Done) => next fu s1 (CycleL saved saved)
        | r => r
        end
    | CycleL [] _ => (s, Done)
    | CycleL orig [] => next fu s (CycleL orig orig)
    | CycleL orig (x :: r) => (s, Yield x (CycleL orig r))
    | Repeat v None => (s, Yield v (Repeat v None))
    | Repeat v (Some O) => (s, Done)
    | Repeat v (Some (S n)) => (s, Yield v (Repeat v (Some n)))
    | ZipLongest fill l => zipl_go (next fu) fill s l [] [] false
    | Generate cur started p f sel seen =>
        let '(s1, c) := if started then (tick s, apply f cur) else (s, cur) in
        if negb (truthy (apply p c)) then (tick s1, Done)
        else match seen with
             | Some past =>
                 if vmem c past then (tick s1, Done)
                 else let '(s2, v) := match sel with Some g => (tick (tick s1), apply g c) | None => (tick s1, c) end in
                      (s2, Yield v (Generate c true p f sel (Some (c :: past))))
             | None =>
                 let '(s2, v) := match sel with Some g => (tick (tick s1), apply g c) | None => (tick s1, c) end in
                 (s2, Yield v (Generate c true p f sel None))
             end
    | GenMany [] _ _ _ _ => (s, Done)
    | GenMany (item :: q) bound sel seen df =>
        let kids := gm_children bound item in
        let q' := if df then kids ++ q else q ++ kids in
        let out := match sel with Some g => apply g item | None => item end in
        match seen with
        | Some past => if vmem item past then next fu s (GenMany q bound sel seen df)
                       else (tick s, Yield out (GenMany q' bound sel (Some (item :: past)) df))
        | None => (tick s, Yield out (GenMany q' bound sel None df))
        end
    | Flatten j =>
        match next fu s j with
        | (s1, Yield x j') =>
            match x with
            | VList _ l => next fu s1 (Chain (OfList (flat_map flat_val l)) (Flatten j'))
            | v => (s1, Yield v (Flatten j'))
            end
        | r => r
        end
    end
  end.

Inductive res (T : Type) := Ok (x : T) | Err (e : err) | OutOfFuel | Unsupported.
Arguments Ok {T} x.
Arguments Err {T} e.
Arguments OutOfFuel {T}.
Arguments Unsupported {T}.

(* consume the iterator completely *)
Fixpoint drain (fuel : nat) (s : st) (i : it) : st * res (list val) :=
  match fuel with
  | O => (s, OutOfFuel)
  | S fu =>
      match next fu s i with
      | (s1, Yield v i') =>
          match drain fu s1 i' with
          | (s2, Ok l) => (s2, Ok (v :: l))
          | r => r
          end
      | (s1, Done) => (s1, Ok [])
      | (s1, Fail e) => (s1, Err e)
      | (s1, NoFuel) => (s1, OutOfFuel)
      end
  end.

(* [run n]: at most n successive [next]s (what `take(n)` of a consumer does) *)
Inductive status := Running (i : it) | Finished | Failed (e : err) | Starved.
Fixpoint run (fuel : nat) (s : st) (i : it) (n : nat) : st * list val * status :=
  match n with
  | O => (s, [], Running i)
  | S n' =>
      match next fuel s i with
      | (s1, Yield v i') => let '(s2, l, r) := run fuel s1 i' n' in (s2, v :: l, r)
      | (s1, Done) => (s1, [], Finished)
      | (s1, Fail e) => (s1, [], Failed e)
      | (s1, NoFuel) => (s1, [], Starved)
      end
  end.

(* short-circuit searches: index and value of the first element passing the test *)
Inductive pred := PLam (p : lam) | PNotLam (p : lam) | PTruthy | PNotTruthy | PEq (v : val) | PAlways.
Definition pred_test (s : st) (pr : pred) (v : val) : st * bool :=
  match pr with
  | PLam p => (tick s, truthy (apply p v))
  | PNotLam p => (tick s, negb (truthy (apply p v)))
  | PTruthy => (s, truthy v)
  | PNotTruthy => (s, negb (truthy v))
  | PEq w => (s, val_eqb v w)
  | PAlways => (s, true)
  end.
Fixpoint find_first (fuel : nat) (s : st) (pr : pred) (n : Z) (i : it) : st * res (option (Z * val)) :=
  match fuel with
  | O => (s, OutOfFuel)
  | S fu =>
      match next fu s i with
      | (s1, Yield v i') =>
          let '(s2, b) := pred_test s1 pr v in
          if b then (s2, Ok (Some (n, v))) else find_first fu s2 pr (n + 1) i'
      | (s1, Done) => (s1, Ok None)
      | (s1, Fail e) => (s1, Err e)
      | (s1, NoFuel) => (s1, OutOfFuel)
      end
  end.

(* ========================================================================== *)
(* runtime values and the yaql functions                                      *)
(* ========================================================================== *)
Inductive rv :=
| RVal (v : val)                       (* scalars, tuples, lists *)
| RDict (mut : bool) (d : kvs)         (* FrozenDict / dict *)
| RSet (l : list val)                  (* frozenset, insertion order *)
| RIter (i : it)                       (* one-shot iterator *)
| ROrd (keys : list okey) (i : it).    (* OrderingIterable: iterable, not an iterator *)

(* a collection bound to a name by let(m => ...) and traversed again while an earlier traversal of it is
   still suspended: every traversal of a re-iterable (tuple, list, OrderingIterable, dict view, MEMORIZED
   iterator) collection sees all its elements from the start *)
Inductive selfop :=
| SelfZip                          (* $m.zip($m) *)
| SelfZipSkip (n : nat)            (* $m.zip($m.skip(n)) *)
| SelfJoin (p f : lam2)            (* $m.join($m, p, f) *)
| SelfSelectAgg (c : Z) (agg : nat) (* $m.select($ * c + $m.AGG()), AGG = sum len max min first last *)
| SelfWhereLtMax                   (* $m.where($ < $m.max()) *)
| SelfSelectMany (n : nat)         (* $m.selectMany($m.select($ + 0).limit(n)) *)
| SelfFirstAll                     (* [$m.first(), $m.toList()] *)
| SelfCountSum.                    (* [$m.count(), $m.sum(0)] *)

(* ---- groupBy's aggregator protocol (queries.py GroupAggregator) ------------------------------------------------
   Since 1.1.1 the aggregator receives the group's VALUE LIST and the entry is [key, aggregator(values)].  Before, it
   received [key, values] and returned the whole entry.  The old style is still served by a fallback:
     - state: the first failure (IndexError / NoMatchingMethod/Function) of a new-style attempt, and a flag "fallback still allowed";
     - no failure so far: new-style attempt on the value list.  Success -> entry [key, result]; the flag is CLEARED unless
       the group has exactly two values and the result is a non-string 2-sequence whose first item equals the group's
       first value (only then could the call have been an old-style aggregator mistaking the values for [key, values]).
       IndexError / NoMatchingMethod/Function -> recorded as the failure; any other error propagates;
     - a failure recorded (now or on an earlier group): if the flag is still set, old-style attempt on [key, values];
       a result of length 2 IS the entry; anything else (or any error), or the flag cleared -> the FIRST failure is raised.
   The entries are produced lazily in group order, so the error surfaces after the entries of the earlier groups. *)
Inductive gagg :=
| GIdxPair        (* [$[0], $[1]] *)
| GIdxLen         (* [$[0], $[1].len()] *)
| GIdxSum         (* [$[0], $[1].sum()] *)
| GThird          (* $[2] *)
| GLenA           (* $.len() *)
| GSumA           (* $.sum() *)
| GFirstA         (* $.first() *)
| GIdA.           (* $ *)

Definition g_len (v : val) : res val :=
  match v with
  | VList _ l => Ok (VInt (Z.of_nat (length l)))
  | VStr s => Ok (VInt (Z.of_nat (length s)))
  | VDict _ d => Ok (VInt (Z.of_nat (length d)))
  | _ => Err ENoMatch
  end.
Definition g_sum (v : val) : res val :=
  match v with
  | VList _ [] => Err EType
  | VList _ (x :: t) => Ok (aggregate_seed (apply2 L2Add) x t)
  | VDict _ _ => Unsupported
  | _ => Err ENoMatch
  end.
Definition gapply (a : gagg) (x : val) : res val :=
  match x with
  | VList _ l =>
      match a with
      | GIdxPair => match l with u :: w :: _ => Ok (VList false [u; w]) | _ => Err EIndex end
      | GIdxLen => match l with
                   | u :: w :: _ => match g_len w with Ok n => Ok (VList false [u; n]) | e => e end
                   | _ => Err EIndex end
      | GIdxSum => match l with
                   | u :: w :: _ => match g_sum w with Ok n => Ok (VList false [u; n]) | e => e end
                   | _ => Err EIndex end
      | GThird => match l with _ :: _ :: w :: _ => Ok w | _ => Err EIndex end
      | GLenA => Ok (VInt (Z.of_nat (length l)))
      | GSumA => g_sum x
      | GFirstA => match l with u :: _ => Ok u | [] => Err EStop end
      | GIdA => Ok (VList false l)
      end
  | _ => Unsupported
  end.
Definition g_caught (e : err) : bool := match e with EIndex | ENoMatch => true | _ => false end.
(* could this successful call have been an old-style aggregator applied to a two-element value list? *)
Definition looks_legacy (r : val) (vs : list val) : bool :=
  match r, vs with
  | VList _ [r0; _], [v0; _] => val_eqb r0 v0
  | _, _ => false
  end.
Definition sized2 (r : val) : bool :=
  match r with VList _ [_; _] | VStr [_; _] | VDict _ [_; _] => true | _ => false end.

(* -> the entries produced, and the error that ends the sequence (if any); None: outside the modelled fragment *)
Fixpoint gagg_run (a : gagg) (gs : list (val * list val)) (failure : option err) (allow : bool)
  : option (list val * option err) :=
  match gs with
  | [] => Some ([], None)
  | (k, vs) :: rest =>
      match failure with
      | Some f =>
          if allow then
            match gapply a (VList false [k; VList false vs]) with
            | Ok r => if sized2 r
                      then match gagg_run a rest (Some f) allow with
                           | Some (o, e) => Some (r :: o, e) | None => None end
                      else Some ([], Some f)
            | Unsupported => None
            | _ => Some ([], Some f)
            end
          else Some ([], Some f)
      | None =>
          match gapply a (VList false vs) with
          | Ok r => match gagg_run a rest None (allow && looks_legacy r vs) with
                    | Some (o, e) => Some (VList false [k; r] :: o, e) | None => None end
          | Err f =>
              if g_caught f then
                if allow then
                  match gapply a (VList false [k; VList false vs]) with
                  | Ok r => if sized2 r
                            then match gagg_run a rest (Some f) allow with
                                 | Some (o, e) => Some (r :: o, e) | None => None end
                            else Some ([], Some f)
                  | Unsupported => None
                  | _ => Some ([], Some f)
                  end
                else Some ([], Some f)
              else Some ([], Some f)
          | _ => None
          end
      end
  end.

(* ---- collection.name ------------------------------------------------------------------------------------------
   `[{a => 1}, {a => 2}].a` is the map of "whatever `.` means in the calling context" over the elements
   (collection_attribution receives the context's #operator_. as a delegate).  The element access is a parameter:
     AccStd     the standard context: d[key], KeyError when the key is missing;
     AccLegacy  yaql.legacy contexts: d.get(key), null when missing;
     AccHost c  a child context in which the host overrides #operator_. for mappings with d.get(key, c).
   The results are produced lazily, so an error surfaces after the results of the earlier elements. *)
Inductive access := AccStd | AccLegacy | AccHost (c : Z).

Definition access_elem (acc : access) (name : list Z) (x : val) : res val :=
  match x with
  | VDict _ d =>
      match dict_get_l (VStr name) d with
      | Some v => Ok v
      | None => match acc with AccStd => Err EKey | AccLegacy => Ok VNull | AccHost c => Ok (VInt c) end
      end
  | _ => Unsupported
  end.

Fixpoint access_all (acc : access) (name : list Z) (l : list val) : option (list val * option err) :=
  match l with
  | [] => Some ([], None)
  | x :: r =>
      match access_elem acc name x with
      | Ok v => match access_all acc name r with Some (o, e) => Some (v :: o, e) | None => None end
      | Err e => Some ([], Some e)
      | _ => None
      end
  end.

Inductive stage :=
| SWhere (p : lam) | SSelect (f : lam) | SSelectMany (f : lam)
| SSkip (n : Z) | STake (n : Z)
| STakeWhile (p : lam) | SSkipWhile (p : lam)
| SAppend (vs : list val) | SConcat (ls : list (list val))
| SDistinct (k : option lam) | SEnumerate (start : option Z)
| SZip (ls : list (list val))
| SAccumulate (f : lam2) (seed : option val)
| SInsert (pos : Z) (v : val) | SInsertMany (pos : Z) (vs : list val)
| SDelete (pos : Z) (cnt : option Z)
| SReplace (pos : Z) (v : val) (cnt : option Z)
| SReplaceMany (pos : Z) (vs : list val) (cnt : option Z)
| SSlice (n : Z) | SMemorize | SReverse
| SOrderBy (f : lam) (asc : bool) | SThenBy (f : lam) (asc : bool)
| SGroupBy (k : lam) (v : option lam)
| SJoin (l2 : list val) (p f : lam2)
| SSplitAt (n : Z) | SSplitWhere (p : lam) | SSliceWhere (p : lam)
| SToList | SToSet | SCycle | SPlus (vs : list val)
| SAggregate (f : lam2) (seed : option val) | SSum (seed : option val) | SMin | SMax
| SFirst (d : option val) | SLast (d : option val) | SSingle
| SAny (p : option lam) | SAll (p : option lam)
| SIndexOf (v : val) | SLastIndexOf (v : val) | SIndexWhere (p : lam) | SLastIndexWhere (p : lam)
| SLen | SCount | SContains (v : val)
| SToDict (k : lam) (v : option lam) | SDictFromItems
| SDictSet (k v : val) | SDictDelete (ks : list val) | SDictDeleteAll (ks : list val)
| SDictPlus (d : kvs) | SMergeWith (d : kvs)
| SKeysList | SValuesList | SItemsList
| SDictGet (k : val) (d : option val) | SContainsKey (k : val) | SContainsValue (v : val)
| SUnion (l : list val) | SIntersect (l : list val) | SDifference (l : list val) | SSymDiff (l : list val)
| SSetAdd (vs : list val) | SSetRemove (vs : list val)
| SFlatten | SDefaultIfEmpty (d : list val) | STimes (n : Z)
| SIsList | SIsDict | SIsSet | SIsIterable
| SSetCmp (op : nat) (l : list val)          (* 0 <, 1 <=, 2 >, 3 >= *)
| SIndex (k : val) | SIndexDefault (k : val) (d : val)
| SGroupByAgg (k : lam) (v : option lam) (agg : nat)      (* aggregator 0: $.len()  1: $.sum()  2: $.first() *)
| SProject                                               (* collection.attribute on records *)
| SUnpackNamed (n : nat) | SUnpackIdx (idxs : list nat) | SWith
| SZipLongest (ls : list (list val)) (fill : option val)
| SListOf (vs : list val)
| SMergeWithX (d : kvs) (lm im : option lam2) (maxl : Z)
| SSelf (op : selfop)
| SAssertAny                                    (* .assert($.any()): memorizes an iterator, looks at its first element *)
| SGroupByAggP (k : lam) (v : option lam) (agg : list stage) (term : nat)    (* aggregator: $ + pipeline + count / sum(0) / first(null) / toList *)
| SSelectManyG (g : gsel)                       (* selectMany with a selector that returns a lazy group *)
| SGroupByG (k : lam) (v : option lam) (a : gagg) (fallback : bool)
| SProjectBy (name : list Z) (acc : access).      (* collection.name: the CONTEXT's member access mapped over the elements *)   (* groupBy's aggregator protocol, group by group *)

(* yaqltypes.Iterable(): tuples, lists, sets, iterators, OrderingIterable; not dicts *)
Definition as_it (r : rv) : option it :=
  match r with
  | RVal (VList _ l) => Some (OfList l)
  | RSet l => Some (OfList l)
  | RIter i => Some i
  | ROrd keys i => Some (Collect (CSort keys) [] i)
  | _ => None
  end.

Definition rr := (st * res rv)%type.
Definition ok_it (s : st) (i : it) : rr := (s, Ok (RIter i)).
Definition ok_val (s : st) (v : val) : rr := (s, Ok (RVal v)).
Definition no_match (s : st) : rr := (s, Err ENoMatch).

Definition with_it (s : st) (r : rv) (k : it -> rr) : rr :=
  match as_it r with Some i => k i | None => no_match s end.
Definition with_list (fuel : nat) (s : st) (r : rv) (k : st -> list val -> rr) : rr :=
  match as_it r with
  | Some i => match drain fuel s i with
              | (s1, Ok l) => k s1 l
              | (s1, Err e) => (s1, Err e)
              | (s1, OutOfFuel) => (s1, OutOfFuel)
              | (s1, Unsupported) => (s1, Unsupported)
              end
  | None => no_match s
  end.

Definition pair_val (k : val) (v : val) : val := VList false [k; v].

(* dict(items): each item is iterated for a key and a value *)
Fixpoint dict_from_items (acc : kvs) (l : list val) : res kvs :=
  match l with
  | [] => Ok acc
  | VList _ (k :: v :: _) :: r => if hashable k then dict_from_items (dict_set_l k v acc) r else Err EType
  | VList _ _ :: _ => Err EStop
  | VDict _ ((k, _) :: (v, _) :: _) :: r =>         (* iterating a mapping gives its keys *)
      if hashable k then dict_from_items (dict_set_l k v acc) r else Err EType
  | VDict _ _ :: _ => Err EStop
  | VStr (c1 :: c2 :: _) :: r => dict_from_items (dict_set_l (VStr [c1]) (VStr [c2]) acc) r      (* ... a string its characters *)
  | VStr _ :: _ => Err EStop
  | _ :: _ => Err EType
  end.

(* _merge_dicts: for every key of the left dict that the right one has too - nested dicts are merged recursively
   (maxLevels counts the levels still to descend, 0 = no bound, 1 = stop), sequences by the list merger
   (default: distinct of the concatenation), everything else by the item merger (default: the right value);
   then the keys only the right dict has.  The result, and every merged sub-dict, is a FrozenDict. *)
Definition is_seq (v : val) : bool := match v with VList _ _ => true | _ => false end.
Fixpoint merge_dicts (fuel : nat) (d1 d2 : kvs) (lm im : option lam2) (maxl : Z) : res kvs :=
  match fuel with
  | O => Unsupported
  | S fu =>
      let item v1 v2 := match im with Some g => apply2 g v1 v2 | None => v2 end in
      let first :=
        (fix go (l : kvs) : res kvs :=
           match l with
           | [] => Ok []
           | (k, v1) :: r =>
               match go r with
               | Ok rest =>
                   match dict_get_l k d2 with
                   | None => Ok ((k, v1) :: rest)
                   | Some v2 =>
                       if Z.eqb maxl 1 then Ok ((k, item v1 v2) :: rest)
                       else match v2 with
                            | VDict _ e2 =>
                                match v1 with
                                | VDict _ e1 =>
                                    match merge_dicts fu e1 e2 lm im (if Z.eqb maxl 0 then 0%Z else (maxl - 1)%Z) with
                                    | Ok m => Ok ((k, VDict false m) :: rest)
                                    | e => e
                                    end
                                | _ => Err EType
                                end
                            | VList m2 l2 =>
                                match v1 with
                                | VList m1 l1 =>
                                    match lm with
                                    | Some g => Ok ((k, apply2 g v1 v2) :: rest)
                                    | None => if m1 || m2 then Unsupported
                                              else if forallb hashable (l1 ++ l2)
                                                   then Ok ((k, VList false (distinct_l val_eqb (fun x => x) (l1 ++ l2))) :: rest)
                                                   else Err EType
                                    end
                                | _ => Err EType
                                end
                            | _ => Ok ((k, item v1 v2) :: rest)
                            end
                   end
               | e => e
               end
           end) d1 in
      match first with
      | Ok r => Ok (r ++ filter (fun kv => match dict_get_l (fst kv) r with Some _ => false | None => true end) d2)
      | e => e
      end
  end.

(* ---- the pure list reading of a stage (for pipelines of list -> list operators) ---- *)
Definition stage_list (sg : stage) (l : list val) : option (list val) :=
  let tr p := fun x => truthy (apply p x) in
  match sg with
  | SWhere p => Some (where_l (tr p) l)
  | SSelect f => Some (select_l (apply f) l)
  | SSkip n => if Z.ltb n 0 then None else Some (skip_l (Z.to_nat n) l)
  | STake n => if Z.ltb n 0 then None else Some (take_l (Z.to_nat n) l)
  | STakeWhile p => Some (take_while_l (tr p) l)
  | SSkipWhile p => Some (skip_while_l (tr p) l)
  | SAppend vs => Some (l ++ vs)
  | SConcat ls => Some (l ++ concat ls)
  | SDistinct k => if forallb (fun x => hashable (match k with Some g => apply g x | None => x end)) l
                   then Some (distinct_l val_eqb (fun x => match k with Some g => apply g x | None => x end) l) else None
  | SEnumerate n => Some (map (fun p => VList false [VInt (fst p); snd p])
                              (enumerate_l (match n with Some z => z | None => 0%Z end) l))
  | SInsertMany pos vs => Some (insert_many_l l pos vs)
  | SDelete pos cnt => Some (delete_l l pos (match cnt with Some c => c | None => 1%Z end))
  | SReplace pos v cnt => Some (replace_l l pos v (match cnt with Some c => c | None => 1%Z end))
  | SReplaceMany pos vs cnt => Some (replace_many_l l pos vs (match cnt with Some c => c | None => 1%Z end))
  | SSlice n => if Z.leb n 0 then None else Some (map (VList false) (chunks_l (Z.to_nat n) l))
  | SMemorize => Some l
  | SReverse => Some (rev l)
  | SOrderBy f asc => Some (order_by_l [(f, asc)] l)
  | SSplitWhere p => Some (map (VList false) (split_where_l (tr p) l))
  | SSliceWhere p => Some (map (VList false) (slice_where_l val_eqb (apply p) l))
  | SSelectMany f => Some (flat_map (fun x => match apply f x with VList _ e => e | v => [v] end) l)
  | SAccumulate f (Some sd) => Some (accumulate_seed (apply2 f) sd l)
  | SAccumulate f None => accumulate_l (apply2 f) l
  | SZip [l2] => Some (map (fun p => VList false [fst p; snd p]) (zip_l l l2))
  | _ => None
  end.

Fixpoint stages_list (sgs : list stage) (l : list val) : option (list val) :=
  match sgs with
  | [] => Some l
  | sg :: r => match stage_list sg l with Some l' => stages_list r l' | None => None end
  end.


Definition opt_lam_apply (s : st) (f : option lam) (v : val) : st * val :=
  match f with Some g => (tick s, apply g v) | None => (s, v) end.

Definition apply_stage (fuel : nat) (s : st) (sg : stage) (r : rv) : rr :=
  match sg with
  | SWhere p => with_it s r (fun i => ok_it s (Filter p i))
  | SSelect f => with_it s r (fun i => ok_it s (Map f i))
  | SSelectMany f => with_it s r (fun i => ok_it s (SelectMany f i))
  | SSkip n => with_it s r (fun i => if Z.ltb n 0 then (s, Err EValue) else ok_it s (ISlice (Z.to_nat n) None i))
  | STake n => with_it s r (fun i => if Z.ltb n 0 then (s, Err EValue) else ok_it s (ISlice 0 (Some (Z.to_nat n)) i))
  | STakeWhile p => with_it s r (fun i => ok_it s (TakeWhile p i))
  | SSkipWhile p => with_it s r (fun i => ok_it s (DropWhile p i))
  | SAppend vs => with_it s r (fun i => ok_it s (Chain i (OfList vs)))
  | SConcat ls => with_it s r (fun i => ok_it s (fold_left (fun a l => Chain a (OfList l)) ls i))
  | SDistinct k => with_it s r (fun i => ok_it s (Distinct k [] i))
  | SEnumerate n => with_it s r (fun i => ok_it s (Enumerate (match n with Some z => z | None => 0%Z end) i))
  | SZip ls => with_it s r (fun i => ok_it s (Zip (i :: map OfList ls)))
  | SAccumulate f seed => with_it s r (fun i => ok_it s (AccStart f seed i))
  | SInsert pos v =>
      match r with
      | RVal (VList _ l) => ok_val s (VList false (list_insert_l l pos v))
      | RSet _ => no_match s
      | _ => with_it s r (fun i => ok_it s (InsertAt pos v 0 i))
      end
  | SInsertMany pos vs =>
      with_it s r (fun i => ok_it s (if Z.ltb pos 0 then Chain (OfList vs) (InsertMany pos (OfList []) 0 i)
                                     else InsertMany pos (OfList vs) 0 i))
  | SDelete pos cnt =>
      match r with
      | RDict _ d => (s, Ok (RDict false (dict_delete_all d (VInt pos :: match cnt with Some c => [VInt c] | None => [] end))))
      | _ => with_it s r (fun i => ok_it s (DeleteAt pos (match cnt with Some c => c | None => 1%Z end) 0 i))
      end
  | SReplace pos v cnt =>
      with_it s r (fun i => ok_it s (ReplaceAt pos (match cnt with Some c => c | None => 1%Z end) [v] false 0 i))
  | SReplaceMany pos vs cnt =>
      with_it s r (fun i => ok_it s (ReplaceAt pos (match cnt with Some c => c | None => 1%Z end) vs false 0 i))
  | SSlice n => with_it s r (fun i => ok_it s (SliceN n i))
  | SMemorize =>
      match r with
      | RVal (VList _ _) | RSet _ => (s, Ok r)
      | _ => with_it s r (fun i => ok_it s (Memo i))
      end
  | SReverse => with_list fuel s r (fun s1 l => ok_it s1 (OfList (rev l)))
  | SOrderBy f asc => with_it s r (fun i => (s, Ok (ROrd [(f, asc)] i)))
  | SThenBy f asc =>
      match r with
      | ROrd keys i => (s, Ok (ROrd (keys ++ [(f, asc)]) i))
      | _ => no_match s
      end
  | SGroupBy k v =>
      with_list fuel s r (fun s1 l =>
        let s2 := tick_n (length l * (match v with Some _ => 2 | None => 1 end)) s1 in
        if forallb (fun x => hashable (apply k x)) l then
          ok_it s2 (OfList (map (fun g => pair_val (fst g) (VList false (snd g)))
                                (group_by_l val_eqb (apply k)
                                            (fun x => match v with Some g => apply g x | None => x end) l)))
        else (s2, Err EType))
  | SJoin l2 p f => with_it s r (fun i => ok_it s (Join p f l2 None i))
  | SSplitAt n =>
      with_list fuel s r (fun s1 l =>
        let '(a, b) := split_at_l l n in ok_val s1 (VList false [VList false a; VList false b]))
  | SSplitWhere p => with_it s r (fun i => ok_it s (Collect (CSplitWhere p) [] i))
  | SSliceWhere p => with_it s r (fun i => ok_it s (Collect (CSliceWhere p) [] i))
  | SToList =>
      match r with
      | RVal (VList _ l) => ok_val s (VList false l)
      | _ => with_list fuel s r (fun s1 l => ok_val s1 (VList false l))
      end
  | SToSet =>
      with_list fuel s r (fun s1 l => if forallb hashable l then (s1, Ok (RSet (set_of_list l))) else (s1, Err EType))
  | SCycle =>
      match r with
      | RVal (VList _ l) => ok_it s (CycleL l l)
      | _ => with_it s r (fun i => ok_it s (Cycle [] i))
      end
  | SPlus vs =>
      match r with
      | RVal (VList false l) => ok_val s (VList false (l ++ vs))
      | _ => with_it s r (fun i => ok_it s (Chain i (OfList vs)))
      end
  | SAggregate f seed =>
      with_list fuel s r (fun s1 l =>
        match seed, l with
        | Some sd, _ => ok_val (tick_n (length l) s1) (aggregate_seed (apply2 f) sd l)
        | None, [] => (s1, Err EType)
        | None, x :: t => ok_val (tick_n (length t) s1) (aggregate_seed (apply2 f) x t)
        end)
  | SSum seed =>
      with_list fuel s r (fun s1 l =>
        match seed, l with
        | Some sd, _ => ok_val s1 (aggregate_seed (apply2 L2Add) sd l)
        | None, [] => (s1, Err EType)
        | None, x :: t => ok_val s1 (aggregate_seed (apply2 L2Add) x t)
        end)
  | SMin =>
      with_list fuel s r (fun s1 l =>
        match l with [] => (s1, Err EType) | x :: t => ok_val s1 (aggregate_seed (apply2 L2Min) x t) end)
  | SMax =>
      with_list fuel s r (fun s1 l =>
        match l with [] => (s1, Err EType) | x :: t => ok_val s1 (aggregate_seed (apply2 L2Max) x t) end)
  | SFirst d =>
      with_it s r (fun i =>
        match next fuel s i with
        | (s1, Yield v _) => ok_val s1 v
        | (s1, Done) => match d with Some x => ok_val s1 x | None => (s1, Err EStop) end
        | (s1, Fail e) => (s1, Err e)
        | (s1, NoFuel) => (s1, OutOfFuel)
        end)
  | SLast d =>
      with_list fuel s r (fun s1 l =>
        match rev l with
        | x :: _ => ok_val s1 x
        | [] => match d with Some x => ok_val s1 x | None => (s1, Err EStop) end
        end)
  | SSingle =>
      with_it s r (fun i =>
        match next fuel s i with
        | (s1, Yield v i') =>
            match next fuel s1 i' with
            | (s2, Done) => ok_val s2 v
            | (s2, Yield _ _) => (s2, Err EStop)
            | (s2, Fail e) => (s2, Err e)
            | (s2, NoFuel) => (s2, OutOfFuel)
            end
        | (s1, Done) => (s1, Err EStop)
        | (s1, Fail e) => (s1, Err e)
        | (s1, NoFuel) => (s1, OutOfFuel)
        end)
  | SAny p =>
      with_it s r (fun i =>
        match find_first fuel s (match p with Some q => PLam q | None => PAlways end) 0 i with
        | (s1, Ok (Some _)) => ok_val s1 (VBool true)
        | (s1, Ok None) => ok_val s1 (VBool false)
        | (s1, Err e) => (s1, Err e)
        | (s1, _) => (s1, OutOfFuel)
        end)
  | SAll p =>
      with_it s r (fun i =>
        match find_first fuel s (match p with Some q => PNotLam q | None => PNotTruthy end) 0 i with
        | (s1, Ok (Some _)) => ok_val s1 (VBool false)
        | (s1, Ok None) => ok_val s1 (VBool true)
        | (s1, Err e) => (s1, Err e)
        | (s1, _) => (s1, OutOfFuel)
        end)
  | SIndexOf v =>
      with_it s r (fun i =>
        match find_first fuel s (PEq v) 0 i with
        | (s1, Ok (Some (n, _))) => ok_val s1 (VInt n)
        | (s1, Ok None) => ok_val s1 (VInt (-1))
        | (s1, Err e) => (s1, Err e)
        | (s1, _) => (s1, OutOfFuel)
        end)
  | SIndexWhere p =>
      with_it s r (fun i =>
        match find_first fuel s (PLam p) 0 i with
        | (s1, Ok (Some (n, _))) => ok_val s1 (VInt n)
        | (s1, Ok None) => ok_val s1 (VInt (-1))
        | (s1, Err e) => (s1, Err e)
        | (s1, _) => (s1, OutOfFuel)
        end)
  | SLastIndexOf v =>
      with_list fuel s r (fun s1 l => ok_val s1 (VInt (last_index_from 0 (fun x => val_eqb x v) (-1) l)))
  | SLastIndexWhere p =>
      with_list fuel s r (fun s1 l =>
        ok_val (tick_n (length l) s1) (VInt (last_index_from 0 (fun x => truthy (apply p x)) (-1) l)))
  | SLen =>
      match r with
      | RVal (VList _ l) => ok_val s (VInt (Z.of_nat (length l)))
      | RDict _ d => ok_val s (VInt (Z.of_nat (length d)))
      | RSet l => ok_val s (VInt (Z.of_nat (length l)))
      | RIter _ => with_list fuel s r (fun s1 l => ok_val s1 (VInt (Z.of_nat (length l))))
      | _ => no_match s
      end
  | SCount => with_list fuel s r (fun s1 l => ok_val s1 (VInt (Z.of_nat (length l))))
  | SContains v =>
      with_it s r (fun i =>
        match find_first fuel s (PEq v) 0 i with
        | (s1, Ok (Some _)) => ok_val s1 (VBool true)
        | (s1, Ok None) => ok_val s1 (VBool false)
        | (s1, Err e) => (s1, Err e)
        | (s1, _) => (s1, OutOfFuel)
        end)
  | SToDict k v =>
      with_list fuel s r (fun s1 l =>
        let s2 := tick_n (length l * (match v with Some _ => 2 | None => 1 end)) s1 in
        if forallb (fun x => hashable (apply k x)) l then
          (s2, Ok (RDict false (dict_of_items (map (fun x => (apply k x, match v with Some g => apply g x | None => x end)) l))))
        else (s2, Err EType))
  | SDictFromItems =>
      with_list fuel s r (fun s1 l =>
        match dict_from_items [] l with
        | Ok d => (s1, Ok (RDict false d))
        | Err e => (s1, Err e)
        | _ => (s1, Unsupported)
        end)
  | SDictSet k v =>
      match r with
      | RDict _ d => if hashable k then (s, Ok (RDict false (dict_set_l k v d))) else (s, Err EType)
      | _ => no_match s
      end
  | SDictDelete ks =>
      match r with RDict _ d => (s, Ok (RDict false (dict_delete_all d ks))) | _ => (s, Unsupported) end
  | SDictDeleteAll ks =>
      match r with RDict _ d => (s, Ok (RDict false (dict_delete_all d ks))) | _ => no_match s end
  | SDictPlus e =>
      match r with RDict _ d => (s, Ok (RDict false (dict_update_l d (dict_of_items e)))) | _ => no_match s end
  | SMergeWith e =>
      match r with
      | RDict _ d => match merge_dicts 6 d (dict_of_items e) None None 0 with
                     | Ok x => (s, Ok (RDict false x)) | Err er => (s, Err er) | _ => (s, Unsupported) end
      | _ => no_match s
      end
  | SKeysList => match r with RDict _ d => ok_val s (VList false (map fst d)) | _ => no_match s end
  | SValuesList => match r with RDict _ d => ok_val s (VList false (map snd d)) | _ => no_match s end
  | SItemsList => match r with RDict _ d => ok_val s (VList false (map (fun kv => pair_val (fst kv) (snd kv)) d))
                               | _ => no_match s end
  | SDictGet k dflt =>
      match r with
      | RDict _ d => ok_val s (match dict_get_l k d with Some v => v
                                                   | None => match dflt with Some x => x | None => VNull end end)
      | _ => no_match s
      end
  | SContainsKey k =>
      match r with RDict _ d => ok_val s (VBool (match dict_get_l k d with Some _ => true | None => false end))
                   | _ => no_match s end
  | SContainsValue v =>
      match r with RDict _ d => ok_val s (VBool (vmem v (map snd d))) | _ => no_match s end
  | SUnion l => match r with RSet a => (s, Ok (RSet (set_union a (set_of_list l)))) | _ => no_match s end
  | SIntersect l => match r with RSet a => (s, Ok (RSet (set_inter a (set_of_list l)))) | _ => no_match s end
  | SDifference l => match r with RSet a => (s, Ok (RSet (set_diff a (set_of_list l)))) | _ => no_match s end
  | SSymDiff l => match r with RSet a => (s, Ok (RSet (set_symdiff a (set_of_list l)))) | _ => no_match s end
  | SSetAdd vs => match r with RSet a => (s, Ok (RSet (set_union a (set_of_list vs)))) | _ => no_match s end
  | SSetRemove vs => match r with RSet a => (s, Ok (RSet (set_diff a (set_of_list vs)))) | _ => no_match s end
  | SFlatten => with_it s r (fun i => ok_it s (Flatten i))
  | SDefaultIfEmpty d =>
      match r with
      | RVal (VList _ []) | RSet [] => ok_val s (VList false d)
      | RVal (VList _ _) | RSet _ => (s, Ok r)
      | _ => with_it s r (fun i =>
               match next fuel s i with
               | (s1, Yield v i') => ok_it s1 (Chain (OfList [v]) (Memo i'))
               | (s1, Done) => ok_val s1 (VList false d)
               | (s1, Fail e) => (s1, Err e)
               | (s1, NoFuel) => (s1, OutOfFuel)
               end)
      end
  | STimes n => match r with RVal (VList m l) => ok_val s (VList m (times_l l n)) | _ => no_match s end
  | SIsList => ok_val s (VBool (match r with RVal (VList _ _) => true | _ => false end))
  | SIsDict => ok_val s (VBool (match r with RDict _ _ => true | _ => false end))
  | SIsSet => ok_val s (VBool (match r with RSet _ => true | _ => false end))
  | SIsIterable => ok_val s (VBool (match as_it r with Some _ => true | None => false end))
  | SSetCmp op l =>
      match r with
      | RSet a => let b := set_of_list l in
                  ok_val s (VBool (match op with 0 => set_lt a b | 1 => set_le a b | 2 => set_lt b a | _ => set_le b a end))
      | _ => (s, Unsupported)
      end
  | SIndex k =>
      match r, k with
      | RVal (VList _ l), VInt i => match py_index l i with Some v => ok_val s v | None => (s, Err EIndex) end
      | RDict _ d, _ => if hashable k then match dict_get_l k d with Some v => ok_val s v | None => (s, Err EKey) end
                        else (s, Err EType)
      | _, _ => no_match s
      end
  | SGroupByAgg k v agg =>
      with_list fuel s r (fun s1 l =>
        if forallb (fun x => hashable (apply k x)) l then
          ok_it s1 (OfList (map (fun g => pair_val (fst g)
                                   (match agg with
                                    | 0 => VInt (Z.of_nat (length (snd g)))
                                    | 1 => match snd g with [] => VNull | x :: t => aggregate_seed (apply2 L2Add) x t end
                                    | _ => match snd g with [] => VNull | x :: _ => x end
                                    end))
                                (group_by_l val_eqb (apply k)
                                            (fun x => match v with Some g => apply g x | None => x end) l)))
        else (s1, Err EType))
  | SSelectManyG g => with_it s r (fun i => ok_it s (SelectManyG g i))
  | SProjectBy name acc =>
      with_list fuel s r (fun s1 l =>
        match access_all acc name l with
        | Some (outs, None) => ok_it s1 (OfList outs)
        | Some (outs, Some e) => ok_it s1 (Chain (OfList outs) (FailIt e))
        | None => (s1, Unsupported)
        end)
  | SGroupByG k v a fb =>
      with_list fuel s r (fun s1 l =>
        if forallb (fun x => hashable (apply k x)) l then
          match gagg_run a (group_by_l val_eqb (apply k) (fun x => match v with Some g => apply g x | None => x end) l) None fb with
          | Some (outs, None) => ok_it s1 (OfList outs)
          | Some (outs, Some e) => ok_it s1 (Chain (OfList outs) (FailIt e))
          | None => (s1, Unsupported)
          end
        else (s1, Err EType))
  | SProject => with_it s r (fun i => ok_it s (Memo i))
  | SUnpackNamed n =>
      with_it s r (fun i =>
        match drain fuel s (ISlice 0 (Some (S n)) i) with
        | (s1, Ok l) => if Nat.eqb (length l) n then ok_val s1 (VList false l) else (s1, Err EValue)
        | (s1, Err e) => (s1, Err e)
        | (s1, _) => (s1, OutOfFuel)
        end)
  | SUnpackIdx idxs =>
      with_list fuel s r (fun s1 l => ok_val s1 (VList false (map (fun i => nth (i - 1) l VNull) idxs)))
  | SWith => (s, Ok r)
  | SZipLongest ls fill =>
      with_it s r (fun i => ok_it s (ZipLongest (match fill with Some v => v | None => VNull end)
                                                (Some i :: map (fun l => Some (OfList l)) ls)))
  | SListOf vs =>
      match r with
      | RIter i => with_list fuel s r (fun s1 l => ok_val s1 (VList false (l ++ vs)))
      | RVal v => ok_val s (VList false (v :: vs))
      | _ => (s, Unsupported)
      end
  | SMergeWithX e lm im maxl =>
      match r with
      | RDict _ d => match merge_dicts 6 d (dict_of_items e) lm im maxl with
                     | Ok x => (s, Ok (RDict false x)) | Err er => (s, Err er) | _ => (s, Unsupported) end
      | _ => no_match s
      end
  | SAssertAny =>
      match r with
      | RVal (VList _ []) | RSet [] => (s, Err EOther)            (* AssertionError *)
      | RVal (VList _ _) | RSet _ => (s, Ok r)
      | ROrd _ _ => (s, Unsupported)        (* handed on already sorted: a later thenBy is ignored; kept out of the cases *)
      | _ => with_it s r (fun i =>
               match next fuel s i with
               | (s1, Yield v i') => ok_it s1 (Chain (OfList [v]) (Memo i'))
               | (s1, Done) => (s1, Err EOther)
               | (s1, Fail e) => (s1, Err e)
               | (s1, NoFuel) => (s1, OutOfFuel)
               end)
      end
  | SGroupByAggP k v sgs term =>
      with_list fuel s r (fun s1 l =>
        if forallb (fun x => hashable (apply k x)) l then
          let groups := group_by_l val_eqb (apply k) (fun x => match v with Some g => apply g x | None => x end) l in
          let agg vals := match stages_list sgs vals with
                          | Some out => Some (match term with
                                              | 0 => VInt (Z.of_nat (length out))
                                              | 1 => aggregate_seed (apply2 L2Add) (VInt 0) out
                                              | 2 => match out with [] => VNull | x :: _ => x end
                                              | _ => VList false out
                                              end)
                          | None => None
                          end in
          if forallb (fun g => match agg (snd g) with Some _ => true | None => false end) groups
          then ok_it s1 (OfList (map (fun g => pair_val (fst g) (match agg (snd g) with Some a => a | None => VNull end)) groups))
          else (s1, Unsupported)
        else (s1, Err EType))
  | SSelf op =>
      with_list fuel s r (fun s1 l =>
        let agg a := match a with
                     | 0 => aggregate_seed (apply2 L2Add) (VInt 0) l
                     | 1 => VInt (Z.of_nat (length l))
                     | 2 => match l with [] => VNull | x :: t => aggregate_seed (apply2 L2Max) x t end
                     | 3 => match l with [] => VNull | x :: t => aggregate_seed (apply2 L2Min) x t end
                     | 4 => match l with [] => VNull | x :: _ => x end
                     | _ => last l VNull
                     end in
        match op with
        | SelfZip => ok_it s1 (OfList (map (fun x => VList false [x; x]) l))
        | SelfZipSkip n => ok_it s1 (OfList (map (fun p => VList false [fst p; snd p]) (zip_l l (skipn n l))))
        | SelfJoin p f => ok_it s1 (Join p f l None (OfList l))
        | SelfSelectAgg c a => ok_it s1 (OfList (map (fun x => apply2 L2Add (apply (LMul c) x) (agg a)) l))
        | SelfWhereLtMax => ok_it s1 (OfList (filter (fun x => val_ltb x (agg 2)) l))
        | SelfSelectMany n => ok_it s1 (OfList (flat_map (fun _ => firstn n l) l))
        | SelfFirstAll => match l with [] => (s1, Err EStop) | x :: _ => ok_val s1 (VList false [x; VList false l]) end
        | SelfCountSum => ok_val s1 (VList false [VInt (Z.of_nat (length l)); agg 0])
        end)
  | SIndexDefault k dflt =>
      match r with
      | RDict _ d => if hashable k then ok_val s (match dict_get_l k d with Some v => v | None => dflt end) else (s, Err EType)
      | _ => no_match s
      end
  end.

Fixpoint apply_stages (fuel : nat) (s : st) (sgs : list stage) (r : rv) : rr :=
  match sgs with
  | [] => (s, Ok r)
  | sg :: rest =>
      match apply_stage fuel s sg r with
      | (s1, Ok r1) => apply_stages fuel s1 rest r1
      | e => e
      end
  end.

(* ---- sources -------------------------------------------------------------------- *)
Inductive source :=
| SrcTuple (l : list val)          (* a tuple / literal list *)
| SrcIter (l : list val)           (* one-shot iterator over l *)
| SrcSetOf (l : list val)          (* set(...) of the listed values *)
| SrcDictOf (d : kvs)              (* {k => v, ...} in the listed order *)
| SrcRange (a b step : Z)
| SrcRepeat (v : val) (n : Z)
| SrcSequence (k : Z)              (* the instrumented endless source *)
| SrcGenerate (init : val) (p f : lam) (sel : option lam) (decycle : bool)
| SrcGenerateMany (init : Z) (bound : Z) (sel : option lam) (decycle depth_first : bool).

Definition source_rv (src : source) : res rv :=
  match src with
  | SrcTuple l => Ok (RVal (VList false l))
  | SrcIter l => Ok (RIter (OfList l))
  | SrcSetOf l => Ok (RSet (set_of_list l))
  | SrcDictOf d => Ok (RDict false (dict_of_items d))
  | SrcRange a b step => if Z.eqb step 0 then Err EValue else Ok (RIter (OfList (range_l a b step)))
  | SrcRepeat v n => Ok (RIter (Repeat v (if Z.ltb n 0 then None else Some (Z.to_nat n))))
  | SrcSequence k => Ok (RIter (Src k))
  | SrcGenerate init p f sel decycle => Ok (RIter (Generate init false p f sel (if decycle then Some [] else None)))
  | SrcGenerateMany init bound sel decycle df =>
      Ok (RIter (GenMany [VInt init] bound sel (if decycle then Some [] else None) df))
  end.

(* ---- finalisation (convert_output_data) and observations --------------------------- *)
Fixpoint erase (v : val) : val :=
  match v with
  | VList _ l => VList false (map erase l)
  | VDict _ d => VDict false (map (fun kv => (erase (fst kv), erase (snd kv))) d)
  | x => x
  end.

Inductive obs :=
| OVal (v : val)
| OSet (l : list val)
| ODict (d : kvs)
| OErr (e : err)
| OCap                      (* observation only: the pull cap of the instrumented source tripped *)
| ONone.                    (* model out of fuel / unsupported: never equal to anything *)

(* tuples and frozen dicts become lists and dicts on the way out: not hashable any more (F8) *)
Definition unhashable_out (v : val) : bool := match v with VList _ _ | VDict _ _ => true | _ => false end.

Definition finalize (fuel : nat) (s : st) (r : rv) : st * obs :=
  match r with
  | RVal v => (s, OVal (erase v))
  | RDict _ d => if existsb (fun kv => unhashable_out (fst kv)) d then (s, OErr EType)
                 else (s, ODict (map (fun kv => (erase (fst kv), erase (snd kv))) d))
  | RSet l => if existsb unhashable_out l then (s, OErr EType) else (s, OSet (map erase l))
  | _ =>
      match as_it r with
      | Some i => match drain fuel s i with
                  | (s1, Ok l) => (s1, OVal (VList false (map erase l)))
                  | (s1, Err e) => (s1, OErr e)
                  | (s1, _) => (s1, ONone)
                  end
      | None => (s, ONone)
      end
  end.

Definition FUEL : nat := 400.

Definition eval_case (src : source) (sgs : list stage) : st * obs :=
  match source_rv src with
  | Ok r => match apply_stages FUEL st0 sgs r with
            | (s, Ok r1) => finalize FUEL s r1
            | (s, Err e) => (s, OErr e)
            | (s, _) => (s, ONone)
            end
  | Err e => (st0, OErr e)
  | _ => (st0, ONone)
  end.

Fixpoint vmem_obs (v : val) (l : list val) : bool :=
  match l with [] => false | x :: r => val_obs_eqb v x || vmem_obs v r end.
Definition kv_mem_obs (kv : val * val) (d : kvs) : bool :=
  existsb (fun e => val_obs_eqb (fst kv) (fst e) && val_obs_eqb (snd kv) (snd e)) d.

Definition obs_eqb (model observed : obs) : bool :=
  match model, observed with
  | OVal a, OVal b => val_obs_eqb a b
  | OSet a, OSet b => Nat.eqb (length a) (length b) && forallb (fun x => vmem_obs x b) a && forallb (fun x => vmem_obs x a) b
  | ODict a, ODict b => Nat.eqb (length a) (length b) && forallb (fun x => kv_mem_obs x b) a
  | OVal (VDict _ a), ODict b => Nat.eqb (length a) (length b) && forallb (fun x => kv_mem_obs x b) a   (* a record as the whole result *)
  | OErr a, OErr b => err_eqb a b
  | _, _ => false
  end.

Definition source_list (src : source) : option (list val) :=
  match src with SrcTuple l | SrcIter l => Some l | _ => None end.

(* ---- C13 correspondence case ------------------------------------------------------- *)
Record case := { c_src : source; c_stages : list stage; c_obs : obs }.

Definition case_ok (c : case) : bool :=
  obs_eqb (snd (eval_case (c_src c) (c_stages c))) (c_obs c) &&
  match source_list (c_src c) with
  | Some l => match stages_list (c_stages c) l with
              | Some out => match c_obs c with
                            | OVal v => val_obs_eqb (VList false (map erase out)) v
                            | _ => true            (* the stream model decides lazily raised errors *)
                            end
              | None => true
              end
  | None => true
  end.

(* ---- C14 correspondence case: first k results of a pipeline over the endless source - *)
(* k_take = None: the pipeline ends in a search (first/any/all/indexOf/...) and is evaluated as is *)
Record kcase := { k_start : Z; k_stages : list stage; k_take : option nat;
                  k_vals : obs; k_pulls : nat; k_ticks : nat }.

Definition CAP : nat := 200.

Definition eval_kcase (c : kcase) : st * obs :=
  eval_case (SrcSequence (k_start c))
            (k_stages c ++ match k_take c with Some k => [STake (Z.of_nat k)] | None => [] end).

Definition kcase_ok (c : kcase) : bool :=
  let '(s, o) := eval_kcase c in
  match k_vals c with
  | OCap => match o with ONone => true | _ => Nat.ltb CAP (pulls s) end
  | v => obs_eqb o v && Nat.eqb (pulls s) (k_pulls c) && Nat.eqb (ticks s) (k_ticks c) && Nat.leb (pulls s) CAP
  end.

(* ---- yaql.limitIterators = n ------------------------------------------------------------------------ *)
(* every parameter declared yaqltypes.Iterable()/Iterator() is passed through limit_iterable: a sequence or set
   longer than n is refused at the call, an iterator is wrapped so that its (n+1)-th element is pulled and
   refused; the finaliser applies the same limit to the result at every nesting level.  Modelled for the
   functions whose only iterable parameter is the receiver (the harness generates no others under a limit). *)
Fixpoint lim_ok (n : nat) (v : val) : bool :=
  match v with VList _ l => Nat.leb (length l) n && forallb (lim_ok n) l | _ => true end.

Definition limit_rv (n : nat) (r : rv) : res rv :=
  match r with
  | RVal (VList _ l) => if Nat.ltb n (length l) then Err ETooLarge else Ok r
  | RSet l => if Nat.ltb n (length l) then Err ETooLarge else Ok r
  | RIter i => Ok (RIter (Limit n i))
  | ROrd keys i => Ok (RIter (Limit n (Collect (CSort keys) [] i)))
  | _ => Ok r
  end.

Definition apply_stage_lim (n fuel : nat) (s : st) (sg : stage) (r : rv) : rr :=
  match sg, r with
  | SLen, RVal _ | SInsert _ _, RVal _ => apply_stage fuel s sg r      (* typed Sequence(): not limited *)
  | _, _ => match limit_rv n r with
            | Ok r' => apply_stage fuel s sg r'
            | Err e => (s, Err e)
            | _ => (s, Unsupported)
            end
  end.

Fixpoint apply_stages_lim (n fuel : nat) (s : st) (sgs : list stage) (r : rv) : rr :=
  match sgs with
  | [] => (s, Ok r)
  | sg :: rest => match apply_stage_lim n fuel s sg r with
                  | (s1, Ok r1) => apply_stages_lim n fuel s1 rest r1
                  | e => e
                  end
  end.

Definition finalize_lim (n fuel : nat) (s : st) (r : rv) : st * obs :=
  match r with
  | RVal v => if lim_ok n v then (s, OVal (erase v)) else (s, OErr ETooLarge)
  | RIter _ | ROrd _ _ =>
      match limit_rv n r with
      | Ok (RIter i) => match drain fuel s i with
                        | (s1, Ok l) => if forallb (lim_ok n) l then (s1, OVal (VList false (map erase l))) else (s1, OErr ETooLarge)
                        | (s1, Err e) => (s1, OErr e)
                        | (s1, _) => (s1, ONone)
                        end
      | _ => (s, ONone)
      end
  | _ => (s, ONone)
  end.

Definition eval_case_lim (n : nat) (src : source) (sgs : list stage) : st * obs :=
  match source_rv src with
  | Ok r => match apply_stages_lim n FUEL st0 sgs r with
            | (s, Ok r1) => finalize_lim n FUEL s r1
            | (s, Err e) => (s, OErr e)
            | (s, _) => (s, ONone)
            end
  | Err e => (st0, OErr e)
  | _ => (st0, ONone)
  end.

Record lcase := { l_lim : nat; l_src : source; l_stages : list stage; l_obs : obs }.
Definition lcase_ok (c : lcase) : bool := obs_eqb (snd (eval_case_lim (l_lim c) (l_src c) (l_stages c))) (l_obs c).

(* the same over the instrumented endless source: values, pulls and lambda applications under the limit *)
Record lkcase := { lk_lim : nat; lk_start : Z; lk_stages : list stage; lk_take : nat;
                   lk_vals : obs; lk_pulls : nat; lk_ticks : nat }.
Definition lkcase_ok (c : lkcase) : bool :=
  let '(s, o) := eval_case_lim (lk_lim c) (SrcSequence (lk_start c)) (lk_stages c ++ [STake (Z.of_nat (lk_take c))]) in
  match lk_vals c with
  | OCap => match o with ONone => true | _ => Nat.ltb CAP (pulls s) end
  | v => obs_eqb o v && Nat.eqb (pulls s) (lk_pulls c) && Nat.eqb (ticks s) (lk_ticks c)
  end.

(* ---- raw kinds (yaql.convertOutputData = false) -------------------------------------------------------------- *)
(* what a function hands on, with the container kinds as they are: tuple / list, FrozenDict / dict.  A lazy result
   is observed through the tuple of its elements, a set through (the list of) its members. *)
Fixpoint val_kind_eqb (a b : val) : bool :=
  match a, b with
  | VNull, VNull => true
  | VBool x, VBool y => Bool.eqb x y
  | VInt x, VInt y => Z.eqb x y
  | VStr x, VStr y => list_eqb Z.eqb x y
  | VList m l, VList m' l' =>
      Bool.eqb m m' &&
      (fix go (l l' : list val) : bool :=
         match l, l' with [], [] => true | x :: r, y :: r' => val_kind_eqb x y && go r r' | _, _ => false end) l l'
  | VDict m d, VDict m' d' =>
      Bool.eqb m m' &&
      (fix go (d d' : list (val * val)) : bool :=
         match d, d' with
         | [], [] => true
         | (k, v) :: r, (k', v') :: r' => val_kind_eqb k k' && val_kind_eqb v v' && go r r'
         | _, _ => false
         end) d d'
  | _, _ => false
  end.

Definition raw_result (fuel : nat) (s : st) (r : rv) : option val :=
  match r with
  | RVal v => Some v
  | RDict m d => Some (VDict m d)
  | RSet _ => None
  | _ => match as_it r with
         | Some i => match drain fuel s i with (_, Ok l) => Some (VList false l) | _ => None end
         | None => None
         end
  end.

Record rcase := { r_src : source; r_stages : list stage; r_val : val }.
Definition rcase_ok (c : rcase) : bool :=
  match source_rv (r_src c) with
  | Ok r => match apply_stages FUEL st0 (r_stages c) r with
            | (s, Ok r1) => match raw_result FUEL s r1 with Some v => val_kind_eqb v (r_val c) | None => false end
            | _ => false
            end
  | _ => false
  end.

(* the kinds a function may hand on: no Python list, no Python dict, at any depth *)
Fixpoint frozen (v : val) : bool :=
  match v with
  | VList m l => negb m && forallb frozen l
  | VDict m d => negb m && forallb (fun kv => match kv with (k, x) => frozen k && frozen x end) d
  | _ => true
  end.
Definition top_frozen (r : rv) : bool :=
  match r with RVal (VList m _) | RVal (VDict m _) | RDict m _ => negb m | _ => true end.
(* the functions that BUILD a container (as opposed to handing on their receiver or one of its elements) *)
Definition builds (sg : stage) : bool :=
  match sg with
  | SInsert _ _ | SSplitAt _ | SToList | SToSet | SToDict _ _ | SDictFromItems | SDictSet _ _ | SDictDelete _ | SDictDeleteAll _
  | SDictPlus _ | SMergeWith _ | SMergeWithX _ _ _ _ | SKeysList | SValuesList | SItemsList | SPlus _ | SListOf _
  | SUnion _ | SIntersect _ | SDifference _ | SSymDiff _ | SSetAdd _ | SSetRemove _ | SUnpackNamed _ | SUnpackIdx _ => true
  | _ => false
  end.
