(* Literals (C16): how a value is spelled, on top of the lexer model.  No proofs here. *)
From Coq Require Import List ZArith Bool Arith QArith.
From YV Require Import Common.Corr Gen.CharClass Gen.LexFacts Model.Lexer.
Import ListNotations.
Open Scope Z_scope.

(* quoted spelling: escape the backslash and the delimiter, everything else raw *)
Definition esc_with (q : Z) (s : text) : text :=
  flat_map (fun c => if (c =? 92) || (c =? q) then [92; c] else [c]) s.
Definition spell (q : Z) (s : text) : text := q :: esc_with q s ++ [q].
Definition spell_sq : text -> text := spell 39.
Definition spell_dq : text -> text := spell 34.

(* verbatim spelling: escape the back quote only *)
Definition vesc (s : text) : text := flat_map (fun c => if c =? 96 then [92; 96] else [c]) s.
Definition spell_verbatim (s : text) : text := 96 :: vesc s ++ [96].

(* the strings that have a verbatim spelling: no maximal run of an ODD number of
   backslashes is immediately followed by a back quote, a newline, or the end.
   [odd] = an odd number of backslashes is pending. *)
Fixpoint vb_ok_from (odd : bool) (s : text) : bool :=
  match s with
  | [] => negb odd
  | c :: r =>
    if c =? 92 then vb_ok_from (negb odd) r
    else if c =? 96 then negb odd && vb_ok_from false r
    else if odd then negb (c =? 10) && vb_ok_from false r
    else vb_ok_from false r
  end.
Definition vb_ok (s : text) : bool := vb_ok_from false s.

(* the coarser guard of the design: no backslash run (of any length) is followed by
   a back quote, a newline or the end *)
Fixpoint vb_coarse_from (bs : bool) (s : text) : bool :=
  match s with
  | [] => negb bs
  | c :: r =>
    if c =? 92 then vb_coarse_from true r
    else if (c =? 96) || (c =? 10) then negb bs && vb_coarse_from false r
    else vb_coarse_from false r
  end.
Definition vb_coarse (s : text) : bool := vb_coarse_from false s.

(* does the two-character sequence backslash, back quote occur *)
Fixpoint has_bsbq (s : text) : bool :=
  match s with
  | [] => false
  | c :: r => match r with d :: _ => ((c =? 92) && (d =? 96)) || has_bsbq r | [] => false end
  end.

(* what a character of a literal must be for the numeral / keyword theorems *)
Definition digit_char (cfg : lexcfg) (c : Z) : bool :=
  is_d cfg c && is_w cfg c && negb (c =? 36) && negb (c =? 46) && negb (memz c (ignore cfg)).

Definition is_escape_letter (c : Z) : bool :=
  (c =? 85) || (c =? 117) || (c =? 120) || (c =? 78) || is_oct c ||
  match single_escape c with Some _ => true | None => false end.

(* the rational a decimal text "<digits>.<digits>" spells: all its digits read as one
   integer, over 10^(number of digits after the dot) *)
Definition split_dot (txt : text) : text * text :=
  let k := span (fun c => negb (c =? 46)) txt in (firstn k txt, skipn (S k) txt).
Definition decimal_q (cfg : lexcfg) (txt : text) : Q :=
  let '(ip, fp) := split_dot txt in
  Qmake (dec_value cfg 0 (ip ++ fp)) (Z.to_pos (10 ^ Z.of_nat (length fp))).

(* every code point of a list of ranges *)
Fixpoint zrange (lo : Z) (n : nat) : list Z := match n with O => [] | S k => lo :: zrange (lo + 1) k end.
Definition expand (l : list (Z * Z)) : list Z :=
  flat_map (fun r => zrange (fst r) (Z.to_nat (snd r - fst r + 1))) l.

(* ---------- correspondence cases for C16 ---------- *)
(* what a literal-shaped text denotes *)
Inductive lobs :=
| LVal (kind : text) (v : tokval)   (* one token spanning the text: its type and value *)
| LVar (name : tokval)              (* one DOLLAR token: GetContextValue(Constant(token text)) *)
| LLexErr                           (* the first token is a lexical error *)
| LForeign
| LOther.                           (* anything else: several tokens, trailing garbage, ... *)

(* the token types the grammar turns into a constant *)
Definition is_literal_kind (cfg : lexcfg) (k : text) : bool :=
  str_eqb k K_QSTR || str_eqb k K_NUMBER || str_eqb k K_KEYWORD ||
  existsb (fun r => str_eqb (snd r) k) (keywords cfg).

Definition literal_obs (cfg : lexcfg) (s : text) : lobs :=
  match lex cfg s with
  | ([t], EndOk) => if is_literal_kind cfg (tk_kind t) then LVal (tk_kind t) (tk_val t)
                    else if str_eqb (tk_kind t) K_DOLLAR then LVar (tk_val t) else LOther
  | ([], EndLexErr _) => LLexErr
  | ([], EndForeign) => LForeign
  | _ => LOther
  end.

(* evaluating a statement that is one constant gives the constant's value
   (Constant.__call__ / KeywordConstant: return self.value) *)
Definition eval_literal (cfg : lexcfg) (s : text) : option tokval :=
  match literal_obs cfg s with LVal _ v => Some v | _ => None end.

Record lcase := {
  l_text : text;
  l_names : list (text * Z);
  l_obs : lobs
}.

Definition lobs_eqb (a b : lobs) : bool :=
  match a, b with
  | LVal k v, LVal k' v' => str_eqb k k' && tokval_eqb v v'
  | LVar v, LVar v' => tokval_eqb v v'
  | LLexErr, LLexErr | LForeign, LForeign | LOther, LOther => true
  | _, _ => false
  end.

Definition lcase_ok (c : lcase) : bool :=
  lobs_eqb (literal_obs (default_cfg (names_fn (l_names c))) (l_text c)) (l_obs c).

(* spelling cases: the harness gives the VALUE; the model spells it in the three
   styles and must read back the value (the implementation's reading of the same
   spellings is given) *)
Record scase := {
  s_value : text;
  s_sq : lobs; s_dq : lobs; s_vb : lobs      (* what the implementation read for spell_sq/dq/verbatim *)
}.
Definition scase_ok (c : scase) : bool :=
  let cfg := default_cfg (fun _ => None) in
  lobs_eqb (literal_obs cfg (spell_sq (s_value c))) (s_sq c) &&
  lobs_eqb (literal_obs cfg (spell_dq (s_value c))) (s_dq c) &&
  lobs_eqb (literal_obs cfg (spell_verbatim (s_value c))) (s_vb c).
