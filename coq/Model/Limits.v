(* C08 - iterator limit and memory quota.
   Executable model of
     yaql/language/utils.py        limit_iterable, limit_memory_usage, convert_output_data
     yaql/__init__.py              '#iter' / '#finalize'  (finaliser = convert_output_data with the limiter)
     yaql/language/yaqltypes.py    SmartType.convert (argument quota check), Iterable.convert (limiter)
     yaql/language/runner.py       call (result quota check)
     yaql/standard_library/collections.py list_by_int, strings.py string_by_int (pre-allocation estimates)
   No proofs in this file (Lemmas/Limits*.v). *)
From Coq Require Import List ZArith Bool Arith.
From YV Require Import Common.Corr.
Import ListNotations.
Open Scope Z_scope.

(* ------------------------------------------------------------------------- *)
(* outcomes                                                                  *)
(* ------------------------------------------------------------------------- *)
Inductive res (A : Type) : Type :=
| Ok (a : A)
| TooLarge          (* CollectionTooLargeException *)
| Diverges          (* the real evaluation does not terminate (only possible with N < 0) *)
| Unhashable.       (* TypeError: a finalised dictionary key is a plain list / dict / set (finding F8, C10) *)
Arguments Ok {A} a.
Arguments TooLarge {A}.
Arguments Diverges {A}.
Arguments Unhashable {A}.

Definition res_map {A B} (f : A -> B) (r : res A) : res B :=
  match r with Ok a => Ok (f a) | TooLarge => TooLarge | Diverges => Diverges | Unhashable => Unhashable end.

(* ------------------------------------------------------------------------- *)
(* the limiter on a lazy source                                              *)
(* ------------------------------------------------------------------------- *)
(* A source is a possibly endless stream: item i, or None once exhausted.     *)
Definition stream (A : Type) := nat -> option A.

(* utils.py: `if 0 <= max_count <= i: raise` evaluated AFTER item i was pulled *)
Definition over (N : Z) (i : nat) : bool := (0 <=? N) && (N <=? Z.of_nat i).

(* utils.py: `if 0 <= max_count < len(iterable): raise` for Sequence/Mapping/Set *)
Definition too_large (N : Z) (len : nat) : bool := (0 <=? N) && (N <? Z.of_nat len).

(* one __next__ of the limiting generator that has already yielded i items *)
Inductive step (A : Type) : Type := Yield (x : A) | Stop | Raise.
Arguments Yield {A} x.
Arguments Stop {A}.
Arguments Raise {A}.

Definition lim_next {A} (N : Z) (s : stream A) (i : nat) : step A :=
  match s i with
  | None => Stop
  | Some x => if over N i then Raise else Yield x
  end.

(* consuming the limiting generator completely, starting with item i:
   (outcome with the items yielded, number of items pulled from the source) *)
Fixpoint drain {A} (N : Z) (s : stream A) (fuel i : nat) : res (list A) * nat :=
  match fuel with
  | O => (Diverges, O)
  | S f =>
    match lim_next N s i with
    | Stop => (Ok [], O)
    | Raise => (TooLarge, 1%nat)
    | Yield x => let '(r, p) := drain N s f (S i) in (res_map (cons x) r, S p)
    end
  end.

(* consuming the bare source (what a function does with an unlimited iterator) *)
Fixpoint drain_raw {A} (s : stream A) (fuel i : nat) : res (list A) * nat :=
  match fuel with
  | O => (Diverges, O)
  | S f =>
    match s i with
    | None => (Ok [], O)
    | Some x => let '(r, p) := drain_raw s f (S i) in (res_map (cons x) r, S p)
    end
  end.

(* a consumer that asks the limiting generator for at most k items and then stops
   (first, take, any, indexer, ...): (items it got, how it ended, items pulled from the source) *)
Inductive tend := Asked | Ended | Raised.

Fixpoint take_lim {A} (N : Z) (s : stream A) (k i : nat) : list A * tend * nat :=
  match k with
  | O => ([], Asked, O)
  | S k' =>
    match lim_next N s i with
    | Stop => ([], Ended, O)
    | Raise => ([], Raised, 1%nat)
    | Yield x => let '(l, e, p) := take_lim N s k' (S i) in (x :: l, e, S p)
    end
  end.

(* the sized branch: the collection itself or the exception; nothing is pulled *)
Definition limit_sized {A} (N : Z) (l : list A) : res (list A) :=
  if too_large N (length l) then TooLarge else Ok l.

(* a concrete source: a finite prefix, then either the end or an endless tail
   whose item i is the integer i (the harness' counting source) *)
Definition src_nth {A} (tail : nat -> A) (l : list A) (endless : bool) : stream A :=
  fun i => match nth_error l i with
           | Some x => Some x
           | None => if endless then Some (tail i) else None
           end.

(* enough fuel for every finite source and for every endless one when N >= 0 *)
Definition consume_fuel {A} (N : Z) (l : list A) : nat := S (S (length l + Z.to_nat N)).

Definition consume (N : Z) (l : list Z) (endless : bool) : res (list Z) * nat :=
  drain N (src_nth Z.of_nat l endless) (consume_fuel N l) O.

(* ------------------------------------------------------------------------- *)
(* values and the finaliser                                                  *)
(* ------------------------------------------------------------------------- *)
Inductive val : Type :=
| VNull
| VInt (z : Z)
| VStr (s : str)
| VTuple (l : list val)
| VList (l : list val)
| VDict (kvs : list (val * val))     (* dict / FrozenDict *)
| VSet (l : list val)                (* set / frozenset *)
| VIter (l : list val) (endless : bool).   (* one-shot iterator; endless tail = integers *)

Record opts := { tuples_to_lists : bool; sets_to_lists : bool }.

(* results of the items of a sized collection, left to right, stopping at the
   first exception; second component = pulls made so far *)
Fixpoint seq_collect (rs : list (res val * nat)) : res (list val) * nat :=
  match rs with
  | [] => (Ok [], O)
  | (r, p) :: rest =>
    match r with
    | Ok v => let '(rr, pp) := seq_collect rest in (res_map (cons v) rr, (p + pp)%nat)
    | TooLarge => (TooLarge, p)
    | Diverges => (Diverges, p)
    | Unhashable => (Unhashable, p)
    end
  end.

(* can the finalised value be a dictionary key?  plain lists, dicts and sets cannot *)
Fixpoint hashable (v : val) : bool :=
  match v with
  | VNull | VInt _ | VStr _ => true
  | VTuple l => forallb hashable l
  | _ => false
  end.

(* the pairs of a mapping, in order: `result[rec(key)] = rec(value)` - Python evaluates
   the right-hand side first, so the VALUE is finalised before the KEY; the key is
   finalised (and limited) like any other value, then hashed *)
Fixpoint dict_collect (rs : list ((res val * nat) * (res val * nat))) : res (list (val * val)) * nat :=
  match rs with
  | [] => (Ok [], O)
  | ((rx, px), (rk, pk)) :: rest =>
    match rx with
    | Ok vx =>
      match rk with
      | Ok vk => if hashable vk
                 then let '(rr, pp) := dict_collect rest in (res_map (cons (vk, vx)) rr, (px + pk + pp)%nat)
                 else (Unhashable, (px + pk)%nat)
      | TooLarge => (TooLarge, (px + pk)%nat)
      | Diverges => (Diverges, (px + pk)%nat)
      | Unhashable => (Unhashable, (px + pk)%nat)
      end
    | TooLarge => (TooLarge, px)
    | Diverges => (Diverges, px)
    | Unhashable => (Unhashable, px)
    end
  end.

(* the limiting generator over a one-shot iterator whose items are finalised as
   they are pulled: item i is pulled, the counter is tested, the item is finalised *)
Fixpoint iter_collect (N : Z) (i : nat) (rs : list (res val * nat)) (endless : bool)
  : res (list val) * nat :=
  match rs with
  | [] =>
    if endless then
      if N <? 0 then (Diverges, O)
      else (TooLarge, Z.to_nat (N - Z.of_nat i + 1))   (* items i .. N-1 pass, item N raises *)
    else (Ok [], O)
  | (r, p) :: rest =>
    if over N i then (TooLarge, 1%nat)
    else match r with
         | Ok v => let '(rr, pp) := iter_collect N (S i) rest endless in
                   (res_map (cons v) rr, S (p + pp))
         | TooLarge => (TooLarge, S p)
         | Diverges => (Diverges, S p)
         | Unhashable => (Unhashable, S p)
         end
  end.

Definition wrap (c : list val -> val) (x : res (list val) * nat) : res val * nat :=
  (res_map c (fst x), snd x).

(* '#finalize' = convert_output_data(obj, '#iter', engine):
   (result, total number of items pulled from all one-shot iterators inside) *)
Fixpoint fin (N : Z) (o : opts) (v : val) {struct v} : res val * nat :=
  match v with
  | VNull | VInt _ | VStr _ => (Ok v, O)
  | VTuple l =>
    if too_large N (length l) then (TooLarge, O)
    else wrap (if tuples_to_lists o then VList else VTuple) (seq_collect (map (fin N o) l))
  | VList l =>
    if too_large N (length l) then (TooLarge, O)
    else wrap VList (seq_collect (map (fin N o) l))
  | VSet l =>
    if too_large N (length l) then (TooLarge, O)
    else wrap (if sets_to_lists o then VList else VSet) (seq_collect (map (fin N o) l))
  | VDict kvs =>
    if too_large N (length kvs) then (TooLarge, O)
    else let r := dict_collect (map (fun kv => let '(k, x) := kv in (fin N o x, fin N o k)) kvs) in
         (res_map VDict (fst r), snd r)
  | VIter l e => wrap VList (iter_collect N O (map (fin N o) l) e)
  end.

Definition finalize (N : Z) (o : opts) (v : val) : res val := fst (fin N o v).

(* every node of a value, at every depth (the value itself first) *)
Fixpoint subvals (v : val) : list val :=
  v :: match v with
       | VTuple l | VList l | VSet l | VIter l _ => flat_map subvals l
       | VDict kvs => flat_map (fun kv => let '(k, x) := kv in subvals k ++ subvals x) kvs
       | _ => []
       end.

Definition children (v : val) : nat :=
  match v with
  | VTuple l | VList l | VSet l | VIter l _ => length l
  | VDict kvs => length kvs
  | _ => O
  end.

Definition is_iter (v : val) : bool := match v with VIter _ _ => true | _ => false end.

(* ------------------------------------------------------------------------- *)
(* the memory quota                                                          *)
(* ------------------------------------------------------------------------- *)
(* utils.limit_memory_usage(quota, (count, sample)...): true = raises
   MemoryQuotaExceededException.  An argument is (count, sys.getsizeof(sample)). *)
Fixpoint lmu_go (Q total : Z) (xs : list (Z * Z)) : bool :=
  match xs with
  | [] => false
  | (c, sz) :: r => let t := total + c * sz in if Q <? t then true else lmu_go Q t r
  end.

Definition limit_memory_usage (Q : Z) (xs : list (Z * Z)) : bool :=
  if Q <=? 0 then false else lmu_go Q 0 xs.

Definition weight (x : Z * Z) : Z := fst x * snd x.
Definition total_weight (xs : list (Z * Z)) : Z := fold_right (fun x a => weight x + a) 0 xs.

(* ------------------------------------------------------------------------- *)
(* sizes and the pre-allocation estimates of `*`                             *)
(* ------------------------------------------------------------------------- *)
Inductive kind := KTuple | KList | KAscii | KLatin1 | KUcs2 | KUcs4.

Definition kind_eqb (a b : kind) : bool :=
  match a, b with
  | KTuple, KTuple | KList, KList | KAscii, KAscii | KLatin1, KLatin1 | KUcs2, KUcs2 | KUcs4, KUcs4 => true
  | _, _ => false
  end.

Definition all_kinds : list kind := [KTuple; KList; KAscii; KLatin1; KUcs2; KUcs4].
Definition is_seq (k : kind) : bool := match k with KTuple | KList => true | _ => false end.

(* the kind of the EMPTY value of the same Python type ('' is always compact ASCII) *)
Definition empty_kind (k : kind) : kind :=
  match k with KTuple => KTuple | KList => KList | _ => KAscii end.

(* [sizeof k n] : sys.getsizeof of a freshly allocated value of kind k with n items *)
Definition sizefn := kind -> Z -> Z.

(* size of `x * c` where x has n items *)
Definition true_size (sizeof : sizefn) (k : kind) (n c : Z) : Z :=
  if (c <=? 0) || (n =? 0) then sizeof (empty_kind k) 0 else sizeof k (n * c).

(* the sample whose size stands for "one empty value" in the estimate:
   strings.py uses '' ; collections.py (after the repair) uses `left * 0` *)
Definition estimate_args (sizeof : sizefn) (k : kind) (sz c : Z) : list (Z * Z) :=
  [(- c + 1, sizeof (empty_kind k) 0); (c, sz)].
Definition estimate (sizeof : sizefn) (Q : Z) (k : kind) (sz c : Z) : bool :=
  limit_memory_usage Q (estimate_args sizeof k sz c).

(* collections.py before the repair: `[]` is the sample whatever the operand is *)
Definition estimate_args_historic (sizeof : sizefn) (k : kind) (sz c : Z) : list (Z * Z) :=
  [(- c + 1, sizeof (if is_seq k then KList else KAscii) 0); (c, sz)].
Definition estimate_historic (sizeof : sizefn) (Q : Z) (k : kind) (sz c : Z) : bool :=
  limit_memory_usage Q (estimate_args_historic sizeof k sz c).

(* evaluation of `x * c` under quota Q: argument checks (SmartType.convert), the
   estimate (payload), the allocation, the result check (runner.call) *)
Inductive mul_out := QuotaArg | QuotaEstimate | QuotaResult (size : Z) | MulOk (size : Z).

(* what `x * c` occupies: an immutable operand times 1 is the operand itself (CPython
   returns the same object, whose own size sz may exceed the law: cached UTF-8) *)
Definition product_size (sizeof : sizefn) (k : kind) (n sz c : Z) : Z :=
  if (c =? 1) && negb (kind_eqb k KList) then sz else true_size sizeof k n c.

Definition mul_eval (est : Z -> kind -> Z -> Z -> bool) (sizeof : sizefn)
           (Q : Z) (k : kind) (n sz c csize : Z) : mul_out :=
  if limit_memory_usage Q [(1, sz)] || limit_memory_usage Q [(1, csize)] then QuotaArg
  else if est Q k sz c then QuotaEstimate
  else let r := product_size sizeof k n sz c in
       if limit_memory_usage Q [(1, r)] then QuotaResult r else MulOk r.

Definition allocated (m : mul_out) : bool :=
  match m with QuotaResult _ | MulOk _ => true | _ => false end.

(* a growth step `f(a, b)` whose payload has no estimate of its own or checks the
   operands together (collections `+`): argument checks, optional joint check, result check *)
Definition call_eval (Q : Z) (args : list Z) (joint : bool) (result : Z) : bool :=
  existsb (fun a => limit_memory_usage Q [(1, a)]) args
  || (joint && limit_memory_usage Q (map (fun a => (1, a)) args))
  || limit_memory_usage Q [(1, result)].

(* ------------------------------------------------------------------------- *)
(* the call protocol under a quota                                           *)
(* ------------------------------------------------------------------------- *)
(* Only own sizes matter to the quota, so a value IS its size and a function is a
   size transformer.  An expression is a value the host handed in (context data, a
   literal) or a call whose arguments are expressions.
   runner.call / specs.get_delegate: the arguments are evaluated left to right, then
   every converted argument is checked (SmartType.convert -> limit_memory_usage(engine,
   (1, value))), then the payload runs, then its result is checked
   (runner.call -> limit_memory_usage(engine, (1, result))). *)
Inductive cexpr : Type :=
| CVal (size : Z)
| CApp (f : list Z -> Z) (args : list cexpr).

Definition over_quota (Q s : Z) : bool := limit_memory_usage Q [(1, s)].

(* (result size, or None = MemoryQuotaExceededException;
    log: every size that was BOUND TO A PARAMETER of a payload or RETURNED by a call, in order) *)
Fixpoint ceval (Q : Z) (e : cexpr) {struct e} : option Z * list Z :=
  match e with
  | CVal s => (Some s, [])
  | CApp f args =>
    let '(rs, log) :=
      (fix go (l : list cexpr) : option (list Z) * list Z :=
         match l with
         | [] => (Some [], [])
         | a :: r =>
           let '(ra, la) := ceval Q a in
           match ra with
           | None => (None, la)
           | Some sa => let '(rr, lr) := go r in (option_map (cons sa) rr, la ++ lr)
           end
         end) args in
    match rs with
    | None => (None, log)
    | Some sizes =>
      if existsb (over_quota Q) sizes then (None, log)            (* argument conversion refuses *)
      else let r := f sizes in
           if over_quota Q r then (None, log ++ sizes)           (* the payload ran on its arguments; result refused *)
           else (Some r, log ++ sizes ++ [r])
    end
  end.

(* the same expression with no quota at all: its value, and every size that is an
   argument or a result of some call inside it *)
Fixpoint csize (e : cexpr) : Z :=
  match e with
  | CVal s => s
  | CApp f args => f (map csize args)
  end.

Fixpoint cpoints (e : cexpr) : list Z :=
  match e with
  | CVal _ => []
  | CApp f args => flat_map cpoints args ++ map csize args ++ [csize e]
  end.

(* a whole statement: the expression's value is the argument of '#finalize', whose
   result is what the host receives (expressions.Statement) *)
Definition crun (Q : Z) (fin : list Z -> Z) (e : cexpr) : option Z * list Z := ceval Q (CApp fin [e]).

(* ------------------------------------------------------------------------- *)
(* accumulator loops                                                         *)
(* ------------------------------------------------------------------------- *)
(* distinct / groupBy / toDict / generate(decycle) / memorize: one private accumulator (set,
   dict, list) grows item by item and `limit_memory_usage(engine, (1, accumulator))` runs after
   every step.  gs = growth of the accumulator's own size at each step (0 when it did not grow).
   Result: (size of the accumulator at the end, raised?, number of steps made, the raising one included) *)
Fixpoint acc_loop (Q acc : Z) (gs : list Z) : Z * bool * nat :=
  match gs with
  | [] => (acc, false, O)
  | g :: r =>
    let a := acc + g in
    if over_quota Q a then (a, true, 1%nat)
    else let '(a', b, n) := acc_loop Q a r in (a', b, S n)
  end.

Definition zsum (l : list Z) : Z := fold_right Z.add 0 l.

(* the whole call of such a function: the loop, then the ordinary result check of the call
   protocol on the value that is actually RETURNED (ret = its own size): for toDict that is
   utils.FrozenDict(accumulator), wrapper + dict, not the accumulator object itself; a function
   that returns a lazy generator has a small ret.  (raised?, steps made) *)
Definition acc_call (Q a0 : Z) (gs : list Z) (ret : Z) : bool * nat :=
  let '(_, b, n) := acc_loop Q a0 gs in
  if b then (true, n) else (over_quota Q ret, n).

(* ------------------------------------------------------------------------- *)
(* registry facts (rows are generated into Gen/LimitFacts.v)                  *)
(* ------------------------------------------------------------------------- *)
Inductive pkind := PEager | PLazy | PHidden.
Record prow := {
  p_fn : str; p_payload : str; p_key : str; p_kind : pkind;
  p_acc_iter : bool; p_acc_int : bool; p_acc_str : bool; p_acc_none : bool;
  p_limiting : bool }.

(* one smart-type combinator instance over the collection types (AnyOf, Chain, nested, nullable,
   with NotOfType members ...), probed on the live type: does it accept a generator / a sized
   tuple, does its convert limit (<= N+1 pulls then CollectionTooLarge; a sized N+1 refused, a sized
   N returned unchanged) and check the quota *)
Record crow := {
  c_label : str; c_acc_iter : bool; c_limiting : bool;
  c_acc_sized : bool; c_sized_refused : bool; c_sized_ok : bool; c_quota_ok : bool }.

Definition crow_ok (c : crow) : bool :=
  implb (c_acc_iter c) (c_limiting c)
  && implb (c_acc_sized c) (c_sized_refused c && c_sized_ok c && c_quota_ok c).

Definition is_eager (p : prow) : bool := match p_kind p with PEager => true | _ => false end.
(* declared with a collection type: takes a generator object but refuses the scalar 1
   (whether or not it also takes a string: the bare Iterable ABC does, and is still a
   collection type that must limit) *)
Definition collection_typed (p : prow) : bool :=
  is_eager p && p_acc_iter p && negb (p_acc_int p).
(* takes anything (declared `object`): NOT covered by the typed-parameter theorem *)
Definition object_typed (p : prow) : bool :=
  is_eager p && p_acc_iter p && p_acc_int p.

(* ------------------------------------------------------------------------- *)
(* correspondence cases                                                      *)
(* ------------------------------------------------------------------------- *)
(* sets hold scalars only (hashable plain data); compared up to order *)
Fixpoint insert_z (x : Z) (l : list Z) : list Z :=
  match l with [] => [x] | y :: r => if Z.leb x y then x :: l else y :: insert_z x r end.
Definition set_keys (l : list val) : option (list Z) :=
  fold_right (fun v acc => match v, acc with VInt z, Some r => Some (insert_z z r) | _, _ => None end) (Some []) l.

Fixpoint val_eqb (a b : val) {struct a} : bool :=
  let fix go (x y : list val) {struct x} : bool :=
    match x, y with
    | [], [] => true
    | u :: x', w :: y' => val_eqb u w && go x' y'
    | _, _ => false
    end in
  match a, b with
  | VNull, VNull => true
  | VInt x, VInt y => Z.eqb x y
  | VStr x, VStr y => str_eqb x y
  | VTuple x, VTuple y | VList x, VList y => go x y
  | VSet x, VSet y =>
    match set_keys x, set_keys y with
    | Some kx, Some ky => list_eqb Z.eqb kx ky
    | _, _ => go x y
    end
  | VDict x, VDict y =>
    (fix gd (x y : list (val * val)) {struct x} : bool :=
       match x, y with
       | [], [] => true
       | (k1, v1) :: x', (k2, v2) :: y' => val_eqb k1 k2 && val_eqb v1 v2 && gd x' y'
       | _, _ => false
       end) x y
  | VIter x e, VIter y f => go x y && Bool.eqb e f
  | _, _ => false
  end.

Definition res_eqb {A} (eqb : A -> A -> bool) (a b : res A) : bool :=
  match a, b with
  | Ok x, Ok y => eqb x y
  | TooLarge, TooLarge => true
  | Diverges, Diverges => true
  | Unhashable, Unhashable => true
  | _, _ => false
  end.

Definition mul_out_eqb (a b : mul_out) : bool :=
  match a, b with
  | QuotaArg, QuotaArg | QuotaEstimate, QuotaEstimate => true
  | QuotaResult x, QuotaResult y | MulOk x, MulOk y => Z.eqb x y
  | _, _ => false
  end.

(* what the harness can see of a `*` evaluation: raised?, was the product computed?, its size *)
Definition mul_obs (m : mul_out) : bool * bool * Z :=
  match m with
  | QuotaArg | QuotaEstimate => (true, false, 0)
  | QuotaResult z => (true, true, z)
  | MulOk z => (false, true, z)
  end.

Inductive case :=
(* limit_iterable on a one-shot source: observed (outcome with yielded items, pulls) *)
| CLimit (N : Z) (l : list Z) (endless : bool) (o : res (list Z)) (pulls : nat)
(* k calls of next() on limit_iterable: observed (items, 0 asked / 1 ended / 2 raised, pulls) *)
| CPrefix (N : Z) (l : list Z) (endless : bool) (k : nat) (got : list Z) (ending : Z) (pulls : nat)
(* limit_iterable on a sized collection *)
| CSized (N : Z) (l : list Z) (raised : bool)
(* finaliser: observed result and total pulls *)
| CFinal (N : Z) (o : opts) (v : val) (r : res val) (pulls : nat)
(* limit_memory_usage *)
| CQuota (Q : Z) (xs : list (Z * Z)) (raised : bool)
(* `x * c`: observed (raised, product computed, size of the product) *)
| CMul (Q : Z) (k : kind) (n sz c csize : Z) (obs : bool * bool * Z)
(* a growth step through the engine *)
| CCall (Q : Z) (args : list Z) (joint : bool) (result : Z) (raised : bool)
(* an accumulator loop: observed (raised?, source items consumed) *)
| CAcc (Q a0 : Z) (gs : list Z) (ret : Z) (raised : bool) (steps : nat)
(* a tree of calls evaluated as one statement: raised? *)
| CChain (Q : Z) (fin : Z) (e : cexpr) (raised : bool).

Definition obs3_eqb (a b : bool * bool * Z) : bool :=
  let '(a1, a2, a3) := a in let '(b1, b2, b3) := b in
  Bool.eqb a1 b1 && Bool.eqb a2 b2 && Z.eqb a3 b3.

Definition case_ok_with (sizeof : sizefn) (c : case) : bool :=
  match c with
  | CLimit N l e o p =>
    let '(mo, mp) := consume N l e in res_eqb (list_eqb Z.eqb) mo o && Nat.eqb mp p
  | CPrefix N l e k got ending p =>
    let '(ml, me, mp) := take_lim N (src_nth Z.of_nat l e) k O in
    list_eqb Z.eqb ml got && Z.eqb (match me with Asked => 0 | Ended => 1 | Raised => 2 end) ending && Nat.eqb mp p
  | CSized N l raised =>
    Bool.eqb (match limit_sized N l with TooLarge => true | _ => false end) raised
  | CFinal N o v r p =>
    let '(mr, mp) := fin N o v in res_eqb val_eqb mr r && Nat.eqb mp p
  | CQuota Q xs raised => Bool.eqb (limit_memory_usage Q xs) raised
  | CMul Q k n sz c cs obs =>
    obs3_eqb (mul_obs (mul_eval (estimate sizeof) sizeof Q k n sz c cs)) obs
  | CCall Q args joint result raised => Bool.eqb (call_eval Q args joint result) raised
  | CAcc Q a0 gs ret raised steps =>
    let '(b, n) := acc_call Q a0 gs ret in Bool.eqb b raised && Nat.eqb n steps
  | CChain Q fin e raised =>
    Bool.eqb (match fst (crun Q (fun _ => fin) e) with None => true | Some _ => false end) raised
  end.
