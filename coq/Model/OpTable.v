(* C02 - operator tables.  Executable transcription of
     yaql/language/factory.py : YaqlFactory.operators (the list), insert_operator,
                                _name_generator, _build_operator_table
     yaql/language/parser.py  : the precedence keys (level, 'l'/'r') and the
                                `range(1, len(precedence_dict) + 1)` loop
   No proofs in this file. *)
From Coq Require Import List ZArith Bool Arith.
From YV Require Import Common.Corr.
Import ListNotations.
Open Scope Z_scope.

(* OperatorType *)
Inductive okind := KPrefix | KSuffix | KLeft | KRight | KNameValue.

(* one element of factory.operators: `()` or (symbol, type[, alias]) *)
Inductive entry := Sep | Op (sym : str) (k : okind) (alias : option str).
Definition oplist := list entry.

Definition okind_eqb (a b : okind) : bool :=
  match a, b with
  | KPrefix, KPrefix | KSuffix, KSuffix | KLeft, KLeft | KRight, KRight | KNameValue, KNameValue => true
  | _, _ => false
  end.
Definition entry_eqb (a b : entry) : bool :=
  match a, b with
  | Sep, Sep => true
  | Op s k al, Op s' k' al' => str_eqb s s' && okind_eqb k k' && option_eqb str_eqb al al'
  | _, _ => false
  end.

Definition is_sep (e : entry) : bool := match e with Sep => true | _ => false end.      (* len(t) < 2 *)
Definition is_op (e : entry) : bool := negb (is_sep e).                                  (* len(t) > 1 *)
Definition is_binary (k : okind) : bool := match k with KLeft | KRight => true | _ => false end.
Definition is_unary (k : okind) : bool := match k with KPrefix | KSuffix => true | _ => false end.

(* ---------------------------------------------------------------- insert_operator *)
(* first index i >= base with ops[i] = (sym, type in binary_types / unary_types) *)
Fixpoint find_anchor (sym : str) (binary : bool) (ops : oplist) (i : nat) : option nat :=
  match ops with
  | [] => None
  | Sep :: r => find_anchor sym binary r (S i)
  | Op s k _ :: r =>
      if str_eqb s sym && (if binary then is_binary k else is_unary k) then Some i
      else find_anchor sym binary r (S i)
  end.

(* `while position < len(l) and f(l[position]): position += 1` advances by this much *)
Fixpoint count_while (f : entry -> bool) (l : oplist) : nat :=
  match l with
  | x :: r => if f x then S (count_while f r) else O
  | [] => O
  end.
Definition advance (f : entry -> bool) (ops : oplist) (pos : nat) : nat :=
  (pos + count_while f (skipn pos ops))%nat.

(* list.insert(pos, x) for 0 <= pos *)
Definition insert_at (pos : nat) (x : entry) (l : oplist) : oplist := firstn pos l ++ x :: skipn pos l.

Definition anchor_position (ops : oplist) (anchor : option str) (anchor_binary : bool) : option nat :=
  match anchor with
  | None => Some O
  | Some a => match find_anchor a anchor_binary ops O with
              | None => None                                  (* ValueError: operator not found *)
              | Some i => Some (advance is_op ops i)          (* end of the anchor's group *)
              end
  end.

(* what happens once `position` is known *)
Definition insert_with (ops : oplist) (pos : nat) (new : entry) (create_group : bool) : oplist :=
  if create_group then
    if Nat.eqb pos (length ops)
    then insert_at (S pos) new (ops ++ [Sep])                 (* append `()`; position += 1 *)
    else let pos' := advance is_sep ops pos in
         insert_at pos' new (insert_at pos' Sep ops)
  else insert_at pos new ops.

(* None = ValueError *)
Definition insert_operator (ops : oplist) (anchor : option str) (anchor_binary : bool)
           (new : entry) (create_group : bool) : option oplist :=
  match anchor_position ops anchor anchor_binary with
  | None => None
  | Some pos => Some (insert_with ops pos new create_group)
  end.

(* groups: the list split at the `()` separators; the k-th group (from 0) gets
   precedence k+1 in _build_operator_table *)
Definition consg (e : entry) (gs : list (list entry)) : list (list entry) :=
  match gs with
  | g :: t => (e :: g) :: t
  | [] => [[e]]
  end.
Fixpoint groups (ops : oplist) : list (list entry) :=
  match ops with
  | [] => [[]]
  | Sep :: r => [] :: groups r
  | e :: r => consg e (groups r)
  end.

(* the element insert_operator looks for *)
Definition is_anchor (a : str) (binary : bool) (e : entry) : bool :=
  match e with
  | Sep => false
  | Op s k _ => str_eqb s a && (if binary then is_binary k else is_unary k)
  end.
Definition has_anchor (a : str) (binary : bool) (g : list entry) : bool := existsb (is_anchor a binary) g.

(* an entry that gives its group a precedence level (NAME_VALUE_PAIR does not) *)
Definition has_role (e : entry) : bool :=
  match e with
  | Op _ KNameValue _ | Sep => false
  | _ => true
  end.
(* no group is empty of roles: then the levels 1..n are all in use *)
Definition groups_ok (ops : oplist) : Prop := Forall (fun g => existsb has_role g = true) (groups ops).

(* ---------------------------------------------------------------- _name_generator *)
Fixpoint name_digits (fuel : nat) (t : Z) : str :=
  match fuel with
  | O => []
  | S f => if t =? 0 then [] else (65 + t mod 26) :: name_digits f (t / 26)
  end.
(* the v-th name produced (v = 1, 2, ...): 'B', 'C', ..., 'Z', 'AB', ... *)
Definition gen_name (v : Z) : str := name_digits (S (Z.to_nat v)) v.

(* ---------------------------------------------------------------- _build_operator_table *)
(* operators[symbol] = (up, bp, name, alias), in dict (insertion) order *)
Record brow := { b_sym : str; b_up : Z; b_bp : Z; b_name : str; b_alias : option str }.
Record built := { rows : list brow; nvop : option str }.

Fixpoint lookup_row (s : str) (l : list brow) : option brow :=
  match l with
  | [] => None
  | r :: t => if str_eqb (b_sym r) s then Some r else lookup_row s t
  end.
Fixpoint set_row (r : brow) (l : list brow) : list brow :=
  match l with
  | [] => [r]
  | x :: t => if str_eqb (b_sym x) (b_sym r) then r :: t else x :: set_row r t
  end.

Definition sym_index : str := [91; 93].      (* "[]" *)
Definition sym_map : str := [123; 125].      (* "{}" *)
Definition name_INDEXER : str := [73; 78; 68; 69; 88; 69; 82].
Definition name_MAP : str := [77; 65; 80].
Definition name_OP_ : str := [79; 80; 95].

(* operators.get(record[0], (0, 0, '', None)) *)
Definition old_row (s : str) (rs : list brow) : brow :=
  match lookup_row s rs with
  | Some x => x
  | None => {| b_sym := s; b_up := 0; b_bp := 0; b_name := []; b_alias := None |}
  end.

(* the (up, bp) pair after recording the role; None = InvalidOperatorTableException
   (the symbol already has a role of that arity) *)
Definition new_levels (k : okind) (prec : Z) (old : brow) : option (Z * Z) :=
  match k with
  | KPrefix => if b_up old =? 0 then Some (prec, b_bp old) else None
  | KSuffix => if b_up old =? 0 then Some (- prec, b_bp old) else None
  | KLeft => if b_bp old =? 0 then Some (b_up old, prec) else None
  | KRight => if b_bp old =? 0 then Some (b_up old, - prec) else None
  | KNameValue => None
  end.

(* token name of the row and the advanced name generator *)
Definition name_for (s : str) (old : brow) (gen : Z) : str * Z :=
  if str_eqb s sym_index then (name_INDEXER, gen)
  else if str_eqb s sym_map then (name_MAP, gen)
  else match b_name old with
       | [] => (name_OP_ ++ gen_name gen, gen + 1)
       | n => (n, gen)
       end.

Fixpoint build_loop (ops : oplist) (prec : Z) (gen : Z) (rs : list brow) (nv : option str) : option built :=
  match ops with
  | [] => Some {| rows := rs; nvop := nv |}
  | Sep :: r => build_loop r (prec + 1) gen rs nv
  | Op s KNameValue al :: r =>
      match nv with
      | Some _ => None                       (* InvalidOperatorTableException *)
      | None => build_loop r prec gen rs (Some s)
      end
  | Op s k al :: r =>
      let old := old_row s rs in
      match new_levels k prec old with
      | None => None
      | Some (up', bp') =>
          let '(name, gen') := name_for s old gen in
          build_loop r prec gen' (set_row {| b_sym := s; b_up := up'; b_bp := bp'; b_name := name; b_alias := al |} rs) nv
      end
  end.

Definition build_table (ops : oplist) : option built := build_loop ops 1 1 [] None.

(* ply token names (b_name) are internal to the lexer/parser pair and decide nothing about
   trees: comparisons with the live table ignore them *)
Definition brow_eqb (a b : brow) : bool :=
  str_eqb (b_sym a) (b_sym b) && (b_up a =? b_up b) && (b_bp a =? b_bp b) &&
  option_eqb str_eqb (b_alias a) (b_alias b).
Definition strip_row (r : brow) : brow :=
  {| b_sym := b_sym r; b_up := b_up r; b_bp := b_bp r; b_name := []; b_alias := b_alias r |}.
Definition strip_names (B : built) : built := {| rows := map strip_row (rows B); nvop := nvop B |}.
Definition built_eqb (a b : built) : bool :=
  list_eqb brow_eqb (rows a) (rows b) && option_eqb str_eqb (nvop a) (nvop b).

(* ---------------------------------------------------------------- ranks (parser.py:36-48, 79-88) *)
Inductive line := Ll | Lr.
Record rank := { grp : Z; ln : line }.          (* smaller grp = tighter *)

(* the key under which a role is filed in precedence_dict: (abs(level), 'l' if level > 0 else 'r') *)
Definition key_of (level : Z) : option rank :=
  if level =? 0 then None
  else Some {| grp := Z.abs level; ln := if 0 <? level then Ll else Lr |}.

Definition pre_rank (B : built) (s : str) : option rank :=
  match lookup_row s (rows B) with
  | Some r => if 0 <? b_up r then key_of (b_up r) else None
  | None => None
  end.
Definition suf_rank (B : built) (s : str) : option rank :=
  match lookup_row s (rows B) with
  | Some r => if b_up r <? 0 then key_of (b_up r) else None
  | None => None
  end.
Definition bin_rank (B : built) (s : str) : option rank :=
  match lookup_row s (rows B) with
  | Some r => key_of (b_bp r)
  | None => None
  end.

(* the levels the loop `for i in range(1, len(precedence_dict) + 1)` visits *)
Definition rank_eqb (a b : rank) : bool :=
  (grp a =? grp b) && match ln a, ln b with Ll, Ll | Lr, Lr => true | _, _ => false end.
Fixpoint add_key (k : rank) (l : list rank) : list rank :=
  match l with
  | [] => [k]
  | x :: t => if rank_eqb x k then l else x :: add_key k t
  end.
Definition row_keys (r : brow) : list rank :=
  (match key_of (b_up r) with Some k => [k] | None => [] end) ++
  (match key_of (b_bp r) with Some k => [k] | None => [] end).
Definition prec_keys (B : built) : list rank :=               (* keys of precedence_dict *)
  fold_left (fun acc r => fold_left (fun a k => add_key k a) (row_keys r) acc) (rows B) [].
Definition visited_level (B : built) (g : Z) : bool :=
  (1 <=? g) && (g <=? Z.of_nat (length (prec_keys B))).
Definition all_levels_visited (B : built) : bool :=
  forallb (fun k => visited_level B (grp k)) (prec_keys B).

(* symbols that are both suffix and binary: outside the rank reading (reported by C if met) *)
Definition suffix_binary_clash (B : built) : bool :=
  existsb (fun r => (b_up r <? 0) && negb (b_bp r =? 0)) (rows B).

(* ---------------------------------------------------------------- correspondence: insert_operator / build *)
(* one call of insert_operator on the live factory, and the list observed afterwards
   (None: ValueError) *)
Record ins_case := {
  i_ops : oplist; i_anchor : option str; i_binary : bool; i_new : entry; i_create : bool;
  i_after : option oplist }.
Definition ins_case_ok (c : ins_case) : bool :=
  option_eqb (list_eqb entry_eqb)
    (insert_operator (i_ops c) (i_anchor c) (i_binary c) (i_new c) (i_create c)) (i_after c).

(* bc_covered: does the precedence tuple the real Parser object builds mention every
   operator token of the table (no level dropped by the range loop)? *)
Record build_case := { bc_ops : oplist; bc_built : option built; bc_covered : bool }.
Definition build_case_ok (c : build_case) : bool :=
  option_eqb built_eqb (build_table (bc_ops c)) (bc_built c) &&
  match bc_built c with
  | Some b => Bool.eqb (all_levels_visited b) (bc_covered c)
  | None => true
  end.
