(* The lexer configuration of ANY engine a host can build: from the operator
   table that YaqlFactory._build_operator_table produces (Model/OpTable.v, the
   C02 model) to the [lexcfg] of Model/Lexer.v, following Lexer.__init__
   (lexer.py:66-91) and ply's ordering of string rules (ply/lex.py: rules are
   collected from dir(object) - i.e. sorted by attribute name - and the string
   rules are then sorted, stably, by decreasing length of their regex, which is
   re.escape(symbol)).  No proofs here. *)
From Coq Require Import List ZArith Bool Arith.
From YV Require Import Common.Corr Model.OpTable Model.Lexer.
Import ListNotations.
Open Scope Z_scope.

(* the characters re.escape puts a backslash in front of (Python >= 3.7):
   ( ) [ ] { } ? * + - | ^ $ \ . & ~ # space \t \n \r \v \f *)
Definition re_special : text :=
  [40; 41; 91; 93; 123; 125; 63; 42; 43; 45; 124; 94; 36; 92; 46; 38; 126; 35; 32; 9; 10; 13; 11; 12].
Definition esc_len (s : text) : nat := (length s + length (filter (fun c => memz c re_special) s))%nat.

(* Python's str ordering (code points, shorter prefix first) *)
Fixpoint str_ltb (a b : text) : bool :=
  match a, b with
  | [], [] => false
  | [], _ :: _ => true
  | _ :: _, [] => false
  | x :: a', y :: b' => if x <? y then true else if y <? x then false else str_ltb a' b'
  end.

(* a string rule: token type, the literal it matches, length of its regex source *)
Record rule := mkRule { r_name : text; r_lit : text; r_relen : nat }.

(* dir(): by attribute name 't_' + token type *)
Fixpoint insert_name (r : rule) (l : list rule) : list rule :=
  match l with
  | [] => [r]
  | y :: t => if str_ltb (r_name y) (r_name r) then y :: insert_name r t else r :: y :: t
  end.
Definition sort_names (l : list rule) : list rule := fold_right insert_name [] l.

(* list.sort(key=len(regex), reverse=True): stable *)
Fixpoint insert_len (r : rule) (l : list rule) : list rule :=
  match l with
  | [] => [r]
  | y :: t => if (r_relen r <? r_relen y)%nat then y :: insert_len r t else r :: y :: t
  end.
Definition sort_len (l : list rule) : list rule := fold_right insert_len [] l.

Definition K_INDEXER : text := [73; 78; 68; 69; 88; 69; 82].
Definition K_MAPPING : text := [77; 65; 80; 80; 73; 78; 71].
Definition K_MAP : text := [77; 65; 80].

Definition is_bracket_sym (s : text) : bool := str_eqb s sym_index || str_eqb s sym_map.      (* '[]' / '{}' *)
Definition has_sym (s : text) (B : built) : bool := existsb (fun r => str_eqb (b_sym r) s) (rows B).

(* the string rules Lexer.__init__ defines: re.escape(symbol) per operator and for the
   name/value operator, the source '\\[' for INDEXER and the bare '{' for MAP
   (rules set to NEVER_MATCHING_RE never match and are left out) *)
Definition string_rules (B : built) : list rule :=
  map (fun r => mkRule (b_name r) (b_sym r) (esc_len (b_sym r)))
      (filter (fun r => negb (is_bracket_sym (b_sym r))) (rows B))
  ++ (match nvop B with Some s => [mkRule K_MAPPING s (esc_len s)] | None => [] end)
  ++ (if has_sym sym_index B then [mkRule K_INDEXER [91] 2] else [])
  ++ (if has_sym sym_map B then [mkRule K_MAP [123] 1] else []).
Definition sorted_rules (B : built) : list rule := sort_len (sort_names (string_rules B)).

(* Lexer.tokens, then ply adds the literals *)
Definition base_tokens : list text := [K_KEYWORD; K_QSTR; K_NUMBER; K_FUNC; K_DOLLAR; K_INDEXER; K_MAPPING; K_MAP].
Definition table_tokens (B : built) (base : lexcfg) : list text :=
  base_tokens ++ map snd (keywords base)
  ++ map b_name (filter (fun r => negb (is_bracket_sym (b_sym r))) (rows B))
  ++ map (fun c => [c]) (literals base).

(* everything that does not depend on the operator table is taken from [base] *)
Definition cfg_of_table (B : built) (base : lexcfg) : lexcfg := {|
  is_w := is_w base; is_d := is_d base; digit_val := digit_val base;
  op_strs := map (fun r => (r_name r, r_lit r)) (sorted_rules B);
  op_table := map (fun r => (b_sym r, b_name r)) (rows B);
  keywords := keywords base; kwvals := kwvals base;
  tok_names := table_tokens B base;
  literals := literals base; ignore := ignore base; max_digits := max_digits base;
  guard_escape := guard_escape base; guard_number := guard_number base; error_yaql := error_yaql base;
  uname := uname base
|}.

(* what a table must satisfy for an engine to exist and lex totally: no empty symbol
   (ply refuses a rule that matches the empty string), and the two bracket symbols
   carry their fixed token types (as _build_operator_table names them) *)
Definition row_ok (r : brow) : bool :=
  negb (Nat.eqb (length (b_sym r)) O) &&
  (if str_eqb (b_sym r) sym_index then str_eqb K_INDEXER (b_name r)
   else if str_eqb (b_sym r) sym_map then str_eqb K_MAP (b_name r) else true).
Definition table_okb (B : built) : bool :=
  forallb row_ok (rows B) &&
  match nvop B with Some s => negb (Nat.eqb (length s) O) | None => true end.

(* the parts of a configuration that do not come from the table *)
Definition base_okb (base : lexcfg) : bool := guard_escape base && guard_number base && error_yaql base.

(* the configuration of an engine whose factory has the operator list [ops] *)
Definition cfg_of_ops (ops : oplist) (base : lexcfg) : option lexcfg :=
  match build_table ops with Some B => Some (cfg_of_table B base) | None => None end.

Definition ops_symbols_nonempty (ops : oplist) : bool :=
  forallb (fun e => match e with Sep => true | Op s _ _ => negb (Nat.eqb (length s) O) end) ops.

(* ---------- correspondence: the token stream of a real customised engine ---------- *)
Record tcase := {
  t_ops : oplist;                               (* factory.operators of the engine *)
  t_text : text;
  t_names : list (text * Z);
  t_tokens : list (text * Z * Z * tokval);
  t_lexend : outcome
}.

Definition tcase_ok (c : tcase) : bool :=
  match cfg_of_ops (t_ops c) (default_cfg (names_fn (t_names c))) with
  | None => false
  | Some cfg =>
    let '(toks, e) := lex cfg (t_text c) in
    toks_eqb toks (t_tokens c) && ending_matches e (t_lexend c)
  end.

(* the order of the string rules the model computes for an operator list (compared with the
   live master regex of that engine) *)
Definition rule_order (ops : oplist) : option (list text) :=
  match build_table ops with
  | Some B => Some (map r_name (sorted_rules B))
  | None => None
  end.
