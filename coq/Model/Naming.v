(* Model of the naming convention applied to function and parameter names:
     yaql/language/specs.py        convert_function_name, convert_parameter_name
     yaql/language/conventions.py  CamelCaseConvention (regex (?!^)_(\w), replaced by the upper-cased character)
   Strings are lists of code points.  The model covers ASCII names (every name of the standard
   library is ASCII - checked by Gen/Registry.v); for other code points \w and upper() are
   python library behaviour that is not modelled (they are copied unchanged).
   No proofs in this file. *)
From Coq Require Import List ZArith Bool.
From YV Require Import Common.Corr.
Import ListNotations.
Local Open Scope Z_scope.

Definition us : Z := 95.
Definition is_alpha (c : Z) : bool := ((65 <=? c) && (c <=? 90)) || ((97 <=? c) && (c <=? 122)).
Definition is_word (c : Z) : bool := is_alpha c || ((48 <=? c) && (c <=? 57)) || (c =? us).
Definition upper (c : Z) : Z := if (97 <=? c) && (c <=? 122) then c - 32 else c.

(* str.rstrip('_') *)
Fixpoint rstrip_aux (n : str) : str * bool :=
  match n with
  | [] => ([], true)
  | c :: r => let '(r', allus) := rstrip_aux r in
              if allus && (c =? us) then ([], true) else (c :: r', false)
  end.
Definition rstrip (n : str) : str := fst (rstrip_aux n).

(* re.sub(r'(?!^)_(\w)', lambda m: m.group(1).upper(), name): leftmost, non-overlapping *)
Fixpoint camel_from (at_start : bool) (s : str) : str :=
  match s with
  | [] => []
  | c :: r =>
      if negb at_start && (c =? us) then
        match r with
        | d :: r' => if is_word d then upper d :: camel_from false r' else c :: camel_from false r
        | [] => [c]
        end
      else c :: camel_from false r
  end.
Definition camel (s : str) : str := camel_from true s.

Definition convert_parameter_name (s : str) : str :=
  match s with [] => [] | _ => camel (rstrip s) end.

(* str.find(ch, 1) *)
Fixpoint find_from (ch : Z) (s : str) (i : nat) : option nat :=
  match s with
  | [] => None
  | c :: r => if c =? ch then Some i else find_from ch r (S i)
  end.

Definition convert_function_name (s : str) : str :=
  match s with
  | [] => []
  | _ =>
      let s' := rstrip s in
      match s' with
      | [] => []                       (* python raises IndexError here; never a registered name *)
      | c :: r =>
          if is_alpha c then camel s'
          else match find_from c r 1 with
               | Some finish =>
                   if Nat.leb finish 1 then s'
                   else firstn (S finish) s' ++ camel (skipn (S finish) s')
               | None => s'
               end
      end
  end.

(* correspondence case: a name and what the real functions returned for it *)
Record ncase := { n_in : str; n_fun : str; n_par : str }.
Definition ncase_ok (c : ncase) : bool :=
  str_eqb (convert_function_name (n_in c)) (n_fun c) && str_eqb (convert_parameter_name (n_in c)) (n_par c).

(* registry rows (Gen/Registry.v): one definition with its parameters *)
Record rparam := { r_name : str; r_alias : str; r_declared : option str; r_hidden : bool; r_star : bool }.
Record rdef := { r_fname : str; r_isfun : bool; r_ismeth : bool; r_params : list rparam }.

Definition rparam_ok (p : rparam) : bool :=
  str_eqb (r_alias p) (match r_declared p with Some d => d | None => convert_parameter_name (r_name p) end).

Fixpoint str_mem (s : str) (l : list str) : bool :=
  match l with [] => false | x :: r => str_eqb s x || str_mem s r end.
Fixpoint str_nodup (l : list str) : bool :=
  match l with [] => true | x :: r => negb (str_mem x r) && str_nodup r end.

Definition arg_name_of (p : rparam) : str := match r_alias p with [] => r_name p | a => a end.
Definition is_ascii (s : str) : bool := forallb (fun c => (0 <=? c) && (c <? 128)) s.

Definition rdef_ok (d : rdef) : bool :=
  forallb rparam_ok (r_params d) &&
  str_nodup (map arg_name_of (filter (fun p => negb (r_hidden p) && negb (r_star p)) (r_params d))) &&
  is_ascii (r_fname d) && forallb (fun p => is_ascii (r_name p) && is_ascii (r_alias p)) (r_params d).
