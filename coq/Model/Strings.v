(* Model of yaql/standard_library/strings.py over code-point lists.

   Python's own str methods (find/rfind with slice clamping, slicing, split,
   rsplit, strip, replace, startswith, join) are written out as total Gallina
   functions; the yaql wrappers (substring, indexOf, lastIndexOf, ...) are
   transcribed on top of them with exactly the index arithmetic of the code.

   No proofs in this file. *)
From Coq Require Import List ZArith Bool.
From YV Require Import Common.Corr.
Import ListNotations.
Open Scope Z_scope.

Definition zlen (s : str) : Z := Z.of_nat (length s).

(* ---- prefix test ---------------------------------------------------------- *)
Fixpoint prefixb (p s : str) : bool :=
  match p, s with
  | [], _ => true
  | x :: p', y :: s' => Z.eqb x y && prefixb p' s'
  | _ :: _, [] => false
  end.

Fixpoint memb (c : Z) (cs : str) : bool :=
  match cs with [] => false | d :: r => Z.eqb c d || memb c r end.

(* ---- Python slice s[a:b] -------------------------------------------------- *)
(* PySlice_AdjustIndices for step 1: negative counts from the end, then clamp to [0, n] *)
Definition slice_idx (n i : Z) : Z := if i <? 0 then Z.max 0 (i + n) else Z.min i n.

Definition py_slice (s : str) (a b : Z) : str :=
  let n := zlen s in
  let a' := slice_idx n a in
  let b' := slice_idx n b in
  firstn (Z.to_nat (b' - a')) (skipn (Z.to_nat a') s).

(* yaql substring (strings.py:643-669) *)
Definition substring (s : str) (start length : Z) : str :=
  let n := zlen s in
  let l := if length <? 0 then n else length in
  let st := if start <? 0 then start + n else start in
  py_slice s st (st + l).

(* ---- str.find / str.rfind -------------------------------------------------- *)
(* ADJUST_INDICES of CPython's unicodeobject.c: the end is clamped to [0, n], the
   start only from below *)
Definition adj_start (n st : Z) : Z := if st <? 0 then Z.max 0 (st + n) else st.
Definition adj_end (n e : Z) : Z := if e >? n then n else if e <? 0 then Z.max 0 (e + n) else e.

(* first index among the k candidate positions i, i+1, .. (s is the suffix at i) *)
Fixpoint find_aux (sub s : str) (i : Z) (k : nat) {struct k} : Z :=
  match k with
  | O => -1
  | S k' => if prefixb sub s then i
            else match s with [] => -1 | _ :: r => find_aux sub r (i + 1) k' end
  end.

(* last index among the k candidate positions i, i+1, .. *)
Fixpoint rfind_aux (sub s : str) (i : Z) (k : nat) {struct k} : Z :=
  match k with
  | O => -1
  | S k' =>
      let later := match s with [] => -1 | _ :: r => rfind_aux sub r (i + 1) k' end in
      if later >=? 0 then later else if prefixb sub s then i else -1
  end.

(* the window [lo, hi] of admissible match positions; empty when hi < lo *)
Definition win_lo (s : str) (st : Z) : Z := adj_start (zlen s) st.
Definition win_hi (s sub : str) (e : option Z) : Z :=
  adj_end (zlen s) (match e with Some e => e | None => zlen s end) - zlen sub.

Definition py_find (s sub : str) (st : Z) (e : option Z) : Z :=
  let lo := win_lo s st in
  let hi := win_hi s sub e in
  if hi <? lo then -1 else find_aux sub (skipn (Z.to_nat lo) s) lo (Z.to_nat (hi - lo + 1)).

Definition py_rfind (s sub : str) (st : Z) (e : option Z) : Z :=
  let lo := win_lo s st in
  let hi := win_hi s sub e in
  if hi <? lo then -1 else rfind_aux sub (skipn (Z.to_nat lo) s) lo (Z.to_nat (hi - lo + 1)).

(* yaql indexOf / lastIndexOf, both overloads (strings.py:676-797) *)
Definition index_of (s sub : str) (start : Z) : Z := py_find s sub start None.
Definition last_index_of (s sub : str) (start : Z) : Z := py_rfind s sub start None.

Definition io_start (s : str) (start : Z) : Z := if start <? 0 then start + zlen s else start.
Definition io_length (s : str) (start length : Z) : Z :=
  if length <? 0 then zlen s - io_start s start else length.

Definition index_of3 (s sub : str) (start length : Z) : Z :=
  let st := io_start s start in
  py_find s sub st (Some (st + io_length s start length)).
Definition last_index_of3 (s sub : str) (start length : Z) : Z :=
  let st := io_start s start in
  py_rfind s sub st (Some (st + io_length s start length)).

(* `left in right` *)
Definition str_in (sub s : str) : bool := py_find s sub 0 None >=? 0.

(* ---- join ------------------------------------------------------------------- *)
Fixpoint join (sep : str) (parts : list str) : str :=
  match parts with
  | [] => []
  | [x] => x
  | x :: r => x ++ sep ++ join sep r
  end.

(* ---- split with a separator --------------------------------------------------- *)
Definition cons_hd (c : Z) (l : list str) : list str :=
  match l with h :: t => (c :: h) :: t | [] => [[c]] end.

(* left-to-right scan; [skip] characters of a separator just recognised are still to be
   dropped; cnt < 0 means no limit.  The head of the result is the field being built. *)
Fixpoint split_go (sep s : str) (skip : nat) (cnt : Z) : list str :=
  match s with
  | [] => [[]]
  | c :: r =>
      match skip with
      | S k => split_go sep r k cnt
      | O => if negb (cnt =? 0) && prefixb sep s
             then [] :: split_go sep r (length sep - 1) (cnt - 1)
             else cons_hd c (split_go sep r O cnt)
      end
  end.

Definition split_sep (sep s : str) (cnt : Z) : list str := split_go sep s O cnt.
Definition rsplit_sep (sep s : str) (cnt : Z) : list str :=
  rev (map (@rev Z) (split_go (rev sep) (rev s) O cnt)).

(* ---- whitespace: str.isspace ---------------------------------------------------- *)
Definition is_space (c : Z) : bool :=
  ((9 <=? c) && (c <=? 13)) || ((28 <=? c) && (c <=? 32)) || (c =? 133) || (c =? 160) || (c =? 5760)
  || ((8192 <=? c) && (c <=? 8202)) || (c =? 8232) || (c =? 8233) || (c =? 8239) || (c =? 8287) || (c =? 12288).

(* split() without separator: runs of whitespace separate, no empty fields; when the
   budget is used up the rest (leading whitespace skipped) is one field *)
Fixpoint wsplit_go (s : str) (cnt : Z) (inw : bool) : list str :=
  match s with
  | [] => if inw then [[]] else []
  | c :: r =>
      if inw then (if is_space c then [] :: wsplit_go r cnt false else cons_hd c (wsplit_go r cnt true))
      else if is_space c then wsplit_go r cnt false
      else if cnt =? 0 then [s]
      else cons_hd c (wsplit_go r (cnt - 1) true)
  end.

Inductive err := EValue.      (* ValueError: empty separator *)

Definition str_split (s : str) (sep : option str) (cnt : Z) : err + list str :=
  match sep with
  | None => inr (wsplit_go s cnt false)
  | Some [] => inl EValue
  | Some sp => inr (split_sep sp s cnt)
  end.
Definition str_rsplit (s : str) (sep : option str) (cnt : Z) : err + list str :=
  match sep with
  | None => inr (rev (map (@rev Z) (wsplit_go (rev s) cnt false)))
  | Some [] => inl EValue
  | Some sp => inr (rsplit_sep sp s cnt)
  end.

(* ---- strip ------------------------------------------------------------------------ *)
Fixpoint lstrip (f : Z -> bool) (s : str) : str :=
  match s with [] => [] | c :: r => if f c then lstrip f r else s end.
Fixpoint rstrip (f : Z -> bool) (s : str) : str :=
  match s with
  | [] => []
  | c :: r => match rstrip f r with [] => if f c then [] else [c] | r' => c :: r' end
  end.
Definition strip (f : Z -> bool) (s : str) : str := rstrip f (lstrip f s).

Definition charset (chars : option str) : Z -> bool :=
  match chars with None => is_space | Some cs => fun c => memb c cs end.

Definition trim (s : str) (chars : option str) : str := strip (charset chars) s.
Definition trim_left (s : str) (chars : option str) : str := lstrip (charset chars) s.
Definition trim_right (s : str) (chars : option str) : str := rstrip (charset chars) s.

Definition is_nil (s : str) : bool := match s with [] => true | _ => false end.

Definition norm (s : option str) (chars : option str) : option str :=
  match s with
  | None => None
  | Some s => let v := strip (charset chars) s in if is_nil v then None else Some v
  end.

Definition is_empty (s : option str) (trim_spaces : bool) (chars : option str) : bool :=
  match s with
  | None => true
  | Some s => is_nil (if trim_spaces then strip (charset chars) s else s)
  end.

(* ---- replace ------------------------------------------------------------------------ *)
Fixpoint replace_go (old new s : str) (skip : nat) (cnt : Z) : str :=
  match s with
  | [] => []
  | c :: r =>
      match skip with
      | S k => replace_go old new r k cnt
      | O => if negb (cnt =? 0) && prefixb old s
             then new ++ replace_go old new r (length old - 1) (cnt - 1)
             else c :: replace_go old new r O cnt
      end
  end.

(* old = "": new is inserted before each character and at the end, cnt insertions at most *)
Fixpoint replace_empty (new s : str) (cnt : Z) : str :=
  if cnt =? 0 then s
  else new ++ match s with [] => [] | c :: r => c :: replace_empty new r (cnt - 1) end.

Definition str_replace (s old new : str) (cnt : Z) : str :=
  match old with [] => replace_empty new s cnt | _ => replace_go old new s O cnt end.

(* ---- scalars and str() (strings.py:328-352) -------------------------------------------- *)
Inductive scalar := SNull | SBool (b : bool) | SInt (z : Z) | SStr (s : str).

Fixpoint dec_go (fuel : nat) (n : Z) (acc : str) : str :=
  match fuel with
  | O => acc
  | S f => let acc' := (48 + n mod 10) :: acc in if n <? 10 then acc' else dec_go f (n / 10) acc'
  end.
Definition dec (n : Z) : str :=
  if n <? 0 then 45 :: dec_go (S (Z.to_nat (Z.log2 (- n)))) (- n) []
  else dec_go (S (Z.to_nat (Z.log2 n))) n [].

Definition str_of (v : scalar) : str :=
  match v with
  | SNull => [110; 117; 108; 108]
  | SBool true => [116; 114; 117; 101]
  | SBool false => [102; 97; 108; 115; 101]
  | SInt z => dec z
  | SStr s => s
  end.

Definition join_scalars (parts : list scalar) (sep : str) : str := join sep (map str_of parts).

Definition replace_dict (s : str) (items : list (scalar * scalar)) (cnt : Z) : str :=
  fold_left (fun acc kv => str_replace acc (str_of (fst kv)) (str_of (snd kv)) cnt) items s.

(* join and replace(dict) convert non-strings with the `str` function VISIBLE IN THE CALLING CONTEXT (the
   injected Delegate('str')), in every spelling.  The model is parameterised by that conversion; [conv_host]
   is the host override the harness registers in a child context (null -> "", true/false -> yes/no). *)
Definition join_with (f : scalar -> str) (parts : list scalar) (sep : str) : str := join sep (map f parts).
Definition replace_dict_with (f : scalar -> str) (s : str) (items : list (scalar * scalar)) (cnt : Z) : str :=
  fold_left (fun acc kv => str_replace acc (f (fst kv)) (f (snd kv)) cnt) items s.

Definition host_str_of (v : scalar) : str :=
  match v with
  | SNull => []
  | SBool true => [121; 101; 115]
  | SBool false => [110; 111]
  | SInt z => dec z
  | SStr s => s
  end.
Definition conv (host : bool) : scalar -> str := if host then host_str_of else str_of.

(* ---- the rest ---------------------------------------------------------------------------- *)
Definition starts_with (s : str) (ps : list str) : bool := existsb (fun p => prefixb p s) ps.
Definition ends_with (s : str) (ps : list str) : bool := existsb (fun p => prefixb (rev p) (rev s)) ps.
Definition to_char_array (s : str) : list str := map (fun c => [c]) s.

Fixpoint repeat_str (s : str) (k : nat) : str := match k with O => [] | S k' => s ++ repeat_str s k' end.
Definition str_mul (s : str) (n : Z) : str := repeat_str s (Z.to_nat n).

(* ---- ordering (Python compares strings by code point), concat, ASCII case mapping ---------------- *)
Fixpoint str_ltb (a b : str) : bool :=
  match a, b with
  | _, [] => false
  | [], _ :: _ => true
  | x :: a', y :: b' => (x <? y) || ((x =? y) && str_ltb a' b')
  end.
Definition str_leb (a b : str) : bool := negb (str_ltb b a).
Inductive cmpop := OpLt | OpLe | OpGt | OpGe.
Definition str_cmp (op : cmpop) (a b : str) : bool :=
  match op with OpLt => str_ltb a b | OpLe => str_leb a b | OpGt => str_ltb b a | OpGe => str_leb b a end.

Definition str_concat (parts : list str) : str := concat parts.

(* toUpper / toLower on ASCII text only (Unicode case mapping is not modelled) *)
Definition is_ascii (s : str) : bool := forallb (fun c => (0 <=? c) && (c <? 128)) s.
Definition upper_c (c : Z) : Z := if (97 <=? c) && (c <=? 122) then c - 32 else c.
Definition lower_c (c : Z) : Z := if (65 <=? c) && (c <=? 90) then c + 32 else c.
Definition ascii_upper (s : str) : str := map upper_c s.
Definition ascii_lower (s : str) : str := map lower_c s.

(* ---- hex, isString, escapeRegex ------------------------------------------------------------------ *)
Definition hex_digit (d : Z) : Z := if d <? 10 then 48 + d else 87 + d.
Fixpoint hex_go (fuel : nat) (n : Z) (acc : str) : str :=
  match fuel with
  | O => acc
  | S f => let acc' := hex_digit (n mod 16) :: acc in if n <? 16 then acc' else hex_go f (n / 16) acc'
  end.
Definition hex_abs (n : Z) : str := 48 :: 120 :: hex_go (S (Z.to_nat (Z.log2 n))) n [].
(* Python hex(): "0x.." lower case, "-0x.." for negatives *)
Definition hex_of (n : Z) : str := if n <? 0 then 45 :: hex_abs (- n) else hex_abs n.

Definition is_string (v : scalar) : bool := match v with SStr _ => true | _ => false end.
(* isRegex: None stands for a regex object, Some v for a scalar *)
Definition is_regex (v : option scalar) : bool := match v with None => true | Some _ => false end.

(* re.escape of the running interpreter: exactly these characters get a backslash:
   ( ) [ ] { } ? * + - | ^ $ \ . & ~ # space \t \n \r \v \f *)
Definition re_special : str := [40; 41; 91; 93; 123; 125; 63; 42; 43; 45; 124; 94; 36; 92; 46; 38; 126; 35; 32; 9; 10; 13; 11; 12].
Definition escape_regex (s : str) : str := flat_map (fun c => if memb c re_special then [92; c] else [c]) s.
(* reading an escaped text back: a backslash makes the next character literal *)
Fixpoint unescape (s : str) : str :=
  match s with
  | [] => []
  | c :: r => if c =? 92 then match r with d :: r' => d :: unescape r' | [] => [] end else c :: unescape r
  end.

(* ---- characters() ----------------------------------------------------------------------------- *)
Fixpoint zrange (a : Z) (k : nat) : str := match k with O => [] | S k' => a :: zrange (a + 1) k' end.
Definition c_digits := zrange 48 10.
Definition c_lower := zrange 97 26.
Definition c_upper := zrange 65 26.
Definition c_letters := c_lower ++ c_upper.
Definition c_hexdigits := c_digits ++ zrange 97 6 ++ zrange 65 6.
Definition c_octdigits := zrange 48 8.
Definition c_punctuation := zrange 33 15 ++ zrange 58 7 ++ zrange 91 6 ++ zrange 123 4.
Definition c_whitespace : str := [32; 9; 10; 13; 11; 12].
Definition c_printable := c_digits ++ c_letters ++ c_punctuation ++ c_whitespace.

Record cflags := { f_digits : bool; f_hexdigits : bool; f_ascii_lowercase : bool; f_ascii_uppercase : bool;
                   f_ascii_letters : bool; f_letters : bool; f_octdigits : bool; f_punctuation : bool;
                   f_printable : bool; f_lowercase : bool; f_uppercase : bool; f_whitespace : bool }.

Definition pick (b : bool) (s : str) : str := if b then s else [].

(* the documented classes; `letters`, `lowercase`, `uppercase` are the (C-locale) ASCII ones *)
Definition characters_string (f : cflags) : str :=
  pick (f_digits f) c_digits ++ pick (f_hexdigits f) c_hexdigits ++ pick (f_ascii_lowercase f) c_lower
  ++ pick (f_ascii_uppercase f) c_upper ++ pick (f_ascii_letters f) c_letters ++ pick (f_letters f) c_letters
  ++ pick (f_octdigits f) c_octdigits ++ pick (f_punctuation f) c_punctuation ++ pick (f_printable f) c_printable
  ++ pick (f_lowercase f) c_lower ++ pick (f_uppercase f) c_upper ++ pick (f_whitespace f) c_whitespace.

Fixpoint insert_sorted (c : Z) (l : str) : str :=
  match l with
  | [] => [c]
  | d :: r => if c <? d then c :: l else if c =? d then l else d :: insert_sorted c r
  end.
(* the result is a set; it is observed sorted *)
Definition characters (f : cflags) : str := fold_right insert_sorted [] (characters_string f).

(* ---- correspondence ------------------------------------------------------------------------------ *)
Inductive call :=
| KSubstring (s : str) (start length : Z)
| KIndexOf (s sub : str) (start : Z)
| KIndexOf3 (s sub : str) (start length : Z)
| KLastIndexOf (s sub : str) (start : Z)
| KLastIndexOf3 (s sub : str) (start length : Z)
| KSplit (s : str) (sep : option str) (cnt : Z)
| KRSplit (s : str) (sep : option str) (cnt : Z)
| KJoin (parts : list scalar) (sep : str)
| KTrim (s : str) (chars : option str)
| KTrimLeft (s : str) (chars : option str)
| KTrimRight (s : str) (chars : option str)
| KNorm (s : option str) (chars : option str)
| KIsEmpty (s : option str) (trim_spaces : bool) (chars : option str)
| KReplace (s old new : str) (cnt : Z)
| KReplaceDict (s : str) (items : list (scalar * scalar)) (cnt : Z)
| KStartsWith (s : str) (ps : list str)
| KEndsWith (s : str) (ps : list str)
| KToCharArray (s : str)
| KLen (s : str)
| KIn (sub s : str)
| KMul (s : str) (n : Z)
| KCharacters (f : cflags)
| KCmp (op : cmpop) (a b : str)
| KConcat (parts : list str)
| KStr (v : scalar)
| KUpper (s : str)
| KLower (s : str)
| KHex (n : Z)
| KIsString (v : scalar)
| KIsRegex (v : option scalar)
| KEscapeRegex (s : str)
| KJoinConv (host : bool) (parts : list scalar) (sep : str)
| KReplaceDictConv (host : bool) (s : str) (items : list (scalar * scalar)) (cnt : Z)
| KStrConv (host : bool) (v : scalar).

Inductive res :=
| RNull
| RBool (b : bool)
| RInt (z : Z)
| RStr (s : str)
| RStrs (l : list str)
| RErr (e : Z).          (* 1 = ValueError *)

Definition of_split (r : err + list str) : res :=
  match r with inl EValue => RErr 1 | inr l => RStrs l end.

Definition eval (c : call) : res :=
  match c with
  | KSubstring s a b => RStr (substring s a b)
  | KIndexOf s sub a => RInt (index_of s sub a)
  | KIndexOf3 s sub a b => RInt (index_of3 s sub a b)
  | KLastIndexOf s sub a => RInt (last_index_of s sub a)
  | KLastIndexOf3 s sub a b => RInt (last_index_of3 s sub a b)
  | KSplit s sep cnt => of_split (str_split s sep cnt)
  | KRSplit s sep cnt => of_split (str_rsplit s sep cnt)
  | KJoin parts sep => RStr (join_scalars parts sep)
  | KTrim s cs => RStr (trim s cs)
  | KTrimLeft s cs => RStr (trim_left s cs)
  | KTrimRight s cs => RStr (trim_right s cs)
  | KNorm s cs => match norm s cs with None => RNull | Some v => RStr v end
  | KIsEmpty s t cs => RBool (is_empty s t cs)
  | KReplace s old new cnt => RStr (str_replace s old new cnt)
  | KReplaceDict s items cnt => RStr (replace_dict s items cnt)
  | KStartsWith s ps => RBool (starts_with s ps)
  | KEndsWith s ps => RBool (ends_with s ps)
  | KToCharArray s => RStrs (to_char_array s)
  | KLen s => RInt (zlen s)
  | KIn sub s => RBool (str_in sub s)
  | KMul s n => RStr (str_mul s n)
  | KCharacters f => RStr (characters f)
  | KCmp op a b => RBool (str_cmp op a b)
  | KConcat parts => RStr (str_concat parts)
  | KStr v => RStr (str_of v)
  | KUpper s => RStr (ascii_upper s)
  | KLower s => RStr (ascii_lower s)
  | KHex n => RStr (hex_of n)
  | KIsString v => RBool (is_string v)
  | KIsRegex v => RBool (is_regex v)
  | KEscapeRegex s => RStr (escape_regex s)
  | KJoinConv host parts sep => RStr (join_with (conv host) parts sep)
  | KReplaceDictConv host s items cnt => RStr (replace_dict_with (conv host) s items cnt)
  | KStrConv host v => RStr (conv host v)
  end.

Definition res_eqb (a b : res) : bool :=
  match a, b with
  | RNull, RNull => true
  | RBool x, RBool y => Bool.eqb x y
  | RInt x, RInt y => Z.eqb x y
  | RStr x, RStr y => str_eqb x y
  | RStrs x, RStrs y => list_eqb str_eqb x y
  | RErr x, RErr y => Z.eqb x y
  | _, _ => false
  end.

Definition case := (call * res)%type.
Definition case_ok (c : case) : bool := res_eqb (eval (fst c)) (snd c).
