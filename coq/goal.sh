#!/bin/bash
# usage: goal.sh File.v LINE  -- feed lines 1..LINE to coqtop, then Show; prints the tail
f=$1; n=$2
( head -n $n "$f"; echo "Show."; ) | timeout 120 coqtop -Q . YV 2>&1 | tail -${3:-40}
