(* Correspondence plumbing: the harness writes a list of cases (input together
   with the observation the implementation produced); [mismatches] lists the
   indices on which the executable model disagrees.  Evaluated with vm_compute
   by the kernel's VM; nothing here is proved about, it is only run. *)
From Coq Require Import List ZArith Bool.
Import ListNotations.

Fixpoint mismatches_from {A} (f : A -> bool) (i : nat) (l : list A) : list nat :=
  match l with
  | [] => []
  | x :: r => if f x then mismatches_from f (S i) r else i :: mismatches_from f (S i) r
  end.
Definition mismatches {A} (f : A -> bool) (l : list A) : list nat := mismatches_from f 0 l.

(* Strings are lists of code points. *)
Definition str := list Z.

Fixpoint str_eqb (a b : str) : bool :=
  match a, b with
  | [], [] => true
  | x :: a', y :: b' => Z.eqb x y && str_eqb a' b'
  | _, _ => false
  end.

Fixpoint list_eqb {A} (eqb : A -> A -> bool) (a b : list A) : bool :=
  match a, b with
  | [], [] => true
  | x :: a', y :: b' => eqb x y && list_eqb eqb a' b'
  | _, _ => false
  end.

Definition option_eqb {A} (eqb : A -> A -> bool) (a b : option A) : bool :=
  match a, b with
  | None, None => true
  | Some x, Some y => eqb x y
  | _, _ => false
  end.

Definition pair_eqb {A B} (ea : A -> A -> bool) (eb : B -> B -> bool) (a b : A * B) : bool :=
  ea (fst a) (fst b) && eb (snd a) (snd b).
