From Coq Require Import List ZArith Bool Lia.
From YV Require Import Common.Corr.
Import ListNotations.

Lemma str_eqb_spec (a b : str) : str_eqb a b = true <-> a = b.
Proof.
  revert b; induction a as [|x a IH]; intros [|y b]; cbn; split; intro H; try congruence; try reflexivity.
  - apply andb_true_iff in H as [H1 H2]. apply Z.eqb_eq in H1. apply IH in H2. congruence.
  - injection H as -> ->. rewrite Z.eqb_refl. cbn. apply IH. reflexivity.
Qed.

Lemma str_eqb_refl a : str_eqb a a = true.
Proof. apply str_eqb_spec. reflexivity. Qed.

Lemma str_eqb_neq a b : str_eqb a b = false <-> a <> b.
Proof.
  split; intro H.
  - intro E. apply str_eqb_spec in E. congruence.
  - destruct (str_eqb a b) eqn:E; [|reflexivity]. apply str_eqb_spec in E. contradiction.
Qed.

Lemma str_eqb_sym a b : str_eqb a b = str_eqb b a.
Proof.
  destruct (str_eqb a b) eqn:E.
  - apply str_eqb_spec in E. subst. symmetry. apply str_eqb_refl.
  - symmetry. apply str_eqb_neq. apply str_eqb_neq in E. congruence.
Qed.
