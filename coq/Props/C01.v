(* C01 - A shared engine parses every text as if it were alone.
   Statements only; proofs are in Lemmas/LexerStateFacts.v.  The tokenizer, the parser automaton
   and hence the operator table are universally quantified. *)
From Coq Require Import List ZArith Bool Arith.
From YV Require Import Common.Corr Model.LexerState Model.LexerStateReal Lemmas.LexerStateFacts Gen.EngineFacts.
Import ListNotations.

(* A parse call started on an engine whose lexer cells are in ANY state (left by earlier parses,
   failed or abandoned ones included) goes through the states it goes through on a fresh engine -
   for the shared-lexer design as well as for the private one. *)
Theorem C01_history_independent :
  forall (token pst result : Type) (lexfun : list Z -> nat -> nat -> fetch token)
         (pinit : list Z -> pst) (pstep : pst -> fetch token -> pst + result)
         (priv : bool) (cs : cells) (text : list Z) (n : nat),
    solo_from token pst result lexfun pinit pstep priv cs text n
    = solo token pst result lexfun pinit pstep priv text n.
Proof. exact history_independent. Qed.

(* One engine asked to parse any family of texts one after the other, in any order, each call
   carried to any number of steps: every call returns what a fresh engine returns. *)
Theorem C01_sequential_independent :
  forall (token pst result : Type) (lexfun : list Z -> nat -> nat -> fetch token)
         (pinit : list Z -> pst) (pstep : pst -> fetch token -> pst + result)
         (priv : bool) (order : list nat) (steps : nat -> nat),
    NoDup order ->
    forall (w : world pst result) (i : nat) (text : list Z),
      In i order -> snd w i = NotStarted text ->
      snd (run_schedule token pst result lexfun pinit pstep priv w
             (concat (map (fun j => repeat j (steps j)) order))) i
      = solo token pst result lexfun pinit pstep priv text (steps i).
Proof. exact sequential_independent. Qed.

(* With a private lexer cell per call: under EVERY interleaving of the calls' steps (a schedule
   is any list of call indices, of any length, over any number of calls) each call is in the state
   it reaches alone after as many steps as it was given, and the engine's own lexer is untouched. *)
Theorem C01_schedule_independent :
  forall (token pst result : Type) (lexfun : list Z -> nat -> nat -> fetch token)
         (pinit : list Z -> pst) (pstep : pst -> fetch token -> pst + result)
         (sched : list nat) (w : world pst result) (i : nat) (text : list Z),
    snd w i = NotStarted text ->
    snd (run_schedule token pst result lexfun pinit pstep true w sched) i
    = solo token pst result lexfun pinit pstep true text (count_occ Nat.eq_dec sched i)
    /\ fst (run_schedule token pst result lexfun pinit pstep true w sched) 0 = fst w 0.
Proof. exact schedule_independent. Qed.

(* The premise of the previous theorem is what the probe finds on the current tree. *)
Example C01_engine_is_private : lexer_private = true /\ engine_lexer_untouched = true.
Proof. split; reflexivity. Qed.

(* Why the premise is needed: with the engine-wide lexer shared by all calls (the design before
   the repair fb14760) there are texts and a schedule for which a call does NOT get its own
   result.  Text 1 has two tokens, text 2 has one; call 1 starts between two fetches of call 0. *)
Definition refute_case (p : bool) : c01_case :=
  {| k_table := [((1%Z, 0), (1, false)); ((1%Z, 1), (2, false)); ((1%Z, 2), (2, true));
                 ((2%Z, 0), (1, false)); ((2%Z, 1), (1, true))];
     k_fetches := [(1%Z, 3); (2%Z, 2)];
     k_threads := [1%Z; 2%Z];
     k_sched := [0; 0; 1; 0; 0; 1; 1];
     k_priv := p;
     k_obs := [] |}.

Theorem C01_shared_refuted :
  nth 0 (c01_run (refute_case false)) [] <> nth 0 (c01_run (refute_case true)) [].
Proof. vm_compute. discriminate. Qed.

(* non-vacuity: under the same schedule with private cells both calls finish with their solo traces *)
Example C01_private_example :
  c01_run (refute_case true) = [[(false, 1); (false, 2); (true, 0)]; [(false, 1); (true, 0)]].
Proof. vm_compute. reflexivity. Qed.

(* The same, with the tokenizer instantiated by the lexer MODEL of C03/C16 on the actual texts "1 + 2" and "x"
   (4 and 2 fetches): under the schedule 0 0 1 1 1 0 0 0 a private lexer per call gives both calls their own token
   positions, while with the shared lexer call 0 sees end of input after its first token - "1 + 2" parses as "1",
   exactly what was observed on the code before the repair. *)
Example C01_real_lexer_example :
  let t1 := [49; 32; 43; 32; 50]%Z in let t2 := [120]%Z in
  let cse p := {| r_fetches := [(t1, 4); (t2, 2)]; r_threads := [t1; t2]; r_sched := [0; 0; 1; 1; 1; 0; 0; 0];
                  r_priv := p; r_obs := [] |} in
  c01r_run (cse true) = [[(false, 1); (false, 3); (false, 5); (true, 0)]; [(false, 1); (true, 0)]]
  /\ c01r_run (cse false) = [[(false, 1); (true, 0); (true, 0); (true, 0)]; [(false, 1); (true, 0)]].
Proof. vm_compute. split; reflexivity. Qed.

(* The refutation stated against [solo] itself, with the lexer model as tokenizer: for the shared design there are two
   texts and a schedule under which call 0 does NOT end in the state it reaches alone after the same number of steps. *)
Theorem C01_shared_refuted_solo :
  let t1 := [49; 32; 43; 32; 50]%Z in let t2 := [120]%Z in
  let pin (text : list Z) : rr_pst := (if str_eqb text t1 then 4 else 2, []) in
  let init : world rr_pst (list (bool * nat)) :=
      (fresh_cells, fun i => match i with 0 => NotStarted t1 | 1 => NotStarted t2 | _ => Done [] end) in
  let sched := [0; 0; 1; 1; 1; 0; 0; 0] in
  snd (run_schedule Lexer.token rr_pst (list (bool * nat)) lexfun_real pin rr_step false init sched) 0
  <> solo Lexer.token rr_pst (list (bool * nat)) lexfun_real pin rr_step false t1 (count_occ Nat.eq_dec sched 0).
Proof. cbv zeta. intro H. vm_compute in H. discriminate H. Qed.
