(* C05 - Overload resolution follows the documented resolution rules.
   Property theorems only.  Model: Model/Resolution.v ([choose_overload] transcribes the loops of
   runner.choose_overload, [resolve_spec] states the documented rules with set-like combinators only);
   tied to runner.py / specs.py / yaqltypes.py / contexts.py by harness/props/c05.py. *)
From Coq Require Import List ZArith Bool Arith.
From YV Require Import Common.Corr Model.Resolution Gen.Registry Lemmas.ResolutionSpec Lemmas.ResolutionWinner
                       Lemmas.ResolutionBind Lemmas.ResolutionRank Lemmas.ResolutionMap Lemmas.ResolutionWf Lemmas.ResolutionRegistry.
Import ListNotations.

(* the loops compute exactly the documented rules: outcome, bound arguments and evaluation log,
   for every subtype relation, family, call and enumeration order *)
Theorem C05_choose_is_spec : forall (sub : tag -> tag -> bool) layers args pykw,
  choose_overload sub layers args pykw = resolve_spec sub layers args pykw.
Proof. exact choose_is_spec. Qed.

(* eager non-constant arguments are evaluated exactly once, positional ones in call order and then the
   keyword ones; nothing is evaluated when no overload can be called with the syntax used (or the
   overloads conflict) *)
Theorem C05_eval_once : forall (sub : tag -> tag -> bool) layers args pykw,
  snd (choose_overload sub layers args pykw) =
  match phase1 sub layers args pykw with
  | None => []
  | Some (pos, kw, sg) => eager_ids (fst sg) pos ++ eager_ids_kw (snd sg) kw
  end.
Proof. exact eval_once. Qed.

Theorem C05_eval_once_each : forall pos kw (sg : list bool * list bool),
  sublist (eager_ids (fst sg) pos) (flat_map arg_ids pos) /\
  sublist (eager_ids_kw (snd sg) kw) (flat_map (fun kv => arg_ids (snd kv)) kw) /\
  (NoDup (flat_map arg_ids pos ++ flat_map (fun kv => arg_ids (snd kv)) kw) ->
   NoDup (eager_ids (fst sg) pos ++ eager_ids_kw (snd sg) kw)).
Proof.
  exact (fun pos kw sg => conj (eager_ids_sublist (fst sg) pos)
          (conj (eager_ids_kw_sublist (snd sg) kw) (eval_once_nodup pos kw sg))).
Qed.

(* the first layer that has a type-compatible overload decides; later layers are not consulted *)
Theorem C05_first_layer_wins : forall (sub : tag -> tag -> bool) pos kw l1 level l2,
  Forall (fun l => delegates sub pos kw l = []) l1 -> delegates sub pos kw level <> [] ->
  loop2 sub pos kw (l1 ++ level :: l2) = pick_winner sub (delegates sub pos kw level).
Proof. exact loop2_first. Qed.

Theorem C05_no_layer_no_match : forall (sub : tag -> tag -> bool) pos kw cl,
  Forall (fun l => delegates sub pos kw l = []) cl -> loop2 sub pos kw cl = Failed ENoMatch.
Proof. exact loop2_none. Qed.

(* inside the deciding layer: the chosen overload is a match that is a specialization of every other
   match; if there is no such match the call is ambiguous *)
Theorem C05_most_specific : forall (sub : tag -> tag -> bool) ms f p k,
  pick_winner sub ms = Chosen f p k ->
  exists w, In w ms /\ chosen w = Chosen f p k /\
            forall c, In c ms -> m_fid c = m_fid w \/ mapping_spec sub (m_map w) (m_map c) = true.
Proof. exact pick_winner_chosen. Qed.

Theorem C05_chosen_or_ambiguous : forall (sub : tag -> tag -> bool) ms,
  (exists w, In w ms /\ pick_winner sub ms = chosen w) \/ pick_winner sub ms = Failed EAmbiguous.
Proof. exact pick_winner_cases. Qed.

(* at most one match can be most specific ("specialization of a mapping" is asymmetric whatever the
   subtype relation is: it demands a strictly more specific position and forbids a strictly less specific one) *)
Theorem C05_winner_unique : forall (sub : tag -> tag -> bool) ms w1 w2,
  (forall x, In x ms -> NoDup (map fst (snd (m_map x)))) ->
  In w1 ms -> In w2 ms -> is_winner sub ms w1 = true -> is_winner sub ms w2 = true -> m_fid w1 = m_fid w2.
Proof. exact winner_unique. Qed.

(* ... and the premise on keyword mappings holds for everything map_args returns *)
Theorem C05_mapping_keys_unique : forall (sub : tag -> tag -> bool) ps args kw m,
  map_args sub ps args kw = Some m -> NoDup (map fst (snd m)).
Proof. exact map_args_nodup. Qed.

(* layers: the chain up to and including the first exclusive context, filtered by call kind,
   empty layers dropped; nothing collected -> unknown function / method *)
Theorem C05_collect_layers : forall has_receiver chain,
  collect has_receiver chain =
  filter nonempty (map (fun l => filter (kind_ok has_receiver) (lfuns l)) (cut_excl chain)).
Proof. exact collect_spec. Qed.

Theorem C05_unknown : forall (sub : tag -> tag -> bool) has_receiver chain args pykw,
  collect has_receiver chain = [] -> call sub has_receiver chain args pykw = (Failed EUnknown, []).
Proof. intros sub r chain args pykw H. unfold call. rewrite H. reflexivity. Qed.

(* every definition of the standard library (regenerated on every run by harness/gen_registry.py: one
   model row per FunctionDefinition of yaql.create_context(), every parameter's smart-type described
   by the answers of its live check() - kind KProbed - or as a hidden kind) is representable and
   well-formed: distinct yaql-side names of the bound parameters, distinct positions, every argument
   slot read by some parameter; row i carries fid i *)
Theorem C05_registry_representable :
  length reg_fdefs = registry_size /\ fids_from 0 reg_fdefs = true /\
  forall f, In f reg_fdefs -> wf_params_b (fparams f) = true.
Proof. exact (conj reg_fdefs_size_ok (conj registry_fids registry_wf)). Qed.

(* ---- the lattice used by the correspondence is a strict partial order *)
Example sub6_irrefl : forall a, sub6 a a = false.
Proof. intro a. do 9 (destruct a as [|a]; [reflexivity|]). reflexivity. Qed.

Example sub6_trans : forall a b c, sub6 a b = true -> sub6 b c = true -> sub6 a c = true.
Proof.
  intros a b c.
  do 9 (destruct a as [|a]; [do 9 (destruct b as [|b]; [do 9 (destruct c as [|c]; [cbn; congruence|]); cbn; congruence|]); cbn; congruence|]).
  do 9 (destruct b as [|b]; [cbn; congruence|]). cbn. congruence.
Qed.

(* ---- non-vacuity: the rules visibly at work ------------------------------------------------------ *)
Definition p1 (t : tag) (n : bool) : list param :=
  [{| pname := 1; palias := None; ppos := Some 0; pdefault := None; pkind := KTyped t n; pstar := SNone |}].
Definition fn (id : Z) (ps : list param) : fdef :=
  {| fid := id; fparams := ps; fnokw := false; fisfun := true; fismeth := false |}.

(* nearest layer typed A wins over an outer layer typed D although D is more specific; an inner
   layer without a compatible overload lets the outer one decide; exclusivity hides the outer layer *)
Example C05_layers :
  fst (call sub6 false [ {| lfuns := [fn 1 (p1 2 false)]; lexcl := false |}; {| lfuns := [fn 2 (p1 4 false)]; lexcl := false |} ]
            [AExpr 7 (VObj 4)] []) = Chosen 1 [BVal (VObj 4)] [] /\
  call sub6 false [ {| lfuns := [fn 1 (p1 6 false)]; lexcl := false |}; {| lfuns := [fn 2 (p1 4 false)]; lexcl := false |} ]
       [AExpr 7 (VObj 4)] [] = (Chosen 2 [BVal (VObj 4)] [], [7%Z]) /\
  call sub6 false [ {| lfuns := [fn 1 (p1 6 false)]; lexcl := true |}; {| lfuns := [fn 2 (p1 4 false)]; lexcl := false |} ]
       [AExpr 7 (VObj 4)] [] = (Failed ENoMatch, [7%Z]) /\
  call sub6 true [ {| lfuns := [fn 1 (p1 6 false)]; lexcl := true |} ] [ARaw (VObj 4)] [] = (Failed EUnknown, []).
Proof. vm_compute. repeat split. Qed.

(* a lazy parameter is not evaluated, a laziness conflict is an error before anything is evaluated,
   a constant of the wrong type excludes the overload before evaluation *)
Definition p2 (k1 k2 : kind) : list param :=
  [{| pname := 1; palias := None; ppos := Some 0; pdefault := None; pkind := k1; pstar := SNone |};
   {| pname := 2; palias := None; ppos := Some 1; pdefault := None; pkind := k2; pstar := SNone |}].
Example C05_lazy :
  call sub6 false [ {| lfuns := [fn 1 (p2 (KTyped 0 true) KLambda)]; lexcl := false |} ] [AExpr 7 (VObj 4); AExpr 8 VNull] []
    = (Chosen 1 [BVal (VObj 4); BCallable (AExpr 8 VNull)] [], [7%Z]) /\
  call sub6 false [ {| lfuns := [fn 1 (p2 (KTyped 0 true) KLambda); fn 2 (p2 (KTyped 0 true) (KTyped 0 true))]; lexcl := false |} ]
       [AExpr 7 (VObj 4); AExpr 8 VNull] [] = (Failed EAmbiguous, []) /\
  call sub6 false [ {| lfuns := [fn 1 (p2 (KTyped 2 false) (KTyped 0 true))]; lexcl := false |} ] [AConst (VObj 6); AExpr 8 VNull] []
    = (Failed ENoMatch, []).
Proof. vm_compute. repeat split. Qed.

(* "specialization of a mapping" is not transitive (unrelated positions are ignored): f1 beats f2 by
   the first argument, f2 beats f3 by the second, f1 and f3 are incomparable - nobody beats everybody,
   so the call is ambiguous in every enumeration order *)
Example C05_nontransitive :
  let f1 := fn 1 (p2 (KTyped 7 false) (KAnyOf [2; 3] false)) in
  let f2 := fn 2 (p2 (KTyped 0 true) (KTyped 7 false)) in
  let f3 := fn 3 (p2 (KAnyOf [2; 3] false) (KTyped 0 true)) in
  let m f := (fparams f, @nil (Z * param)) in
  mapping_spec sub6 (m f1) (m f2) = true /\ mapping_spec sub6 (m f2) (m f3) = true /\
  mapping_spec sub6 (m f1) (m f3) = false /\ mapping_spec sub6 (m f3) (m f1) = false /\
  forallb (fun l => outcome_eqb (fst (choose_overload sub6 [l] [AExpr 1 (VObj 8); AExpr 2 (VObj 8)] [])) (Failed EAmbiguous))
          [[f1; f2; f3]; [f1; f3; f2]; [f2; f1; f3]; [f2; f3; f1]; [f3; f1; f2]; [f3; f2; f1]] = true.
Proof. vm_compute. repeat split. Qed.

Print Assumptions C05_registry_representable.
Print Assumptions C05_choose_is_spec.
Print Assumptions C05_eval_once.
Print Assumptions C05_eval_once_each.
Print Assumptions C05_first_layer_wins.
Print Assumptions C05_no_layer_no_match.
Print Assumptions C05_most_specific.
Print Assumptions C05_chosen_or_ambiguous.
Print Assumptions C05_winner_unique.
Print Assumptions C05_mapping_keys_unique.
Print Assumptions C05_collect_layers.
Print Assumptions C05_unknown.
