(* C03 - Parsing is total: a statement or a YAQL parsing error, nothing else.
   Property theorems only.  The model is Model/Lexer.v (the yaql token rules as
   ply drives them), tied to yaql/language/lexer.py by the regenerated facts of
   Gen/LexFacts.v + Gen/CharClass.v and by the correspondence check of
   harness/props/c03.py.  The LALR grammar check is abstract: any function of the
   token list that reports errors at token indices. *)
From Coq Require Import List ZArith Bool Arith.
From YV Require Import Common.Corr Gen.LexFacts Gen.OpTables Model.OpTable Model.Lexer Model.LexerTables
  Lemmas.LexerTotal Lemmas.LexerTables.
Import ListNotations.

(* the configuration read from the current tree is well formed: no string rule
   matches the empty string, every token type the keyword rule can produce is a
   declared token, the conversions in the token actions are guarded, and t_error
   raises YaqlLexicalException (whatever the \N{name} oracle is) *)
Theorem C03_default_cfg_wf : forall names, cfg_wfb (default_cfg names) = true.
Proof. intro names. vm_compute. reflexivity. Qed.

(* the regex sources, the order of the alternatives of ply's master regex and the
   regex flags are the ones the matchers of Model/Lexer.v were written for *)
Theorem C03_regexes_pinned :
  rule_sources = pinned_rule_sources /\ escape_source = pinned_escape_source /\
  master_order = expected_master_order /\
  lexer_flags = flag_verbose_unicode /\ escape_flags = flag_verbose_unicode.
Proof. repeat split; reflexivity. Qed.

(* lexing never lets a foreign exception class escape and never runs out of fuel;
   a lexical error is reported at a position inside the text *)
Theorem C03_lex_total : forall cfg s, cfg_wfb cfg = true ->
  match snd (lex cfg s) with
  | EndOk => True
  | EndLexErr p => (p < length s)%nat
  | EndForeign => False
  | EndFuel => False
  end.
Proof.
  exact (fun cfg s WF =>
    match lex_inv cfg s (wf_ops_nonempty cfg WF) with
    | conj A (conj B (conj C _)) =>
      match snd (lex cfg s) as e
        return (e <> EndFuel -> (cfg_wfb cfg = true -> e <> EndForeign) ->
                (forall p, e = EndLexErr p -> (p < length s)%nat) ->
                match e with EndOk => True | EndLexErr p => (p < length s)%nat | EndForeign => False | EndFuel => False end)
      with
      | EndOk => fun _ _ _ => I
      | EndLexErr p => fun _ _ c => c p eq_refl
      | EndForeign => fun _ b _ => b WF eq_refl
      | EndFuel => fun a _ _ => a eq_refl
      end A B C
    end).
Qed.

(* fuel [length s + 1] suffices (every token and every ignored character consumes
   at least one code point), and more fuel changes nothing *)
Theorem C03_terminates : forall cfg s, ops_nonempty cfg ->
  snd (lex cfg s) <> EndFuel /\
  forall fuel, (length s < fuel)%nat -> lex_loop cfg fuel 0 None s = lex cfg s.
Proof.
  exact (fun cfg s NE =>
    conj (proj1 (lex_inv cfg s NE))
         (fun fuel L => lex_loop_fuel_mono cfg (S (length s)) 0%nat None s NE (Nat.lt_succ_diag_r _) fuel L)).
Qed.

(* the tokens lie one after the other inside the text, each at least one code point long *)
Theorem C03_token_positions_in_range : forall cfg s, ops_nonempty cfg ->
  tiles 0 (length s) (fst (lex cfg s)) /\
  forall t, In t (fst (lex cfg s)) -> (1 <= tk_len t /\ tk_pos t + tk_len t <= length s)%nat.
Proof.
  exact (fun cfg s NE =>
    let D := proj2 (proj2 (proj2 (lex_inv cfg s NE))) in
    conj D (fun t I => proj2 (tiles_In _ _ _ t D I))).
Qed.

(* the parser's outcome, for ANY grammar check that reports its errors at tokens it was
   given: a statement, a lexical error inside the text, a grammar error at the position
   of a token of the text (hence inside it) or at end of input - nothing else *)
Theorem C03_total : forall cfg (gram : list token -> option (option nat)) s,
  cfg_wfb cfg = true ->
  (forall toks i, gram toks = Some (Some i) -> (i < length toks)%nat) ->
  match parse_outcome cfg gram s with
  | PForeign | PFuel => False
  | PLex p => (p < length s)%nat
  | PGram (Some p) => (p < length s)%nat /\ exists t, In t (fst (lex cfg s)) /\ tk_pos t = p
  | PGram None | POk => True
  end.
Proof. exact (fun cfg gram s WF G => parse_outcome_total cfg gram G s WF). Qed.

(* ---- every engine a host can build ----
   [ops] is ANY operator list (factory.operators after any sequence of insert_operator
   calls / removals / keyword_operator choice); if _build_operator_table accepts it and
   no symbol is empty, the configuration Lexer.__init__ and ply derive from it
   (Model/LexerTables.v: string rules by decreasing regex length, operator table, token
   names) is well formed ... *)
Theorem C03_any_table_wf : forall ops base cfg,
  ops_symbols_nonempty ops = true -> base_okb base = true ->
  cfg_of_ops ops base = Some cfg -> cfg_wfb cfg = true.
Proof. exact cfg_of_ops_wf. Qed.

(* ... so lexing with that engine is total ... *)
Theorem C03_lex_total_any_table : forall ops base cfg s,
  ops_symbols_nonempty ops = true -> base_okb base = true -> cfg_of_ops ops base = Some cfg ->
  match snd (lex cfg s) with
  | EndOk => True
  | EndLexErr p => (p < length s)%nat
  | EndForeign => False
  | EndFuel => False
  end.
Proof. exact (fun ops base cfg s NE BO H => C03_lex_total cfg s (cfg_of_ops_wf ops base cfg NE BO H)). Qed.

(* ... and so is parsing, for any grammar check reporting its errors at tokens *)
Theorem C03_total_any_table : forall ops base cfg (gram : list token -> option (option nat)) s,
  ops_symbols_nonempty ops = true -> base_okb base = true -> cfg_of_ops ops base = Some cfg ->
  (forall toks i, gram toks = Some (Some i) -> (i < length toks)%nat) ->
  match parse_outcome cfg gram s with
  | PForeign | PFuel => False
  | PLex p => (p < length s)%nat
  | PGram (Some p) => (p < length s)%nat /\ exists t, In t (fst (lex cfg s)) /\ tk_pos t = p
  | PGram None | POk => True
  end.
Proof. exact (fun ops base cfg gram s NE BO H G => C03_total cfg gram s (cfg_of_ops_wf ops base cfg NE BO H) G). Qed.

(* the construction reproduces the live default engine: from the regenerated default
   operator list it yields exactly the string rules (in master-regex order) and the
   operator table read from the live lexer, and the same set of token names; the
   default and legacy lists have no empty symbol and the regenerated base is guarded *)
Theorem C03_table_cfg_is_live_default : forall names,
  option_map op_strs (cfg_of_ops default_ops (default_cfg names)) = Some op_rules /\
  option_map op_table (cfg_of_ops default_ops (default_cfg names)) = Some operator_table /\
  option_map (fun c => forallb (fun t => mem_text t (tok_names c)) token_names &&
                       forallb (fun t => mem_text t token_names) (tok_names c))
             (cfg_of_ops default_ops (default_cfg names)) = Some true /\
  ops_symbols_nonempty default_ops = true /\ ops_symbols_nonempty legacy_ops = true /\
  base_okb (default_cfg names) = true.
Proof. intro names. repeat split; vm_compute; reflexivity. Qed.

(* ---- the statements are not vacuous ---- *)
Definition nonames : text -> option Z := fun _ => None.

(* 1 + 2 : three tokens *)
Example lex_sum :
  let '(toks, e) := lex (default_cfg nonames) [49; 32; 43; 32; 50]%Z in
  (map (fun t => (tk_pos t, tk_len t, tk_val t)) toks, e) =
  ([(0, 1, VInt 1); (2, 1, VText [43]%Z); (4, 1, VInt 2)]%nat, EndOk).
Proof. vm_compute. reflexivity. Qed.

(* '\xzz' : a lexical error at the position of the string token *)
Example lex_bad_escape : lex (default_cfg nonames) [32; 39; 92; 120; 122; 122; 39]%Z = ([], EndLexErr 1).
Proof. vm_compute. reflexivity. Qed.

(* a # : the keyword, then t_error at position 2 *)
Example lex_illegal_char : lex (default_cfg nonames) [97; 32; 35]%Z =
  ([mkTok K_KEYWORD 0 1 (VText [97]%Z)], EndLexErr 2).
Proof. vm_compute. reflexivity. Qed.

(* the premise matters: with the guard around escape decoding removed (the code
   before the repair of finding F2) the codec's exception escapes *)
Definition unguarded_cfg : lexcfg :=
  let c := default_cfg nonames in
  Build_lexcfg (is_w c) (is_d c) (digit_val c) (op_strs c) (op_table c) (keywords c) (kwvals c) (tok_names c)
               (literals c) (ignore c) (max_digits c) false false (error_yaql c) (uname c).
Example unguarded_is_not_total : snd (lex unguarded_cfg [39; 92; 120; 122; 122; 39]%Z) = EndForeign.
Proof. vm_compute. reflexivity. Qed.

(* a grammar check satisfying the premise of C03_total *)
Example gram_premise_satisfiable :
  let gram := fun toks : list token => match toks with [] => Some None | _ :: _ :: _ => Some (Some 1%nat) | _ => None end in
  forall toks i, gram toks = Some (Some i) -> (i < length toks)%nat.
Proof. intros gram [|a [|b r]] i; cbn; try discriminate. intros [= <-]. cbn. auto with arith. Qed.
