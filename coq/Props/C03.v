(* C03 - stub while the proofs are being written *)
From Coq Require Import List ZArith Bool.
From YV Require Import Common.Corr Model.Lexer Gen.LexFacts.
Import ListNotations.

Theorem C03_regexes_pinned :
  rule_sources = pinned_rule_sources /\ escape_source = pinned_escape_source /\
  master_order = expected_master_order /\ lexer_flags = flag_verbose_unicode /\ escape_flags = flag_verbose_unicode.
Proof. repeat split; reflexivity. Qed.
