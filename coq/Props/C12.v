(* C12 - All ways of passing the same arguments are equivalent.
   Property theorems only.  Models: Model/Resolution.v (map_args, get_delegate, translate_args, collect),
   Model/Naming.v (naming convention); Gen/Registry.v is regenerated from the live standard library on
   every run.  Tied to specs.py / runner.py / conventions.py by harness/props/c12.py. *)
From Coq Require Import List ZArith Bool Arith.
From YV Require Import Common.Corr Model.Resolution Model.Naming Gen.Registry
                       Lemmas.ResolutionSpec Lemmas.ResolutionWinner Lemmas.ResolutionBind Lemmas.ResolutionRank Lemmas.ResolutionMap Lemmas.ResolutionWf Lemmas.ResolutionRegistry Lemmas.ResolutionCall.
Import ListNotations.
Close Scope Z_scope.

(* binding is a function of WHICH argument every parameter is given: two calls that give every
   bound parameter the same argument (positionally, by keyword, through an empty slot or not at all),
   the same surplus positional arguments and the same surplus keywords produce the same get_delegate
   result - the same delivered value for every payload parameter, or both fail.
   Premise: the yaql-side names of the bound parameters of the definition are distinct. *)
Theorem C12_binding_depends_on_assignment : forall (sub : tag -> tag -> bool) ps args1 kw1 args2 kw2,
  NoDup (bound_names ps) ->
  (forall p, In p ps -> binds p = true -> given ps args1 kw1 p = given ps args2 kw2 p) ->
  skipn (nvis ps) args1 = skipn (nvis ps) args2 ->
  dels (bound_names ps) kw1 = dels (bound_names ps) kw2 ->
  get_delegate sub ps args1 kw1 = get_delegate sub ps args2 kw2.
Proof. exact get_delegate_given. Qed.

(* every split point: the first k slots positional (omitted parameters as empty slots), all other given
   parameters by keyword - for every well-formed signature (hidden parameters anywhere, defaults, aliases,
   keyword-only, *, ** ; ANY dictionary order; well-formed = the yaql-side names of the bound parameters
   are distinct and the positions are distinct), every assignment and all split points k1, k2 *)
Theorem C12_spellings_bind_equal : forall (sub : tag -> tag -> bool) ps (s : assignment) k1 k2,
  NoDup (bound_names ps) -> NoDup (all_pos ps) -> (forall n, s n <> Some ANoValue) ->
  k1 <= nvis ps -> k2 <= nvis ps ->
  get_delegate sub ps (spell_args ps s k1) (spell_kw ps s k1) =
  get_delegate sub ps (spell_args ps s k2) (spell_kw ps s k2).
Proof.
  exact (fun sub ps s k1 k2 N P Hs K1 K2 =>
           spellings_bind_equal sub ps s k1 k2 N (rank_inj_of_positions ps P) Hs K1 K2).
Qed.

(* the positional-fix table is right: the argument slot read by a visible positional parameter
   (its position minus the number of hidden parameters to its left) increases strictly with the
   position, so distinct visible parameters read distinct slots *)
Theorem C12_slots_increase : forall ps p q a b,
  NoDup (all_pos ps) -> In p ps -> ppos p = Some a -> is_hidden (pkind p) = false ->
  ppos q = Some b -> a < b -> rank ps p < rank ps q.
Proof. exact rank_mono. Qed.

(* ---- map_args (the "can this overload be called with this syntax" filter) across spellings -------- *)
(* EXACT: the spelling with split point k is accepted iff every bound parameter is given or defaulted
   and the arguments / defaults of the parameters spelled positionally (slot < k) pass the
   pre-evaluation check.  Arguments spelled by keyword and dropped defaults are NOT checked by map_args. *)
Theorem C12_spellings_map_exact : forall (sub : tag -> tag -> bool) ps (s : assignment) k,
  NoDup (bound_names ps) -> rank_inj ps -> (forall n, s n <> Some ANoValue) ->
  slots_covered ps -> k <= nvis ps ->
  (map_args sub ps (spell_args ps s k) (spell_kw ps s k) <> None <->
   assignable ps s = true /\
   forall p, In p ps -> covered ps k p = true -> check sub (pkind p) (argval s p) = true).
Proof. exact map_args_spell_exact. Qed.

(* under the guard - the argument or default of every visible positional parameter passes the
   pre-evaluation check - all spellings of one assignment are accepted or rejected together *)
Theorem C12_spellings_map_equal_guarded : forall (sub : tag -> tag -> bool) ps (s : assignment) k1 k2,
  NoDup (bound_names ps) -> NoDup (all_pos ps) -> slots_covered ps -> (forall n, s n <> Some ANoValue) ->
  k1 <= nvis ps -> k2 <= nvis ps -> precheck_guard sub ps s ->
  (map_args sub ps (spell_args ps s k1) (spell_kw ps s k1) <> None <->
   map_args sub ps (spell_args ps s k2) (spell_kw ps s k2) <> None).
Proof.
  exact (fun sub ps s k1 k2 N P C Hs K1 K2 G =>
           spellings_map_equal_guarded sub ps s k1 k2 N (rank_inj_of_positions ps P) C Hs K1 K2 G).
Qed.

(* without the guard the only possible difference: a longer positional prefix rejects more *)
Theorem C12_spellings_map_monotone : forall (sub : tag -> tag -> bool) ps (s : assignment) k1 k2,
  NoDup (bound_names ps) -> NoDup (all_pos ps) -> slots_covered ps -> (forall n, s n <> Some ANoValue) ->
  k1 <= k2 -> k2 <= nvis ps ->
  map_args sub ps (spell_args ps s k2) (spell_kw ps s k2) <> None ->
  map_args sub ps (spell_args ps s k1) (spell_kw ps s k1) <> None.
Proof.
  exact (fun sub ps s k1 k2 N P C Hs K12 K2 =>
           spellings_map_monotone sub ps s k1 k2 N (rank_inj_of_positions ps P) C Hs K12 K2).
Qed.

(* the two quirk classes outside the guard (real yaql behaviour: the overload is rejected either way,
   by map_args for the positional spelling and only later by get_delegate for the keyword spelling) *)
Definition qsig (d : option value) : list param :=
  [{| pname := 1%Z; palias := None; ppos := Some 0; pdefault := d; pkind := KTyped 2 false; pstar := SNone |}].
(* (1) a constant argument of the wrong type *)
Theorem C12_spellings_map_equal_refuted_constant :
  let s : assignment := fun _ => Some (AConst (VObj 6)) in
  map_args sub6 (qsig None) (spell_args (qsig None) s 1) (spell_kw (qsig None) s 1) = None /\
  map_args sub6 (qsig None) (spell_args (qsig None) s 0) (spell_kw (qsig None) s 0) <> None /\
  get_delegate sub6 (qsig None) (spell_args (qsig None) s 0) (spell_kw (qsig None) s 0) = None.
Proof. vm_compute. repeat split; discriminate. Qed.
(* (2) an omitted default that its own parameter type does not accept: empty slot vs dropped *)
Theorem C12_spellings_map_equal_refuted_default :
  let s : assignment := fun _ => None in
  let ps := qsig (Some VNull) in
  map_args sub6 ps (spell_args ps s 1) (spell_kw ps s 1) = None /\
  map_args sub6 ps (spell_args ps s 0) (spell_kw ps s 0) <> None /\
  get_delegate sub6 ps (spell_args ps s 0) (spell_kw ps s 0) = None.
Proof. vm_compute. repeat split; discriminate. Qed.

(* (3) NOT a constructed spelling: an empty slot whose parameter is passed by keyword, f(x, , b => y)
   for def f(a, b=None).  get_delegate binds it, map_args rejects it - unless the definition has *args,
   then the empty slot falls to *args and the call is accepted (recorded as an open finding of C12) *)
Definition fab (with_star : bool) : list param :=
  [{| pname := 1%Z; palias := None; ppos := Some 0; pdefault := None; pkind := KTyped 0 true; pstar := SNone |};
   {| pname := 2%Z; palias := None; ppos := Some 1; pdefault := Some VNull; pkind := KTyped 0 true; pstar := SNone |}] ++
  (if with_star then [{| pname := 9%Z; palias := None; ppos := Some 2; pdefault := None; pkind := KTyped 0 true; pstar := SArgs |}] else []).
Theorem C12_empty_slot_with_keyword_refuted :
  let args := [ARaw (VObj 4); ANoValue] in
  let kw := [(2%Z, ARaw (VObj 5))] in
  map_args sub6 (fab false) args kw = None /\
  get_delegate sub6 (fab false) args kw = Some ([BVal (VObj 4); BVal (VObj 5)], []) /\
  map_args sub6 (fab true) args kw <> None /\
  get_delegate sub6 (fab true) args kw = Some ([BVal (VObj 4); BVal (VObj 5)], []).
Proof. vm_compute. repeat split; discriminate. Qed.

(* the theorems above instantiated for EVERY definition of the standard library (their premises are
   finite obligations over the regenerated registry): all split points of one assignment bind alike,
   and under the pre-check guard map_args accepts or rejects them together *)
Theorem C12_registry_spellings : forall f, In f reg_fdefs ->
  forall (s : assignment) k1 k2, (forall n, s n <> Some ANoValue) -> k1 <= nvis (fparams f) -> k2 <= nvis (fparams f) ->
  get_delegate reg_sub (fparams f) (spell_args (fparams f) s k1) (spell_kw (fparams f) s k1) =
  get_delegate reg_sub (fparams f) (spell_args (fparams f) s k2) (spell_kw (fparams f) s k2) /\
  (precheck_guard reg_sub (fparams f) s ->
   (map_args reg_sub (fparams f) (spell_args (fparams f) s k1) (spell_kw (fparams f) s k1) <> None <->
    map_args reg_sub (fparams f) (spell_args (fparams f) s k2) (spell_kw (fparams f) s k2) <> None)).
Proof. exact registry_spellings. Qed.

(* an omitted default and the same value given explicitly (plain or as a constant expression) deliver
   the same thing to an eagerly evaluated typed parameter *)
Theorem C12_explicit_default : forall (sub : tag -> tag -> bool) p d t n,
  pdefault p = Some d -> pkind p = KTyped t n ->
  deliver sub p (Some (Some (ARaw d))) = deliver sub p (Some None) /\
  deliver sub p (Some (Some (AConst d))) = deliver sub p (Some None).
Proof. exact explicit_default. Qed.

(* method-only definitions are never collected for a receiver-less call, function-only ones never
   for a call with a receiver, extension methods for both *)
Theorem C12_kind_exclusive : forall chain f,
  (fismeth f = true -> fisfun f = false -> ~ In f (concat (collect false chain))) /\
  (fisfun f = true -> fismeth f = false -> ~ In f (concat (collect true chain))) /\
  (fisfun f = true -> fismeth f = true ->
   forall r, In f (concat (collect r chain)) <-> exists l, In l (cut_excl chain) /\ In f (lfuns l)).
Proof. exact kind_exclusive. Qed.

(* over the regenerated registry of the standard library: every parameter's alias is the one declared
   on the payload or else the convention applied to its python name; the names by which the visible
   parameters of one definition can be passed are distinct; all names are ASCII *)
Theorem C12_alias_is_convention : forall d, In d registry -> rdef_ok d = true.
Proof. apply forallb_forall. vm_compute. reflexivity. Qed.

(* call(name, args, kwargs) hands over plain values and python keywords where a direct call has
   constant expressions and `name => value` arguments.  (1) binding does not distinguish the two, for
   every definition whose parameters are eagerly evaluated typed (or hidden) ones - lazy parameters
   legitimately see a value instead of an expression; (2) translation of the direct call yields exactly
   the positional/keyword split that call() passes *)
Theorem C12_call_function : forall (sub : tag -> tag -> bool) ps args kw,
  NoDup (bound_names ps) -> forallb eager_kind ps = true ->
  get_delegate sub ps (map to_raw args) (raw_kw kw) = get_delegate sub ps args kw.
Proof. exact call_function_typed. Qed.

Theorem C12_call_translation : forall (vs : list value) (kvs : list (Z * value)),
  split_args (map AConst vs ++ map (fun kv => AMapC (fst kv) (snd kv)) kvs) [] [] =
    (map AConst vs, fold_left (fun acc kv => kw_set (fst kv) (AConst (snd kv)) acc) kvs []) /\
  split_args (map ARaw vs) [] [] = (map ARaw vs, []).
Proof.
  intros vs kvs. split.
  - rewrite split_args_app, split_args_consts. cbn [fst snd app]. apply split_args_maps.
  - apply split_args_plain.
Qed.

(* receiver form of call(): the receiver is the first positional argument of the binding and a plain
   value in both call forms *)
Theorem C12_call_function_receiver : forall (sub : tag -> tag -> bool) ps r args kw,
  NoDup (bound_names ps) -> forallb eager_kind ps = true ->
  get_delegate sub ps (ARaw r :: map to_raw args) (raw_kw kw) = get_delegate sub ps (ARaw r :: args) kw.
Proof. exact call_function_receiver. Qed.

(* lazy Lambda() parameters: call() hands over the VALUE of the argument where the direct call hands
   over its expression; the parameter accepts both and what it delivers forces to the same value (the
   wrapper returns the value / evaluates the expression when the payload calls it).  With
   C12_binding_depends_on_delivery: the two bindings differ only in when lazy arguments are evaluated.
   (partial: stated per parameter, not lifted to the whole binding; YaqlExpression / MappingRule /
   constant-kind parameters reject plain values, so call() legitimately cannot reach them) *)
Theorem C12_call_function_lazy_partial : forall (sub : tag -> tag -> bool) p a,
  pkind p = KLambda -> arg_value a <> None ->
  match deliver sub p (Some (Some (evaluated a))), deliver sub p (Some (Some a)) with
  | Some b1, Some b2 => force b1 = force b2
  | _, _ => False
  end.
Proof. exact lambda_call_equiv. Qed.

(* general form behind the theorems above: the binding is determined by what is delivered to every
   parameter, to *args and to **kwargs *)
Theorem C12_binding_depends_on_delivery : forall (sub : tag -> tag -> bool) ps args1 kw1 args2 kw2,
  NoDup (bound_names ps) ->
  (forall p, In p ps -> binds p = true ->
             deliver sub p (given ps args1 kw1 p) = deliver sub p (given ps args2 kw2 p)) ->
  extras_bind sub ps args1 = extras_bind sub ps args2 ->
  (forall acc, left_bind sub ps (dels (bound_names ps) kw1) acc = left_bind sub ps (dels (bound_names ps) kw2) acc) ->
  get_delegate sub ps args1 kw1 = get_delegate sub ps args2 kw2.
Proof. exact get_delegate_deliver. Qed.

(* ---- non-vacuity: def f(a, engine, b=D(), context, c=None, *rest, k=None, **kw) in a scrambled
   dictionary order; the premises hold and every spelling binds alike -------------------------------- *)
Definition mk (name : nat) (alias : option nat) (pos : option nat) (d : option value) (k : kind) (st : star) : param :=
  {| pname := Z.of_nat name; palias := option_map Z.of_nat alias; ppos := pos; pdefault := d; pkind := k; pstar := st |}.
Definition sig1 : list param :=
  [ mk 3 (Some 30) (Some 4) (Some VNull) (KTyped 0 true) SNone;      (* c (alias 30), declared first *)
    mk 1 None (Some 0) None (KTyped 2 false) SNone;                  (* a : A *)
    mk 7 None (Some 1) None (KHidden HEngine) SNone;
    mk 2 None (Some 2) (Some (VObj 4)) (KTyped 1 false) SNone;       (* b : X = D() *)
    mk 8 None (Some 3) None (KHidden HContext) SNone;
    mk 9 None (Some 5) None (KTyped 0 true) SArgs;
    mk 5 None None (Some VNull) (KTyped 0 true) SNone;               (* k, keyword-only *)
    mk 10 None None None (KTyped 0 true) SKwargs ].

Example sig1_names : NoDup (bound_names sig1).
Proof. repeat constructor; cbn; intuition discriminate. Qed.

Example sig1_positions : NoDup (all_pos sig1).
Proof. repeat constructor; cbn; intuition discriminate. Qed.

Example sig1_nvis : nvis sig1 = 3. Proof. reflexivity. Qed.

Example sig1_slots_covered : slots_covered sig1.
Proof. intros i Hi. change (nvis sig1) with 3 in Hi. do 3 (destruct i as [|i]; [cbn; discriminate|]). exfalso. apply (Nat.nlt_0_r i). do 3 apply Nat.succ_lt_mono in Hi. exact Hi. Qed.

Definition asg1 : assignment := fun n => if Z.eqb n 1%Z then Some (ARaw (VObj 4)) else if Z.eqb n 30%Z then Some (ARaw (VObj 6)) else None.

(* a given, b omitted (default), c given: f(a, , c) = f(a, c => ..) = f(a => .., c => ..); delivered:
   (a, engine, D(), context, c) with k = None *)
Example C12_spellings_example :
  map (fun k => get_delegate sub6 sig1 (spell_args sig1 asg1 k) (spell_kw sig1 asg1 k)) [0; 1; 2; 3]%nat =
  repeat (Some ([BVal (VObj 4); BHid HEngine; BVal (VObj 4); BHid HContext; BVal (VObj 6)], [(5%Z, BVal VNull)])) 4
  /\ map (fun k => (spell_args sig1 asg1 k, map fst (spell_kw sig1 asg1 k))) [0; 1; 2; 3]%nat =
     [ ([], [30; 1]%Z); ([ARaw (VObj 4)], [30%Z]); ([ARaw (VObj 4); ANoValue], [30%Z]);
       ([ARaw (VObj 4); ANoValue; ARaw (VObj 6)], []) ].
Proof. vm_compute. split; reflexivity. Qed.

(* naming convention at work *)
Example C12_naming :
  convert_parameter_name [116; 114; 105; 109; 95; 115; 112; 97; 99; 101; 115]%Z = [116; 114; 105; 109; 83; 112; 97; 99; 101; 115]%Z /\
  convert_parameter_name [100; 105; 99; 116; 95]%Z = [100; 105; 99; 116]%Z /\
  convert_function_name [35; 111; 112; 35; 97; 95; 98]%Z = [35; 111; 112; 35; 97; 66]%Z.
Proof. vm_compute. repeat split. Qed.

Print Assumptions C12_binding_depends_on_assignment.
Print Assumptions C12_spellings_bind_equal.
Print Assumptions C12_slots_increase.
Print Assumptions C12_registry_spellings.
Print Assumptions C12_spellings_map_exact.
Print Assumptions C12_spellings_map_equal_guarded.
Print Assumptions C12_spellings_map_monotone.
Print Assumptions C12_spellings_map_equal_refuted_constant.
Print Assumptions C12_spellings_map_equal_refuted_default.
Print Assumptions C12_empty_slot_with_keyword_refuted.
Print Assumptions C12_explicit_default.
Print Assumptions C12_kind_exclusive.
Print Assumptions C12_alias_is_convention.
Print Assumptions C12_call_function.
Print Assumptions C12_call_translation.
Print Assumptions C12_call_function_receiver.
Print Assumptions C12_call_function_lazy_partial.
Print Assumptions C12_binding_depends_on_delivery.
