(* C18 - Concurrent evaluations do not interfere.
   Proved for the dispatch-granularity model; preemption inside C code, the GIL and CPython object
   internals are outside any executable model (harness/props/c18.py explores them with a
   deterministic scheduler and free-running threads, as supporting evidence). *)
From Coq Require Import List ZArith Bool Arith Permutation.
From YV Require Import Common.Corr Model.Eval Model.Interleave Lemmas.EvalFrame Lemmas.InterleaveFacts Lemmas.EvalThreads Lemmas.EvalWf Lemmas.EvalShift.
Import ListNotations.

(* (i) footprint: an evaluation writes only to contexts it allocated itself - every context that
   existed before any step of it (in particular the shared prepared context and its ancestors) is
   unchanged by evaluation AND by the lambdas that run during result finalisation. *)
Theorem C18_footprint :
  forall f s c e s' r, eval f s c e = (s', r) ->
    forall i, i < length (heap s) -> nth_error (heap s') i = nth_error (heap s) i.
Proof. intros f s c e s' r H i Hi. apply ext_old_context; [exact (eval_ext f s c e s' r H)|exact Hi]. Qed.

(* (ii) any number of evaluations of any statements, each in its own fresh child of a context of one
   shared chain, carried out in ANY order: each returns exactly what it returns alone on the untouched
   chain, and the shared chain is bit-for-bit unchanged afterwards. *)
Theorem C18_any_order :
  forall fuel host js, run_jobs fuel host js = (host, map (solo_job fuel host) js).
Proof. exact run_jobs_spec. Qed.

Corollary C18_order_irrelevant :
  forall fuel host js js', Permutation js js' ->
    Permutation (snd (run_jobs fuel host js)) (snd (run_jobs fuel host js'))
    /\ fst (run_jobs fuel host js) = fst (run_jobs fuel host js').
Proof.
  intros fuel host js js' Hp. rewrite !run_jobs_spec. cbn [fst snd]. split; [|reflexivity].
  now apply Permutation_map.
Qed.

(* (ii') the same WITHOUT discarding what an evaluation leaves behind: contexts allocated by other evaluations (any
   block g, e.g. the contexts of every evaluation that ran or is running on the same shared chain) are invisible to an
   evaluation started in a fresh child of the chain - same log, same error, same value up to the names of its own
   contexts.  (Evaluation is a function of what is reachable from its context.) *)
Theorem C18_unreachable_contexts_irrelevant :
  forall fuel base g c data e,
    hok base -> c < length base -> vok (length base) data ->
    let j := {| j_parent := c; j_data := data; j_expr := e |} in
    snd (run_job fuel (base ++ g) j)
    = (fst (snd (run_job fuel base j)), shres (shv base g) (snd (snd (run_job fuel base j)))).
Proof. exact garbage_irrelevant. Qed.

(* (iii) interleaving at step granularity: threads whose steps read the common read-only region and
   their own private region, and write only their own private region, under EVERY schedule (any
   merge, any number of threads, any length): each thread goes through exactly the private states it
   goes through alone, and the shared region is unchanged. *)
Theorem C18_interleave :
  forall (S P : Type) (tstep : nat -> S -> P -> P) (sched : list nat) (w : iworld S P) (i : nat),
    snd (irun S P tstep w sched) i = iiter S P tstep (count_occ Nat.eq_dec sched i) i (fst w) (snd w i)
    /\ fst (irun S P tstep w sched) = fst w.
Proof. intros. split; [apply irun_private|apply irun_shared]. Qed.

(* non-vacuity: two jobs on a shared chain that binds $x; both orders give the same results *)
Example C18_two_jobs :
  let x := [120%Z] in
  let host := [{| cparent := None; cdata := [(x, VInt 10)]; cfuncs := [] |}] in
  let j1 := {| j_parent := 0; j_data := VInt 1; j_expr := EBin OAdd (EVar []) (EVar x) |} in
  let j2 := {| j_parent := 0; j_data := VInt 2; j_expr := EArrow (ELet [] [(x, EConst (CInt 5))]) (EBin OAdd (EVar []) (EVar x)) |} in
  run_jobs 50 host [j1; j2] = (host, [([], Ok (VInt 11)); ([], Ok (VInt 7))])
  /\ run_jobs 50 host [j2; j1] = (host, [([], Ok (VInt 7)); ([], Ok (VInt 11))]).
Proof. vm_compute. split; reflexivity. Qed.
