(* C07 - Expressions cannot reach host objects except through granted members.
   Property theorems only; every proof is `exact <lemma>`.  The policy model is
   Model/Yaqlized.v (tied to yaql/standard_library/yaqlized.py and yaql/yaqlization.py by
   the correspondence of harness/props/c07.py); the effect table is regenerated from
   /repo on every run (harness/gen_effects.py -> Gen/Effects.v).
   rs / ps are the regex-search and predicate oracles: the theorems hold for every
   interpretation of them, every settings value and every name. *)
From Coq Require Import List ZArith Bool.
From YV Require Import Common.Corr Gen.CharClass Gen.LexFacts Model.Lexer Lemmas.LiteralsTokens.
From YV Require Import Model.Yaqlized Lemmas.YaqlizedPolicy Gen.Effects Lemmas.YaqlizedEffects Model.YaqlizedPaths Lemmas.YaqlizedPaths.
Import ListNotations.
Open Scope Z_scope.

(* a member is reached only on a yaqlized object, with the form's switch on, by a name
   that does not begin with '_' and passes the whitelist (if any) else the blacklist; the
   member is the name itself for the indexer and the remapped name for `.name` / `.name()` *)
Theorem C07_policy_sound : forall rs ps f st n m,
  access rs ps f st n = Reach m ->
  exists s, st = Some s /\ switch f s = true /\
    starts_underscore n = false /\
    (s_white s <> [] -> matches_any rs ps n (s_white s) = true) /\
    (s_white s = [] -> matches_any rs ps n (s_black s) = false) /\
    target f s n = Reach m /\
    m = match f with FIndex => n | _ => rtarget (remap_name n s) end.
Proof.
  exact (fun rs ps f st n m H =>
    match policy_sound rs ps f st n m H with
    | ex_intro _ s (conj H1 (conj H2 (conj (conj A1 (conj A2 A3)) (conj H4 H5)))) =>
        ex_intro _ s (conj H1 (conj H2 (conj A1 (conj A2 (conj A3 (conj H4 H5))))))
    end).
Qed.

(* conversely every allowed name is served (exactly the granted member), and every other
   name is refused with the form's exception class *)
Theorem C07_policy_complete : forall rs ps f s n,
  switch f s = true ->
  (allowed rs ps s n -> access rs ps f (Some s) n = target f s n) /\
  (~ allowed rs ps s n -> access rs ps f (Some s) n = Denied (deny_exn f)).
Proof. exact (fun rs ps f s n Es => conj (policy_complete rs ps f s n Es) (policy_denies rs ps f s n Es)). Qed.

Theorem C07_policy_exact : forall rs ps f st n m,
  access rs ps f st n = Reach m <->
  exists s, st = Some s /\ switch f s = true /\ allowed rs ps s n /\ target f s n = Reach m.
Proof. exact policy_iff. Qed.

(* one gate: with equal switches and plain (string) remappings the three forms accept and
   refuse the same names, namely those admitted by [gate] *)
Theorem C07_same_gate : forall rs ps f1 f2 s n,
  switch f1 s = switch f2 s -> plain_remap s ->
  accepted (access rs ps f1 (Some s) n) = accepted (access rs ps f2 (Some s) n) /\
  (switch f1 s = true -> accepted (access rs ps f1 (Some s) n) = gate rs ps s n).
Proof.
  exact (fun rs ps f1 f2 s n Hs P =>
    conj (same_gate rs ps f1 f2 s n Hs P) (fun E => accepted_is_gate rs ps f1 s n E P)).
Qed.

(* whatever the remapping values are, no form accepts a name the gate refuses *)
Theorem C07_same_gate_never_wider : forall rs ps f st n,
  accepted (access rs ps f st n) = true -> exists s, st = Some s /\ switch f s = true /\ gate rs ps s n = true.
Proof. exact accepted_le_gate. Qed.

(* a remapping target is not reachable under its own name (unless the host whitelisted it) *)
Theorem C07_remap_targets_hidden : forall rs ps a k v f,
  a_blacklist_remapped a = true -> In (k, v) (a_remap a) ->
  matches_any rs ps (rtarget v) (a_white a) = false ->
  accepted (access rs ps f (Some (build_settings a)) (rtarget v)) = false.
Proof. exact remap_targets_hidden. Qed.

(* yaqlize() does not forward blacklist_remapped_attributes: targets are hidden whatever was passed *)
Theorem C07_yaqlize_hides_targets : forall rs ps a s k v f,
  yaqlize None a = Some s -> In (k, v) (a_remap a) ->
  matches_any rs ps (rtarget v) (a_white a) = false ->
  accepted (access rs ps f (Some s) (rtarget v)) = false.
Proof. exact yaqlize_hides_targets. Qed.

Theorem C07_underscore_never : forall rs ps f st n m,
  access rs ps f st n = Reach m -> starts_underscore n = false.
Proof. exact underscore_never. Qed.

(* a member whose own name begins with '_' is only ever reached as the target of an
   explicit attribute_remapping entry for the requested name, never through the indexer *)
Theorem C07_underscore_member_only_by_remap : forall rs ps f st n m,
  access rs ps f st n = Reach m -> starts_underscore m = true ->
  f <> FIndex /\ exists s v, st = Some s /\ In (n, v) (s_remap s) /\ rtarget v = m.
Proof. exact underscore_member_only_by_remap. Qed.

Theorem C07_not_yaqlized_denied : forall rs ps f n,
  access rs ps f None n = Denied ENoMatch /\
  forall s, switch f s = false -> access rs ps f (Some s) n = Denied ENoMatch.
Proof. exact (fun rs ps f n => conj (not_yaqlized_denied rs ps f n) (fun s H => switched_off_denied rs ps f s n H)). Qed.

(* whitelist / blacklist are observed as sets only *)
Theorem C07_lists_are_sets : forall rs ps n l1 l2,
  (forall e, In e l1 <-> In e l2) -> matches_any rs ps n l1 = matches_any rs ps n l2.
Proof. exact matches_any_set. Qed.

(* chains `$obj.a.b()[c]`: every member reached was reached on an object whose settings in
   force (its own, or the automatic ones of a non-builtin result of an auto-yaqlizing parent)
   allow the name used at that step *)
Theorem C07_chain_steps_granted : forall rs ps child path o st,
  in_force o st ->
  Forall (fun step => let '(o', s', m) := step in
            in_force o' (Some s') /\ exists f n, In (f, n) path /\ access rs ps f (Some s') n = Reach m)
         (fst (walk rs ps child o st path)).
Proof. exact walk_steps. Qed.

(* with auto_yaqlize_result off everywhere only explicitly yaqlized objects are touched *)
Theorem C07_chain_explicit_only : forall rs ps child path o st,
  st = h_settings o ->
  (forall o' s', h_settings o' = Some s' -> s_auto s' = false) ->
  Forall (fun step => let '(o', s', m) := step in h_settings o' = Some s') (fst (walk rs ps child o st path)).
Proof. exact walk_explicit. Qed.

Theorem C07_chain_unyaqlized_root : forall rs ps child path o,
  walk rs ps child o None path = ([], match path with [] => None | _ => Some ENoMatch end).
Proof. exact walk_unyaqlized. Qed.

(* FINITE, over the regenerated table: every operation of a registered payload that touches a
   possibly-host value (attribute, getattr family, subscript, call, format, %, f-string,
   operator getters, unknown calls, unreadable code) sits in a Yaqlized(...)-typed overload,
   derives from the gated parameter only, and is the read/write of the yaqlization attribute
   or is dominated by _validate_name on the original name *)
Theorem C07_only_gated_payloads_touch_hosts : forall r, In r effects ->
  e_origin_gated r = true /\ e_in_gated_overload r = true /\
  (op_is_settings (e_op r) = true \/ (op_gateable (e_op r) = true /\ e_validated r = true)).
Proof. exact only_gated_payloads_touch_hosts. Qed.

Theorem C07_ungated_payloads_have_no_rows : forall p, In p payloads -> p_gated p = false -> p_nrows p = 0%nat.
Proof. exact ungated_payloads_have_no_rows. Qed.

(* ---- the hypotheses are satisfiable / the statements are not vacuous ---- *)
Definition ex_rs (r : nat) (n : name) : bool := match n with 109 :: 95 :: _ => true | _ => false end.  (* ^m_ *)
Definition ex_ps (p : nat) (n : name) : bool := false.
Definition foo : name := [102; 111; 111].
Definition bar : name := [98; 97; 114].
Definition alias : name := [97; 108; 105; 97; 115].
Definition uscore_x : name := [95; 120].
Definition ex_args : yargs :=
  {| a_attrs := true; a_methods := true; a_indexer := true; a_auto := false;
     a_white := []; a_black := [EStr bar]; a_remap := [(alias, RStr foo)]; a_blacklist_remapped := true |}.

Example reach_through_remap :
  access ex_rs ex_ps FAttr (Some (build_settings ex_args)) alias = Reach foo /\
  access ex_rs ex_ps FIndex (Some (build_settings ex_args)) alias = Reach alias.
Proof. split; reflexivity. Qed.

Example target_hidden_example :
  access ex_rs ex_ps FAttr (Some (build_settings ex_args)) foo = Denied EAttribute /\
  access ex_rs ex_ps FIndex (Some (build_settings ex_args)) foo = Denied EKey.
Proof. split; reflexivity. Qed.

Example underscore_example :
  access ex_rs ex_ps FMethod (Some (build_settings ex_args)) uscore_x = Denied EAttribute.
Proof. reflexivity. Qed.

(* the premise of C07_remap_targets_hidden matters: a whitelisted target stays reachable *)
Example whitelisted_target_reachable :
  let a := {| a_attrs := true; a_methods := true; a_indexer := true; a_auto := false;
              a_white := [EStr foo]; a_black := []; a_remap := [(alias, RStr foo)]; a_blacklist_remapped := true |} in
  access ex_rs ex_ps FAttr (Some (build_settings a)) foo = Reach foo.
Proof. reflexivity. Qed.

(* an explicit remapping may expose an underscore member under a public name *)
Example remap_to_underscore_member :
  let a := {| a_attrs := true; a_methods := true; a_indexer := true; a_auto := false;
              a_white := []; a_black := []; a_remap := [(alias, RStr uscore_x)]; a_blacklist_remapped := true |} in
  access ex_rs ex_ps FAttr (Some (build_settings a)) alias = Reach uscore_x /\
  access ex_rs ex_ps FAttr (Some (build_settings a)) uscore_x = Denied EAttribute.
Proof. split; reflexivity. Qed.

Example plain_remap_example : plain_remap (build_settings ex_args).
Proof.
  intros k v H. cbn in H. destruct H as [H|[]]. inversion H. eexists; reflexivity.
Qed.

(* the effect table is not empty and contains the three access operations *)
Example effects_cover_the_access_forms :
  has_op Op_getattr = true /\ has_op Op_subscript = true /\ has_op Op_call = true /\ has_op Op_settings_read = true.
Proof. exact table_has_the_access_operations. Qed.

Example three_gated_overloads : Nat.leb 3 (length (filter p_gated payloads)) = true.
Proof. exact gated_payload_count. Qed.

Example yaqlized_overloads_in_table :
  has_gated_fn [35; 105; 110; 100; 101; 120; 101; 114]%Z = true /\                      (* #indexer *)
  has_gated_fn [35; 111; 112; 101; 114; 97; 116; 111; 114; 95; 46]%Z = true.            (* #operator_. *)
Proof. exact yaqlized_overloads_listed. Qed.

(* =====================================================================================
   Keyword names: the lexer (Model/Lexer.v, tied to lexer.py by C03/C16's correspondence) and
   utils.is_keyword (Model/YaqlizedPaths.v, tied by this property's correspondence)
   ===================================================================================== *)

(* no KEYWORD_STRING token of any text has a value starting with '__'; it is always a name
   utils.is_keyword accepts.  For EVERY configuration in which KEYWORD_STRING is not also the
   type of a string rule / a constant keyword ... *)
Theorem C07_keyword_no_dunder : forall cfg, kw_reserved cfg = true -> forall s t w,
  In t (fst (lex cfg s)) -> tk_kind t = K_KEYWORD -> tk_val t = VText w ->
  is_keyword cfg w = true /\ starts_dunder w = false.
Proof. exact keyword_tokens_are_keywords. Qed.

(* ... in particular for the tables regenerated from the current tree *)
Theorem C07_keyword_no_dunder_current : forall names s t w,
  In t (fst (lex (default_cfg names) s)) -> tk_kind t = K_KEYWORD -> tk_val t = VText w ->
  is_keyword (default_cfg names) w = true /\ starts_dunder w = false.
Proof. exact (fun names => keyword_tokens_are_keywords (default_cfg names) (default_cfg_kw_reserved names)). Qed.

(* a text that begins with '__' followed by word characters is a lexical error at position 0 *)
Theorem C07_dunder_word_is_lexical_error : forall names w, forallb (in_ranges w_ranges) w = true ->
  lex (default_cfg names) (95 :: 95 :: w) = ([], EndLexErr 0).
Proof. exact dunder_rejected. Qed.

(* utils.is_keyword is "the keyword rule matches at the start of the text": it rejects every
   '__' name, exactly like the lexer *)
Theorem C07_is_keyword_agrees_with_lexer : forall cfg w,
  (is_keyword cfg w = true <-> m_keyword cfg None w <> MNone) /\
  (starts_dunder w = true -> is_keyword cfg w = false /\ m_keyword cfg None w = MNone).
Proof.
  exact (fun cfg w => conj (is_keyword_m_keyword cfg w)
    (fun H => conj (is_keyword_no_dunder cfg w H) (m_keyword_dunder_none cfg None w H))).
Qed.

(* call(name, args, kwargs): the keyword filter either raises or passes the names unchanged,
   and then none of them starts with '__' *)
Theorem C07_call_kwargs_filter : forall cfg keys keys', filter_kwargs cfg keys = Some keys' ->
  keys' = keys /\ forall k, In k keys -> is_keyword cfg k = true /\ starts_dunder k = false.
Proof. exact filter_kwargs_spec. Qed.

(* the regex the two models were written for is the one in the tree: (?!__)\b[^\W\d]\w*\b *)
Theorem C07_keyword_regex_pinned :
  Lexer.assoc [116; 95; 75; 69; 89; 87; 79; 82; 68; 95; 83; 84; 82; 73; 78; 71] rule_sources =
  Some [40; 63; 33; 95; 95; 41; 92; 98; 91; 94; 92; 87; 92; 100; 93; 92; 119; 42; 92; 98].
Proof. reflexivity. Qed.

(* =====================================================================================
   The paths around the gate: get_property, the system '.', '?.', the other indexers, call()
   ===================================================================================== *)

(* an object the form's Yaqlized type check rejects (not yaqlized at all, or that switch off), and
   that is not fed as a callable VALUE into a lambda parameter through call() (known finding F22,
   below): every path ends in a resolution error, the RuntimeError of the kwargs filter, or overload
   resolution among REGISTERED functions (C07_only_gated_payloads_touch_hosts says what those may
   do); none performs a member access and none calls the object *)
Theorem C07_fallback_never_reaches_host : forall rs ps cfg reg_fn reg_meth st p,
  (forall f, path_form p = Some f -> yaqlized_check f st = false) -> path_lam p = false ->
  (forall m, run_path rs ps cfg reg_fn reg_meth st p <> FReach m) /\
  run_path rs ps cfg reg_fn reg_meth st p <> FInvoke /\
  (run_path rs ps cfg reg_fn reg_meth st p = FDenied ENoMatch \/
   run_path rs ps cfg reg_fn reg_meth st p = FDenied ERuntime \/
   exists fn, run_path rs ps cfg reg_fn reg_meth st p = FDispatch fn /\
              (fn = indexer_name \/ reg_fn fn = true \/ reg_meth fn = true)).
Proof.
  exact (fun rs ps cfg reg_fn reg_meth st p H HL =>
    match fallback_never_reaches_host rs ps cfg reg_fn reg_meth st p H HL with
    | conj A (conj B C) => conj (fun m E => A (ex_intro _ m E)) (conj B C)
    end).
Qed.

Theorem C07_fallback_not_yaqlized : forall rs ps cfg reg_fn reg_meth p m,
  path_lam p = false ->
  run_path rs ps cfg reg_fn reg_meth None p <> FReach m /\ run_path rs ps cfg reg_fn reg_meth None p <> FInvoke.
Proof.
  exact (fun rs ps cfg reg_fn reg_meth p m HL =>
    match fallback_never_reaches_host rs ps cfg reg_fn reg_meth None p (fun f _ => eq_refl) HL with
    | conj A (conj B _) => conj (fun E => A (ex_intro _ m E)) B
    end).
Qed.

(* call() never performs a MEMBER access (getattr / []), whatever the object's settings and
   whatever it is fed to ... *)
Theorem C07_call_never_reaches : forall rs ps cfg reg_fn reg_meth st n kw lam m,
  run_path rs ps cfg reg_fn reg_meth st (PCallFn n kw lam) <> FReach m /\
  run_path rs ps cfg reg_fn reg_meth st (PCallMeth n kw lam) <> FReach m.
Proof.
  exact (fun rs ps cfg reg_fn reg_meth st n kw lam m => conj
    (fun E => call_never_reaches rs ps cfg reg_fn reg_meth st false n kw lam _ eq_refl (ex_intro _ m E))
    (fun E => call_never_reaches rs ps cfg reg_fn reg_meth st true n kw lam _ eq_refl (ex_intro _ m E))).
Qed.

(* ... and it does not call the object either, unless the object is a callable handed as a value to a
   Lambda-typed parameter *)
Theorem C07_call_never_invokes : forall rs ps cfg reg_fn reg_meth st n kw,
  run_path rs ps cfg reg_fn reg_meth st (PCallFn n kw false) <> FInvoke /\
  run_path rs ps cfg reg_fn reg_meth st (PCallMeth n kw false) <> FInvoke.
Proof.
  exact (fun rs ps cfg reg_fn reg_meth st n kw => conj
    (call_never_invokes rs ps cfg reg_fn reg_meth st false n kw _ eq_refl)
    (call_never_invokes rs ps cfg reg_fn reg_meth st true n kw _ eq_refl)).
Qed.

(* the object is only ever called through that one route *)
Theorem C07_invoke_only_via_call_lambda_value : forall rs ps cfg reg_fn reg_meth st p,
  run_path rs ps cfg reg_fn reg_meth st p = FInvoke -> path_lam p = true /\ path_form p = None.
Proof. exact invoke_only_via_call. Qed.

(* KNOWN FINDING F22 (open).  The full-strength statement - no path around the gate ever touches a
   non-yaqlized host object - is FALSE of the code as it is: call(name, [.. $obj ..], kwargs) hands
   $obj as a value to a Lambda-typed parameter and Lambda._call invokes it, in an engine created
   without allow_delegates.  The model is faithful to that. *)
Theorem C07_call_never_touches_refuted :
  exists rs ps cfg reg_fn reg_meth st p,
    (forall f, path_form p = Some f -> yaqlized_check f st = false) /\
    run_path rs ps cfg reg_fn reg_meth st p = FInvoke.
Proof.
  exists ex_rs, ex_ps, (default_cfg (fun _ => None)), (fun _ => true), (fun _ => true), None, (PCallFn foo [] true).
  split; [intros f H; discriminate | vm_compute; reflexivity].
Qed.

(* whatever path reaches a member does so through the gate of C07_policy_sound: '.', '?.' or
   '[]' on an object with settings, by a name that does not begin with '_' *)
Theorem C07_every_reach_is_gated : forall rs ps cfg reg_fn reg_meth st p m,
  run_path rs ps cfg reg_fn reg_meth st p = FReach m ->
  exists f n s, path_form p = Some f /\ st = Some s /\ access rs ps f st n = Reach m /\ starts_underscore n = false.
Proof. exact any_reach_is_granted. Qed.

(* =====================================================================================
   Settings inheritance (instance first, then class) and auto-yaqlization
   ===================================================================================== *)

(* _auto_yaqlize leaves an object that already has settings - its own or its class's - exactly
   as it is, so every access decision afterwards is the host's own policy's decision *)
Theorem C07_auto_yaqlize_keeps_policy : forall rs ps parent o s,
  effective o = Some s ->
  auto_yaqlize parent o = o /\ effective (auto_yaqlize parent o) = Some s /\
  forall f n, access rs ps f (effective (auto_yaqlize parent o)) n = access rs ps f (Some s) n.
Proof.
  exact (fun rs ps parent o s H => conj (proj1 (auto_yaqlize_keeps_policy parent o s H))
    (conj (proj2 (auto_yaqlize_keeps_policy parent o s H)) (fun f n => auto_yaqlize_never_loosens rs ps parent o s f n H))).
Qed.

(* it writes only where there were no settings at all, only under an auto-yaqlizing parent, only on
   the instance (never on the class), and what it writes are the automatic defaults *)
Theorem C07_auto_yaqlize_writes_only_fresh_instances : forall parent o,
  h_class (auto_yaqlize parent o) = h_class o /\
  (auto_yaqlize parent o <> o ->
     effective o = None /\ s_auto parent = true /\ h_fixed o = false /\
     h_inst (auto_yaqlize parent o) = Some auto_default).
Proof.
  exact (fun parent o => conj (auto_yaqlize_class_untouched parent o)
    (fun H => match auto_yaqlize_writes parent o H with
              | conj A (conj B (conj C (conj D _))) => conj A (conj B (conj C D)) end)).
Qed.

(* the chain theorems above (walk / after_auto) are about the effective view of this step *)
Theorem C07_auto_yaqlize_is_after_auto : forall parent o,
  effective (auto_yaqlize parent o) = after_auto parent (view o).
Proof. exact auto_yaqlize_view. Qed.

Example class_policy_survives_auto :
  let o := {| h_inst := None; h_class := Some (build_settings ex_args); h_fixed := false |} in
  effective (auto_yaqlize auto_default o) = Some (build_settings ex_args) /\
  access ex_rs ex_ps FAttr (effective (auto_yaqlize auto_default o)) bar = Denied EAttribute.
Proof. split; reflexivity. Qed.

Example fresh_result_gets_defaults :
  let o := {| h_inst := None; h_class := None; h_fixed := false |} in
  effective (auto_yaqlize auto_default o) = Some auto_default.
Proof. reflexivity. Qed.

Example fallback_example :
  run_path ex_rs ex_ps (default_cfg (fun _ => None)) (fun _ => false) (fun _ => false) None (PProp foo) = FDenied ENoMatch /\
  run_path ex_rs ex_ps (default_cfg (fun _ => None)) (fun _ => true) (fun _ => true) None (PCallMeth foo [[95; 95; 120]] true) = FDenied ERuntime.
Proof. split; vm_compute; reflexivity. Qed.

(* =====================================================================================
   The index form and the object's own indexing protocol
   ===================================================================================== *)

(* on an object that is not subscriptable by a string key `$obj[key]` never reaches anything: the gate
   refuses, or the expression gets the object's own TypeError (never an attribute read) *)
Theorem C07_index_not_subscriptable_never_reads : forall rs ps st n,
  (forall m, index_on rs ps INoStr st n <> Reach m) /\
  (index_on rs ps INoStr st n = Denied EType <-> exists m, access rs ps FIndex st n = Reach m).
Proof. exact index_not_subscriptable. Qed.

Theorem C07_index_subscriptable_is_access : forall rs ps st n,
  index_on rs ps ISubscript st n = access rs ps FIndex st n.
Proof. exact index_subscriptable. Qed.

(* the index form is governed by the indexer switch, the whitelist and the blacklist only: switching the
   attribute / method forms off, or remapping attributes, changes nothing it does *)
Theorem C07_index_ignores_attribute_settings : forall rs ps p s s' n,
  s_indexer s = s_indexer s' -> s_white s = s_white s' -> s_black s = s_black s' ->
  index_on rs ps p (Some s) n = index_on rs ps p (Some s') n.
Proof. exact index_ignores_attribute_settings. Qed.

Example index_on_record_example :
  index_on ex_rs ex_ps INoStr (Some (build_settings ex_args)) alias = Denied EType /\
  index_on ex_rs ex_ps INoStr (Some (build_settings ex_args)) bar = Denied EKey.
Proof. split; reflexivity. Qed.
