(* C07 - Expressions cannot reach host objects except through granted members.
   Property theorems only; every proof is `exact <lemma>`.  The policy model is
   Model/Yaqlized.v (tied to yaql/standard_library/yaqlized.py and yaql/yaqlization.py by
   the correspondence of harness/props/c07.py); the effect table is regenerated from
   /repo on every run (harness/gen_effects.py -> Gen/Effects.v).
   rs / ps are the regex-search and predicate oracles: the theorems hold for every
   interpretation of them, every settings value and every name. *)
From Coq Require Import List ZArith Bool.
From YV Require Import Common.Corr Model.Yaqlized Lemmas.YaqlizedPolicy Gen.Effects Lemmas.YaqlizedEffects.
Import ListNotations.
Open Scope Z_scope.

(* a member is reached only on a yaqlized object, with the form's switch on, by a name
   that does not begin with '_' and passes the whitelist (if any) else the blacklist; the
   member is the name itself for the indexer and the remapped name for `.name` / `.name()` *)
Theorem C07_policy_sound : forall rs ps f st n m,
  access rs ps f st n = Reach m ->
  exists s, st = Some s /\ switch f s = true /\
    starts_underscore n = false /\
    (s_white s <> [] -> matches_any rs ps n (s_white s) = true) /\
    (s_white s = [] -> matches_any rs ps n (s_black s) = false) /\
    target f s n = Reach m /\
    m = match f with FIndex => n | _ => rtarget (remap_name n s) end.
Proof.
  exact (fun rs ps f st n m H =>
    match policy_sound rs ps f st n m H with
    | ex_intro _ s (conj H1 (conj H2 (conj (conj A1 (conj A2 A3)) (conj H4 H5)))) =>
        ex_intro _ s (conj H1 (conj H2 (conj A1 (conj A2 (conj A3 (conj H4 H5))))))
    end).
Qed.

(* conversely every allowed name is served (exactly the granted member), and every other
   name is refused with the form's exception class *)
Theorem C07_policy_complete : forall rs ps f s n,
  switch f s = true ->
  (allowed rs ps s n -> access rs ps f (Some s) n = target f s n) /\
  (~ allowed rs ps s n -> access rs ps f (Some s) n = Denied (deny_exn f)).
Proof. exact (fun rs ps f s n Es => conj (policy_complete rs ps f s n Es) (policy_denies rs ps f s n Es)). Qed.

Theorem C07_policy_exact : forall rs ps f st n m,
  access rs ps f st n = Reach m <->
  exists s, st = Some s /\ switch f s = true /\ allowed rs ps s n /\ target f s n = Reach m.
Proof. exact policy_iff. Qed.

(* one gate: with equal switches and plain (string) remappings the three forms accept and
   refuse the same names, namely those admitted by [gate] *)
Theorem C07_same_gate : forall rs ps f1 f2 s n,
  switch f1 s = switch f2 s -> plain_remap s ->
  accepted (access rs ps f1 (Some s) n) = accepted (access rs ps f2 (Some s) n) /\
  (switch f1 s = true -> accepted (access rs ps f1 (Some s) n) = gate rs ps s n).
Proof.
  exact (fun rs ps f1 f2 s n Hs P =>
    conj (same_gate rs ps f1 f2 s n Hs P) (fun E => accepted_is_gate rs ps f1 s n E P)).
Qed.

(* whatever the remapping values are, no form accepts a name the gate refuses *)
Theorem C07_same_gate_never_wider : forall rs ps f st n,
  accepted (access rs ps f st n) = true -> exists s, st = Some s /\ switch f s = true /\ gate rs ps s n = true.
Proof. exact accepted_le_gate. Qed.

(* a remapping target is not reachable under its own name (unless the host whitelisted it) *)
Theorem C07_remap_targets_hidden : forall rs ps a k v f,
  a_blacklist_remapped a = true -> In (k, v) (a_remap a) ->
  matches_any rs ps (rtarget v) (a_white a) = false ->
  accepted (access rs ps f (Some (build_settings a)) (rtarget v)) = false.
Proof. exact remap_targets_hidden. Qed.

(* yaqlize() does not forward blacklist_remapped_attributes: targets are hidden whatever was passed *)
Theorem C07_yaqlize_hides_targets : forall rs ps a s k v f,
  yaqlize None a = Some s -> In (k, v) (a_remap a) ->
  matches_any rs ps (rtarget v) (a_white a) = false ->
  accepted (access rs ps f (Some s) (rtarget v)) = false.
Proof. exact yaqlize_hides_targets. Qed.

Theorem C07_underscore_never : forall rs ps f st n m,
  access rs ps f st n = Reach m -> starts_underscore n = false.
Proof. exact underscore_never. Qed.

(* a member whose own name begins with '_' is only ever reached as the target of an
   explicit attribute_remapping entry for the requested name, never through the indexer *)
Theorem C07_underscore_member_only_by_remap : forall rs ps f st n m,
  access rs ps f st n = Reach m -> starts_underscore m = true ->
  f <> FIndex /\ exists s v, st = Some s /\ In (n, v) (s_remap s) /\ rtarget v = m.
Proof. exact underscore_member_only_by_remap. Qed.

Theorem C07_not_yaqlized_denied : forall rs ps f n,
  access rs ps f None n = Denied ENoMatch /\
  forall s, switch f s = false -> access rs ps f (Some s) n = Denied ENoMatch.
Proof. exact (fun rs ps f n => conj (not_yaqlized_denied rs ps f n) (fun s H => switched_off_denied rs ps f s n H)). Qed.

(* whitelist / blacklist are observed as sets only *)
Theorem C07_lists_are_sets : forall rs ps n l1 l2,
  (forall e, In e l1 <-> In e l2) -> matches_any rs ps n l1 = matches_any rs ps n l2.
Proof. exact matches_any_set. Qed.

(* chains `$obj.a.b()[c]`: every member reached was reached on an object whose settings in
   force (its own, or the automatic ones of a non-builtin result of an auto-yaqlizing parent)
   allow the name used at that step *)
Theorem C07_chain_steps_granted : forall rs ps child path o st,
  in_force o st ->
  Forall (fun step => let '(o', s', m) := step in
            in_force o' (Some s') /\ exists f n, In (f, n) path /\ access rs ps f (Some s') n = Reach m)
         (fst (walk rs ps child o st path)).
Proof. exact walk_steps. Qed.

(* with auto_yaqlize_result off everywhere only explicitly yaqlized objects are touched *)
Theorem C07_chain_explicit_only : forall rs ps child path o st,
  st = h_settings o ->
  (forall o' s', h_settings o' = Some s' -> s_auto s' = false) ->
  Forall (fun step => let '(o', s', m) := step in h_settings o' = Some s') (fst (walk rs ps child o st path)).
Proof. exact walk_explicit. Qed.

Theorem C07_chain_unyaqlized_root : forall rs ps child path o,
  walk rs ps child o None path = ([], match path with [] => None | _ => Some ENoMatch end).
Proof. exact walk_unyaqlized. Qed.

(* FINITE, over the regenerated table: every operation of a registered payload that touches a
   possibly-host value (attribute, getattr family, subscript, call, format, %, f-string,
   operator getters, unknown calls, unreadable code) sits in a Yaqlized(...)-typed overload,
   derives from the gated parameter only, and is the read/write of the yaqlization attribute
   or is dominated by _validate_name on the original name *)
Theorem C07_only_gated_payloads_touch_hosts : forall r, In r effects ->
  e_origin_gated r = true /\ e_in_gated_overload r = true /\
  (op_is_settings (e_op r) = true \/ (op_gateable (e_op r) = true /\ e_validated r = true)).
Proof. exact only_gated_payloads_touch_hosts. Qed.

Theorem C07_ungated_payloads_have_no_rows : forall p, In p payloads -> p_gated p = false -> p_nrows p = 0%nat.
Proof. exact ungated_payloads_have_no_rows. Qed.

(* ---- the hypotheses are satisfiable / the statements are not vacuous ---- *)
Definition ex_rs (r : nat) (n : name) : bool := match n with 109 :: 95 :: _ => true | _ => false end.  (* ^m_ *)
Definition ex_ps (p : nat) (n : name) : bool := false.
Definition foo : name := [102; 111; 111].
Definition bar : name := [98; 97; 114].
Definition alias : name := [97; 108; 105; 97; 115].
Definition uscore_x : name := [95; 120].
Definition ex_args : yargs :=
  {| a_attrs := true; a_methods := true; a_indexer := true; a_auto := false;
     a_white := []; a_black := [EStr bar]; a_remap := [(alias, RStr foo)]; a_blacklist_remapped := true |}.

Example reach_through_remap :
  access ex_rs ex_ps FAttr (Some (build_settings ex_args)) alias = Reach foo /\
  access ex_rs ex_ps FIndex (Some (build_settings ex_args)) alias = Reach alias.
Proof. split; reflexivity. Qed.

Example target_hidden_example :
  access ex_rs ex_ps FAttr (Some (build_settings ex_args)) foo = Denied EAttribute /\
  access ex_rs ex_ps FIndex (Some (build_settings ex_args)) foo = Denied EKey.
Proof. split; reflexivity. Qed.

Example underscore_example :
  access ex_rs ex_ps FMethod (Some (build_settings ex_args)) uscore_x = Denied EAttribute.
Proof. reflexivity. Qed.

(* the premise of C07_remap_targets_hidden matters: a whitelisted target stays reachable *)
Example whitelisted_target_reachable :
  let a := {| a_attrs := true; a_methods := true; a_indexer := true; a_auto := false;
              a_white := [EStr foo]; a_black := []; a_remap := [(alias, RStr foo)]; a_blacklist_remapped := true |} in
  access ex_rs ex_ps FAttr (Some (build_settings a)) foo = Reach foo.
Proof. reflexivity. Qed.

(* an explicit remapping may expose an underscore member under a public name *)
Example remap_to_underscore_member :
  let a := {| a_attrs := true; a_methods := true; a_indexer := true; a_auto := false;
              a_white := []; a_black := []; a_remap := [(alias, RStr uscore_x)]; a_blacklist_remapped := true |} in
  access ex_rs ex_ps FAttr (Some (build_settings a)) alias = Reach uscore_x /\
  access ex_rs ex_ps FAttr (Some (build_settings a)) uscore_x = Denied EAttribute.
Proof. split; reflexivity. Qed.

Example plain_remap_example : plain_remap (build_settings ex_args).
Proof.
  intros k v H. cbn in H. destruct H as [H|[]]. inversion H. eexists; reflexivity.
Qed.

(* the effect table is not empty and contains the three access operations *)
Example effects_cover_the_access_forms :
  has_op Op_getattr = true /\ has_op Op_subscript = true /\ has_op Op_call = true /\ has_op Op_settings_read = true.
Proof. exact table_has_the_access_operations. Qed.

Example three_gated_overloads : Nat.leb 3 (length (filter p_gated payloads)) = true.
Proof. exact gated_payload_count. Qed.

Example yaqlized_overloads_in_table :
  has_gated_fn [35; 105; 110; 100; 101; 120; 101; 114]%Z = true /\                      (* #indexer *)
  has_gated_fn [35; 111; 112; 101; 114; 97; 116; 111; 114; 95; 46]%Z = true.            (* #operator_. *)
Proof. exact yaqlized_overloads_listed. Qed.
