(* C13 - Collection and query functions agree with their reference model.
   Property theorems only; every proof is `exact <lemma>`.  The reference model is
   Model/Queries.v (list semantics) and Model/Streams.v (the lazy algebra the yaql
   functions actually build); both are tied to queries.py / collections.py by the
   correspondence of harness/props/c13.py. *)
From Coq Require Import List ZArith Bool Arith Permutation Sorted.
From YV Require Import Common.Corr Model.Queries Model.Streams
  Lemmas.QueriesLaws Lemmas.QueriesOrder Lemmas.QueriesGroup Lemmas.QueriesInsert
  Lemmas.QueriesDictSet Lemmas.StreamsSteps Lemmas.StreamsPipeline Lemmas.StreamsMore Lemmas.StreamsGeneric Lemmas.StreamsAll Lemmas.StreamsMore2 Lemmas.QueriesStrings Lemmas.QueriesDictEq Lemmas.StreamsKinds.
Import ListNotations.

(* orderBy / thenBy with any ascending/descending flags: the output is a
   permutation of the input, sorted for the lexicographic key preorder, and stable
   (every class of key-equivalent elements keeps its input order) ... *)
Theorem C13_order_by : forall (keys : list okey) (l : list val),
  Permutation (order_by_l keys l) l /\
  StronglySorted (fun a b => keys_lt keys b a = false) (order_by_l keys l) /\
  (forall z, filter (keys_equiv keys z) (order_by_l keys l) = filter (keys_equiv keys z) l).
Proof. exact order_by_spec. Qed.

(* ... hence equal to ANY stable sort of the input, CPython's `sorted` in particular *)
Theorem C13_order_by_unique : forall (keys : list okey) (l l' : list val),
  Permutation l' l ->
  StronglySorted (fun a b => keys_lt keys b a = false) l' ->
  (forall z, filter (keys_equiv keys z) l' = filter (keys_equiv keys z) l) ->
  l' = order_by_l keys l.
Proof. exact order_by_unique. Qed.

(* the comparator is lexicographic: a deciding key decides alone and in its own
   direction (descending flag honoured), a tie defers to the next key *)
Theorem C13_comparator : forall f asc r a b,
  (val_ltb (apply f a) (apply f b) = true -> compare_keys ((f, asc) :: r) a b = if asc then (-1)%Z else 1%Z) /\
  (val_ltb (apply f a) (apply f b) = false -> val_gtb (apply f a) (apply f b) = false ->
   compare_keys ((f, asc) :: r) a b = compare_keys r a b).
Proof. exact (fun f asc r a b => conj (compare_keys_first f asc r a b) (compare_keys_tie f asc r a b)). Qed.

(* groupBy: keys in first-occurrence order and pairwise different; every group is
   the filter of its key in input order (through the value selector); the groups'
   members together are a rearrangement of the input *)
Theorem C13_group_by : forall (k : lam) (value : val -> val) (l : list val),
  let g := group_by_l val_eqb (apply k) value l in
  map fst g = distinct_l val_eqb (fun x => x) (map (apply k) l) /\
  ForallOrdPairs (fun a b => val_eqb b a = false) (map fst g) /\
  (forall kk vs, In (kk, vs) g -> vs = map value (filter (fun x => val_eqb (apply k x) kk) l)) /\
  Permutation (concat (map (fun kk => filter (fun x => val_eqb (apply k x) kk) l) (map fst g))) l.
Proof.
  exact (fun k value l => group_by_props val_eqb (apply k) value val_eqb_refl
           (fun a b => val_eqb_sym a b) (fun a b c => val_eqb_trans a b c) l).
Qed.

(* Python equality on the modelled values (True == 1, tuples never equal lists, dicts - frozen or not - equal as
   finite maps whatever their insertion order) is an equivalence on ALL values: what distinct / groupBy / indexOf /
   sets / dict keys rely on, and what every hash must be compatible with *)
Theorem C13_equality_is_equivalence :
  (forall a, val_eqb a a = true) /\ (forall a b, val_eqb a b = val_eqb b a) /\
  (forall a b c, val_eqb a b = true -> val_eqb b c = true -> val_eqb a c = true).
Proof. exact (conj val_eqb_refl (conj (fun a b => val_eqb_sym a b) (fun a b c => val_eqb_trans a b c))). Qed.

(* dict equality does not see insertion order: any rearrangement of the items of a dict with (distinct) scalar keys is
   an equal value - so two such dicts are ONE element for distinct, ONE key for groupBy / toDict, ONE member of a set *)
Theorem C13_dict_equality_order_free : forall m m' d d', Permutation d d' ->
  Forall (fun kv => is_scalar (fst kv) = true) d ->
  ForallOrdPairs (fun p q => val_seqb (fst p) (fst q) = false) d ->
  val_eqb (VDict m d) (VDict m' d') = true.
Proof. exact dict_eqb_perm. Qed.

Example C13_example_dict_order :
  let d1 := VDict false [(VStr [97%Z], VInt 1); (VStr [98%Z], VInt 2)] in
  let d2 := VDict true [(VStr [98%Z], VInt 2); (VStr [97%Z], VInt 1)] in
  val_eqb d1 d2 = true /\ distinct_l val_eqb (fun x => x) [d1; d2] = [d1] /\ length (set_of_list [d1; d2]) = 1%nat /\
  length (group_by_l val_eqb (fun x => x) (fun x => x) [d1; d2; d1]) = 1%nat.
Proof. vm_compute. repeat split. Qed.

(* ---- container kinds -------------------------------------------------------------------------------------- *)
(* every function of the two modules that BUILDS a container (insert on a list, splitAt, toList, toSet, toDict,
   dict(..), dict.set / delete / deleteAll / + / mergeWith, keys/values/items().toList(), list +, list(..), the set
   algebra, unpack) hands on a yaql list (tuple), a FrozenDict, a frozenset or a lazy sequence - never a Python list
   or dict (the raw-kind census of the correspondence ties this to the code under yaql.convertOutputData = false) *)
Theorem C13_collection_kinds : forall fuel s sg r s' r',
  builds sg = true -> apply_stage fuel s sg r = (s', Ok r') -> top_frozen r' = true.
Proof. exact builders_frozen. Qed.

(* ... and frozen at every depth when built from frozen material, e.g. *)
Theorem C13_collection_kinds_deep : forall l pos v n, forallb frozen l = true -> frozen v = true ->
  frozen (VList false (list_insert_l l pos v)) = true /\
  frozen (VList false [VList false (fst (split_at_l l n)); VList false (snd (split_at_l l n))]) = true.
Proof. exact (fun l pos v n Hl Hv => conj (list_insert_frozen l pos v Hl Hv) (split_at_frozen l n Hl)). Qed.

(* ---- the algebraic laws ------------------------------------------------------ *)
Theorem C13_where_where : forall (p q : val -> bool) l,
  where_l p (where_l q l) = where_l (fun x => q x && p x) l.
Proof. exact where_where. Qed.

Theorem C13_select_select : forall (f g : val -> val) l,
  select_l f (select_l g l) = select_l (fun x => f (g x)) l.
Proof. exact (fun f g l => select_select f g l). Qed.

Theorem C13_take_skip : forall n (l : list val), take_l n l ++ skip_l n l = l /\ length (take_l n l) = Nat.min n (length l).
Proof. exact (fun n l => conj (take_skip n l) (take_length n l)). Qed.

(* insert: the tuple overload for EVERY position, the iterator overload for the non-negative ones *)
Theorem C13_insert_length : forall (l : list val) pos v,
  length (list_insert_l l pos v) = S (length l) /\
  ((0 <= pos)%Z -> length (iter_insert_l l pos v) = S (length l)).
Proof.
  exact (fun l pos v => conj (list_insert_length l pos v)
    (fun H => eq_trans (iter_insert_length l pos v)
       (eq_trans (f_equal (fun b : bool => (length l + (if b then 1 else 0))%nat) (proj2 (Z.leb_le 0 pos) H))
                 (Nat.add_1_r (length l))))).
Qed.

Theorem C13_delete_insert : forall (l : list val) i v, (0 <= i <= Z.of_nat (length l))%Z ->
  delete_l (list_insert_l l i v) i 1 = l /\ delete_l (iter_insert_l l i v) i 1 = l.
Proof. exact (fun l i v H => conj (delete_list_insert l i v H) (delete_iter_insert l i v H)). Qed.

Theorem C13_insert_agree : forall (l : list val) pos v, (0 <= pos)%Z -> iter_insert_l l pos v = list_insert_l l pos v.
Proof. exact insert_agree_nonneg. Qed.

(* F18 (open known finding): the full statement "both overloads of insert agree for
   every position" is FALSE of the code: for a negative position the generator never
   reaches `i == position` nor `position > i` and drops the value, while list.insert
   counts from the end *)
Theorem C13_insert_negative_refuted :
  (forall (l : list val) pos v, (pos < 0)%Z -> iter_insert_l l pos v = l) /\
  exists (l : list val) pos v, iter_insert_l l pos v <> list_insert_l l pos v.
Proof.
  exact (conj (fun l pos v H => iter_insert_negative l pos v H)
    (ex_intro _ [VInt 1] (ex_intro _ (-1)%Z (ex_intro _ (VInt 9)
       (fun H : iter_insert_l [VInt 1] (-1) (VInt 9) = list_insert_l [VInt 1] (-1) (VInt 9) =>
          eq_ind (length (iter_insert_l [VInt 1] (-1) (VInt 9))) (fun n => match n with 1 => True | _ => False end) I
                 _ (f_equal (@length val) H)))))).
Qed.

Theorem C13_reverse : forall l : list val, rev (rev l) = l.
Proof. exact (@rev_involutive val). Qed.

Theorem C13_distinct : forall (k : val -> val) l,
  distinct_l val_eqb k (distinct_l val_eqb k l) = distinct_l val_eqb k l /\
  subseq (distinct_l val_eqb k l) l /\
  ForallOrdPairs (fun a b => val_eqb (k b) (k a) = false) (distinct_l val_eqb k l).
Proof.
  exact (fun k l => conj (distinct_idempotent val_eqb k l) (conj (distinct_subseq val_eqb k l)
           (proj1 (distinct_from_fresh val_eqb k [] l)))).
Qed.

Theorem C13_zip_length : forall (a b : list val), length (zip_l a b) = Nat.min (length a) (length b).
Proof. exact (fun a b => zip_length a b). Qed.

Theorem C13_split_at : forall (l : list val) idx, fst (split_at_l l idx) ++ snd (split_at_l l idx) = l.
Proof. exact split_at_concat. Qed.

Theorem C13_slice : forall n (l : list val), (0 < n)%nat ->
  concat (chunks_l n l) = l /\
  Forall (fun c => (1 <= length c <= n)%nat) (chunks_l n l) /\
  Forall (fun c => length c = n) (removelast (chunks_l n l)).
Proof. exact (fun n l H => conj (chunks_concat n l H) (chunks_lengths n l H)). Qed.

Theorem C13_accumulate_aggregate : forall (f : val -> val -> val) l d seed,
  option_map (fun a => last a d) (accumulate_l f l) = aggregate_l f l /\
  last (accumulate_seed f seed l) seed = aggregate_seed f seed l.
Proof. exact (fun f l d seed => conj (accumulate_last f l d) (accumulate_seed_last f seed l)). Qed.

Theorem C13_index_of : forall (p : val -> bool) l,
  ((index_from 0 p l = (-1)%Z /\ forallb (fun x => negb (p x)) l = true) \/
   (exists k x, index_from 0 p l = Z.of_nat k /\ nth_error l k = Some x /\ p x = true /\
                forallb (fun y => negb (p y)) (firstn k l) = true)) /\
  ((last_index_from 0 p (-1) l = (-1)%Z /\ forallb (fun x => negb (p x)) l = true) \/
   (exists k x, last_index_from 0 p (-1) l = (0 + Z.of_nat k)%Z /\ nth_error l k = Some x /\ p x = true /\
                forallb (fun y => negb (p y)) (skipn (S k) l) = true)).
Proof. exact (fun p l => conj (index_of_spec p l) (last_index_from_spec p l 0 (-1))). Qed.

(* ---- strings and dictionaries as elements ----------------------------------------------------- *)
(* orderBy on string keys: strings are ordered by code points (C13_order_by holds for them as for every key:
   the comparator is a strict weak order on the whole value universe); null < numbers < strings *)
Theorem C13_string_keys : forall a b z,
  val_ltb (VStr a) (VStr b) = (match lcmp a b with Lt => true | _ => false end) /\
  val_gtb (VStr a) (VStr b) = (match lcmp a b with Gt => true | _ => false end) /\
  lcmp a a = Eq /\ (lcmp a b = Eq -> a = b) /\ lcmp b a = CompOpp (lcmp a b) /\
  (forall c, lcmp a b = Lt -> lcmp b c = Lt -> lcmp a c = Lt) /\
  val_ltb VNull (VInt z) = true /\ val_ltb (VInt z) (VStr a) = true.
Proof.
  exact (fun a b z => conj (proj1 (string_order a b)) (conj (proj2 (string_order a b)) (conj (lcmp_refl a) (conj (lcmp_eq a b)
           (conj (lcmp_antisym a b) (conj (fun c => lcmp_trans a b c) (conj (proj1 (null_int_string_order z a)) (proj1 (proj2 (null_int_string_order z a)))))))))).
Qed.

(* mergeWith on nested dictionaries (any mergers, any maxLevels): whenever it succeeds, the result has the keys of
   the left dictionary in their order, followed by the keys only the right one has *)
Theorem C13_merge_with_keys : forall fuel d1 d2 lm im ml r, merge_dicts fuel d1 d2 lm im ml = Ok r ->
  map fst r = map fst d1 ++ map fst (filter (fun kv => match dict_get_l (fst kv) (firstn (length d1) r) with Some _ => false | None => true end) d2).
Proof. exact merge_dicts_keys. Qed.

(* ---- persistent dict updates and set algebra ------------------------------------------ *)
(* dict.set: the written key reads back the new value, every other key is untouched, a key
   already present keeps its place and a new one goes last *)
Theorem C13_dict_set : forall k v d,
  dict_get_l k (dict_set_l k v d) = Some v /\
  (forall k2, val_eqb k2 k = false -> dict_get_l k2 (dict_set_l k v d) = dict_get_l k2 d) /\
  map fst (dict_set_l k v d) = match dict_get_l k d with Some _ => map fst d | None => map fst d ++ [k] end.
Proof. exact (fun k v d => conj (dict_get_set_same k v d) (conj (fun k2 H => dict_get_set_other k v d k2 H) (dict_set_keys k v d))). Qed.

Theorem C13_dict_delete : forall k d,
  (ForallOrdPairs (fun a b => val_eqb (fst b) (fst a) = false) d -> dict_get_l k (dict_del_l k d) = None) /\
  (forall k2, val_eqb k2 k = false -> dict_get_l k2 (dict_del_l k d) = dict_get_l k2 d).
Proof. exact (fun k d => conj (dict_get_del_same k d) (fun k2 H => dict_get_del_other k d k2 H)). Qed.

(* d + e, d.set(e), mergeWith on scalar values: the right operand wins, the rest of d is untouched;
   toDict / dict(items): the last item written for a key gives its value; keys/values/items agree *)
Theorem C13_dict_update : forall d e k,
  dict_get_l k (dict_update_l d e) =
  match dict_get_l k (dict_of_items e) with Some v => Some v | None => dict_get_l k d end.
Proof. exact dict_update_get. Qed.

Theorem C13_dict_construction : forall items k v (d : kvs),
  dict_get_l k (dict_of_items (items ++ [(k, v)])) = Some v /\
  combine (map fst d) (map snd d) = d /\ length (map fst d) = length (map snd d).
Proof. exact (fun items k v d => conj (dict_of_items_last items k v) (dict_views_consistent d)). Qed.

(* union / intersect / difference / symmetricDifference are the list-set operations, and keep
   their results duplicate-free *)
Theorem C13_set_algebra : forall a b x,
  vmem x (set_union a b) = vmem x a || vmem x b /\
  vmem x (set_inter a b) = vmem x a && vmem x b /\
  vmem x (set_diff a b) = vmem x a && negb (vmem x b) /\
  vmem x (set_symdiff a b) = xorb (vmem x a) (vmem x b).
Proof. exact set_algebra_spec. Qed.

Theorem C13_set_no_duplicates : forall a b, no_dups a -> no_dups b ->
  no_dups (set_union a b) /\ no_dups (set_inter a b) /\ no_dups (set_diff a b) /\ no_dups (set_of_list a).
Proof. exact set_results_nodup. Qed.

(* ---- streaming == list semantics ------------------------------------------------ *)
(* [Denotes i l]: successive [next]s on i yield exactly l and then Done, from every state.
   Every pipeline of select/where/skip/take/takeWhile/skipWhile/enumerate/memorize/append/
   accumulate(seed)/delete/replace(Many)/insert/selectMany over a finite source: consuming the
   lazy object once yields exactly the list semantics of Model/Queries.v *)
Theorem C13_stream_is_list : forall (ops : list yop) (l : list val) (s : st),
  exists fuel s', drain fuel s (ybuild_all ops (OfList l)) = (s', Ok (ylist_all ops l)).
Proof. exact (fun ops l s => denotes_drain _ _ (ypipeline_denotes ops _ _ (oflist_denotes l)) s). Qed.

(* the same, compositionally, for any inner iterators (not only list sources) *)
Theorem C13_stream_is_list_compositional : forall (ops : list yop) i l, Denotes i l -> Denotes (ybuild_all ops i) (ylist_all ops l).
Proof. exact ypipeline_denotes. Qed.

Theorem C13_stream_is_list_append : forall i j l1 l2, Denotes i l1 -> Denotes j l2 -> Denotes (Chain i j) (l1 ++ l2).
Proof. exact denotes_chain. Qed.

(* distinct streams as its list semantics whenever every key is hashable (otherwise TypeError on both sides) *)
Theorem C13_stream_is_list_distinct : forall f l seen i, Denotes i l -> forallb (fun x => hashable (dkey f x)) l = true ->
  Denotes (Distinct f seen i) (distinct_from val_eqb (dkey f) seen l).
Proof. exact denotes_distinct. Qed.

(* accumulate without a seed on a non-empty source (on an empty one: TypeError, lazily) *)
Theorem C13_stream_is_list_accumulate : forall f x r i, Denotes i (x :: r) ->
  Denotes (AccStart f None i) (accumulate_seed (apply2 f) x r) /\
  (forall j dp dt, EndsD j dp dt -> FailsD (AccStart f None j) EType dp dt).
Proof. exact (fun f x r i D => conj (denotes_accumulate_noseed f x r i D) (fun j dp dt E => accstart_empty f j dp dt E)). Qed.

(* the whole operator list: the above plus zip (with literal collections), join, slice and distinct; [zok_all] is the
   list-level condition that every distinct key met on the way is hashable (C13_stream_distinct_total covers the rest) *)
Theorem C13_stream_is_list_all : forall (ops : list zop) (l : list val) (s : st), zok_all ops l = true ->
  exists fuel s', drain fuel s (zbuild_all ops (OfList l)) = (s', Ok (zlist_all ops l)).
Proof. exact (fun ops l s K => denotes_drain _ _ (zpipeline_denotes ops _ _ K (oflist_denotes l)) s). Qed.

Theorem C13_stream_is_list_all_compositional : forall (ops : list zop) i l, zok_all ops l = true -> Denotes i l ->
  Denotes (zbuild_all ops i) (zlist_all ops l).
Proof. exact zpipeline_denotes. Qed.

(* distinct without any premise: the list semantics when every key is hashable, otherwise exactly the results that
   precede the first unhashable key, and then TypeError *)
Theorem C13_stream_distinct_total : forall f l seen i, Denotes i l ->
  if forallb (fun x => hashable (dkey f x)) l
  then Denotes (Distinct f seen i) (distinct_from val_eqb (dkey f) seen l)
  else DenotesF (Distinct f seen i) (distinct_from val_eqb (dkey f) seen (hashable_prefix f l)) EType.
Proof. exact denotes_distinct_total. Qed.

(* zip with one collection is positional pairing up to the shorter length; join is the filtered product in outer-major order *)
Theorem C13_stream_zip_join : forall l2 l p f,
  zip_list [l2] l = map (fun q => VList false [fst q; snd q]) (zip_l l l2) /\
  join_list p f l2 l = flat_map (fun x => map (apply2 f x) (filter (fun y => truthy (apply2 p x y)) l2)) l.
Proof. exact (fun l2 l p f => conj (zip_list_one l2 l) eq_refl). Qed.

(* the eager consumers: splitAt gives the two Python slices, groupBy the grouping of C13_group_by (TypeError on an unhashable key) *)
Theorem C13_consumers : forall i l, Denotes i l ->
  (forall n s, exists fuel s', apply_stage fuel s (SSplitAt n) (RIter i) =
     (s', Ok (RVal (VList false [VList false (fst (split_at_l l n)); VList false (snd (split_at_l l n))])))) /\
  (forall k v s, exists fuel s', apply_stage fuel s (SGroupBy k v) (RIter i) =
     (s', if forallb (fun x => hashable (apply k x)) l
          then Ok (RIter (OfList (map (fun g => pair_val (fst g) (VList false (snd g)))
                                      (group_by_l val_eqb (apply k) (fun x => match v with Some g => apply g x | None => x end) l))))
          else Err EType)).
Proof. exact (fun i l D => conj (fun n s => consumer_split_at i l n D s) (fun k v s => consumer_group_by i l k v D s)). Qed.

(* groupBy's aggregator protocol (the state machine [gagg_run] of Model/Streams.v, compared with GroupAggregator group
   by group by the correspondence):
   - an aggregator that accepts every value list gives [key, aggregator(values)] per group, fallback allowed or not;
   - a successful call on a group that does NOT have exactly two values switches the old-style fallback off for good
     (only a two-element value list can be mistaken for [key, values]);
   - with the fallback off, a failing group raises its own error after the entries of the earlier groups;
   - with a failure on record, the only error that can still surface is that first failure. *)
Theorem C13_group_by_aggregator : forall a,
  (forall gs allow, Forall (g_succeeds a) gs -> gagg_run a gs None allow = Some (map (g_entry a) gs, None)) /\
  (forall k vs rest allow r, gapply a (VList false vs) = Ok r -> length vs <> 2 ->
     gagg_run a ((k, vs) :: rest) None allow = gagg_run a ((k, vs) :: rest) None false) /\
  (forall gs1 k vs rest f, Forall (g_succeeds a) gs1 -> gapply a (VList false vs) = Err f ->
     gagg_run a (gs1 ++ (k, vs) :: rest) None false = Some (map (g_entry a) gs1, Some f)) /\
  (forall f gs allow o e, gagg_run a gs (Some f) allow = Some (o, Some e) -> e = f).
Proof. exact (fun a => conj (gagg_new_style a) (conj (gagg_flag_cleared a) (conj (gagg_no_fallback a) (gagg_first_failure a)))). Qed.

(* [[1,a],[1,b],[1,c],[2,x]].groupBy($[0], $[1], [$[0], $[1]]): the first group (three values) is served in the new style
   and ends the fallback, the second has no $[1]: IndexError.  With two values in the first group the old style stays
   possible and the second group is served by it. *)
Example C13_example_aggregator :
  let s x := VStr [Z.of_nat x] in
  gagg_run GIdxPair [(VInt 1, [s 97; s 98; s 99]); (VInt 2, [s 120])] None true
    = Some ([VList false [VInt 1; VList false [s 97; s 98]]], Some EIndex) /\
  gagg_run GIdxPair [(VInt 1, [s 97; s 98]); (VInt 2, [s 120])] None true
    = Some ([VList false [VInt 1; VList false [s 97; s 98]]; VList false [VInt 2; VList false [s 120]]], None) /\
  gagg_run GIdxPair [(VInt 1, [s 97; s 98]); (VInt 2, [s 120])] None false
    = Some ([VList false [VInt 1; VList false [s 97; s 98]]], Some EIndex).
Proof. vm_compute. repeat split. Qed.

(* collection.name (`[{a => 1}, {a => 2}].a`) is the map of the CONTEXT's member access over the elements: the standard
   context's d[key] (KeyError on a missing key), yaql.legacy's d.get(key) (null), a host overload of `.` for mappings
   (d.get(key, c)); the first refusing element ends the lazy sequence with its own error *)
Theorem C13_collection_attribution : forall acc name,
  (forall l, Forall (fun x => exists v, access_elem acc name x = Ok v) l ->
     access_all acc name l = Some (map (access_val acc name) l, None)) /\
  (forall l1 x r e, Forall (fun y => exists v, access_elem acc name y = Ok v) l1 -> access_elem acc name x = Err e ->
     access_all acc name (l1 ++ x :: r) = Some (map (access_val acc name) l1, Some e)) /\
  (forall m d, (forall c, exists v, access_elem (AccHost c) name (VDict m d) = Ok v) /\
     (exists v, access_elem AccLegacy name (VDict m d) = Ok v) /\
     (dict_get_l (VStr name) d = None -> access_elem AccStd name (VDict m d) = Err EKey) /\
     (forall v acc', dict_get_l (VStr name) d = Some v -> access_elem acc' name (VDict m d) = Ok v)).
Proof. exact (fun acc name => conj (access_all_map acc name) (conj (access_all_error acc name) (access_elem_cases name))). Qed.

(* non-vacuity: the model at work on concrete inputs *)
Example C13_example_order :
  order_by_l [(LMod 2, false); (LId, true)] [VInt 3; VInt 2; VInt 1; VInt 4; VInt 3] = [VInt 1; VInt 3; VInt 3; VInt 2; VInt 4].
Proof. vm_compute. reflexivity. Qed.

Example C13_example_pipeline :
  snd (eval_case (SrcIter [VInt 1; VInt 2; VInt 3; VInt 4]) [SWhere (LGt 1); SSelect (LMul 2); SInsert (-1) (VInt 9)])
  = OVal (VList false [VInt 4; VInt 6; VInt 8]) /\
  snd (eval_case (SrcTuple [VInt 1; VInt 2; VInt 3]) [SInsert (-1) (VInt 9)])
  = OVal (VList false [VInt 1; VInt 2; VInt 9; VInt 3]).
Proof. vm_compute. split; reflexivity. Qed.

Print Assumptions C13_order_by.
Print Assumptions C13_group_by.
Print Assumptions C13_stream_is_list.
Print Assumptions C13_group_by_aggregator.
Print Assumptions C13_collection_attribution.
