(* C13 - stub, replaced below *)
From Coq Require Import List ZArith Bool.
From YV Require Import Common.Corr Model.Queries Model.Streams.
Import ListNotations.
Theorem C13_stub : forall (l : list val), rev (rev l) = l.
Proof. exact (@rev_involutive val). Qed.
