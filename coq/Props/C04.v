(* C04 - Core evaluation semantics follow the language reference.
   Statements about the reference interpreter Model/Eval.v (proofs in Lemmas/EvalFrame.v, EvalScope.v).
   The interpreter itself is tied to yaql by the correspondence of harness/props/c04.py. *)
From Coq Require Import List ZArith Bool Arith.
From YV Require Import Common.Corr Model.Eval Lemmas.EvalFrame Lemmas.EvalScope Lemmas.EvalWf Lemmas.EvalPlain.
Import ListNotations.

(* Inner bindings never leak outward: whatever is evaluated (any expression, any fuel, any state,
   any context), every context that existed before is bit-for-bit the same afterwards - its
   variables, its functions, its parent.  Evaluation only appends contexts (and log entries). *)
Theorem C04_frame :
  forall f s c e s' r, eval f s c e = (s', r) ->
    (exists h l, heap s' = heap s ++ h /\ log s' = log s ++ l)
    /\ forall i, i < length (heap s) -> nth_error (heap s') i = nth_error (heap s) i.
Proof.
  intros f s c e s' r H. pose proof (eval_ext f s c e s' r H) as E. split; [exact E|].
  intros i Hi. now apply ext_old_context.
Qed.

(* the same for result finalisation, which runs the pending lambdas of lazy sequences *)
Theorem C04_frame_finalize :
  forall f s v s' r, finalize f s v = (s', r) ->
    forall i, i < length (heap s) -> nth_error (heap s') i = nth_error (heap s) i.
Proof. intros f s v s' r H i Hi. apply ext_old_context; [exact (finalize_ext f s v s' r H)|exact Hi]. Qed.

(* Named variables resolve through the enclosing scopes, the nearest binding shadowing outer
   ones; unknown variables are null. *)
Theorem C04_lookup_nearest :
  forall h c n,
    lookup h c n = match first_def (layers (S (length h)) h c) (norm n) with Some v => v | None => VNull end.
Proof. exact lookup_nearest. Qed.

Theorem C04_shadow :
  forall h c n r v, nth_error h c = Some r -> assoc_last (cdata r) (norm n) = Some v -> lookup h c n = v.
Proof. exact lookup_shadow. Qed.

Theorem C04_unknown_null :
  forall h c n, first_def (layers (S (length h)) h c) (norm n) = None -> lookup h c n = VNull.
Proof. exact lookup_unknown_null. Qed.

(* `$` and `$1` are one variable *)
Theorem C04_dollar_alias : forall h c, lookup h c [] = lookup h c [49%Z].
Proof. exact lookup_dollar_alias. Qed.

(* `$`/`$1` in the body of a lambda are the first argument of THAT invocation, whatever the
   enclosing contexts (chain of cap) bind; named arguments likewise. *)
Theorem C04_dollar_innermost :
  forall h cap a pos kw,
    assoc (rev kw) [49%Z] = None ->
    let r := {| cparent := Some cap; cdata := number_from 1 (a :: pos) ++ kw; cfuncs := [] |} in
    lookup (h ++ [r]) (length h) [] = a /\ lookup (h ++ [r]) (length h) [49%Z] = a.
Proof. exact invoke_binds_dollar. Qed.

Theorem C04_named_argument :
  forall h cap pos kw n v,
    n <> [] -> assoc (rev kw) n = Some v ->
    let r := {| cparent := Some cap; cdata := number_from 1 pos ++ kw; cfuncs := [] |} in
    lookup (h ++ [r]) (length h) n = v.
Proof. exact invoke_binds_named. Qed.

(* Closures keep their defining scope: the result of calling a def'd function depends on the
   closure (body, captured context) and the argument values, not on the context of the call site. *)
Theorem C04_lexical :
  forall f s c1 c2 name body cap cs,
    lookup_func (heap s) c1 name = Some (body, cap) ->
    lookup_func (heap s) c2 name = Some (body, cap) ->
    eval (S (S f)) s c1 (EUser name (map EConst cs) []) = eval (S (S f)) s c2 (EUser name (map EConst cs) []).
Proof. exact call_is_lexical. Qed.

(* Well-scopedness is an invariant of evaluation: all context ids in play (current context, parents,
   captured contexts of closures and of lazy stages, context values, the result) refer to allocated
   contexts and parents are older than children ([hok], [vok] in Lemmas/EvalWf.v). *)
Theorem C04_well_scoped :
  forall f s c e s' r, eval f s c e = (s', r) -> hok (heap s) -> c < length (heap s) ->
    hok (heap s') /\ (forall v, r = Ok v -> vok (length (heap s')) v).
Proof. exact eval_wf. Qed.

(* Hence: whatever is evaluated, EVERY context that exists at that moment - the defining scope of
   every closure created so far, every enclosing scope - resolves every variable name exactly as
   before.  Bindings made by the evaluated expression (let, with, unpack, lambda parameters, def)
   are invisible outside it: they never leak outward, and closures keep their defining scope. *)
Theorem C04_scope_stable :
  forall f s c e s' r, eval f s c e = (s', r) -> hok (heap s) -> c < length (heap s) ->
    hok (heap s') /\ forall c0 n, c0 < length (heap s) -> lookup (heap s') c0 n = lookup (heap s) c0 n.
Proof. exact scope_stable. Qed.

(* the initial state of Statement.evaluate is well-scoped for any plain document *)
Theorem C04_root_well_scoped : forall d, vok 1 d -> hok (heap (root d)).
Proof. exact root_hok. Qed.

(* A successful evaluation returns plain data: every lazy sequence anywhere in the result has been pulled and no
   context object is left (the interpreter's counterpart of C10's statement). *)
Theorem C04_result_plain : forall fuel data e lg r, run fuel data e = (lg, Ok r) -> plainv r.
Proof. exact run_plain. Qed.

(* ---- the theorems are about reachable, non-trivial situations ---- *)

(* let(x => 10) -> def(f, $ + $x) -> let(x => 20) -> f(3)  is 13: lexical capture *)
Example C04_closure_example :
  let x := [120%Z] in let fn := [102%Z] in
  run 50 VNull
    (EArrow (ELet [] [(x, EConst (CInt 10))])
       (EArrow (EDef fn (EBin OAdd (EVar []) (EVar x)))
          (EArrow (ELet [] [(x, EConst (CInt 20))])
             (EUser fn [EConst (CInt 3)] []))))
  = ([], Ok (VInt 13)).
Proof. vm_compute. reflexivity. Qed.

(* [let(x => 1) -> $x, $x] is [1, null]: no leak *)
Example C04_no_leak_example :
  let x := [120%Z] in
  run 50 VNull (EList [EArrow (ELet [] [(x, EConst (CInt 1))]) (EVar x); EVar x])
  = ([], Ok (VList [VInt 1; VNull])).
Proof. vm_compute. reflexivity. Qed.

(* [1,2].select([$, [10].select($ + 1)]) : the inner lambda's $ is its own argument *)
Example C04_innermost_example :
  let sel := [115;101;108;101;99;116]%Z in
  run 50 VNull
    (EMeth (EList [EConst (CInt 1); EConst (CInt 2)]) sel
       [EList [EVar []; EMeth (EList [EConst (CInt 10)]) sel [EBin OAdd (EVar []) (EConst (CInt 1))]]])
  = ([], Ok (VList [VList [VInt 1; VList [VInt 11]]; VList [VInt 2; VList [VInt 11]]])).
Proof. vm_compute. reflexivity. Qed.

(* ---- fuel is only a termination device --------------------------------------------------------------------------- *)
From YV Require Import Lemmas.EvalFuel.

(* an answer other than "out of fuel" is the answer - final state (every context created, the tick log) and result -
   for every larger amount of fuel: the interpreter defines a partial function of (state, context, expression) *)
Theorem C04_fuel_irrelevant : forall f f' s c e s' r,
  f <= f' -> eval f s c e = (s', r) -> r <> Fuel -> eval f' s c e = (s', r).
Proof. intros f f' s c e s' r Hf H Hr. exact (eval_fuel_mono f f' Hf s c e s' r H Hr). Qed.

Theorem C04_statement_fuel_irrelevant : forall f f' data e lg r,
  f <= f' -> run f data e = (lg, r) -> r <> Fuel -> run f' data e = (lg, r).
Proof. exact run_fuel_mono. Qed.

Theorem C04_evaluate_fuel_irrelevant : forall f f' host c data e s' r,
  f <= f' -> evaluate f host c data e = (s', r) -> r <> Fuel -> evaluate f' host c data e = (s', r).
Proof. exact evaluate_fuel_mono. Qed.

(* two terminating runs of one statement on one document agree on the evaluation trace and on the result *)
Theorem C04_deterministic : forall f g data e lg1 r1 lg2 r2,
  run f data e = (lg1, r1) -> run g data e = (lg2, r2) -> r1 <> Fuel -> r2 <> Fuel -> lg1 = lg2 /\ r1 = r2.
Proof. exact run_deterministic. Qed.
