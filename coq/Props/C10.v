(* C10 - Data round-trips and every result is finalised into plain data.
   Property theorems only; every proof is `exact <lemma>` or a computed witness.
   The model is Model/Convert.v (tied to yaql/language/utils.py and to
   '#finalize' / Statement.evaluate by harness/props/c10.py). *)
From Coq Require Import List ZArith Bool.
From YV Require Import Common.Corr Model.Convert Model.ConvertId Lemmas.ConvertBase Lemmas.ConvertSpec Lemmas.ConvertIdem Lemmas.ConvertFresh
  Model.ConvertLim Lemmas.ConvertLimSpec.
Import ListNotations.

(* Whatever finalisation returns is plain data under the options in force, at
   every depth, keys included: dict, list, tuple only if convertTuplesToLists is
   off, set only if convertSetsToLists is off, scalar leaves; no iterator,
   generator, dict view, ordering object, FrozenDict or frozenset node. *)
Theorem C10_plain : forall o v r, convert_output o v = Ok r -> plainb o r = true.
Proof. exact convert_output_plain. Qed.

(* plainb, spelled out *)
Theorem C10_plain_spec : forall o r, plainb o r = true ->
  match r with
  | VNull | VBool _ | VInt _ | VFloat _ | VStr _ => True
  | VDict kvs => forall k v, In (k, v) kvs -> plainb o k = true /\ plainb o v = true
  | VList l => forall x, In x l -> plainb o x = true
  | VTuple l => t2l o = false /\ forall x, In x l -> plainb o x = true
  | VSet l => s2l o = false /\ forall x, In x l -> plainb o x = true
  | VFDict _ | VFSet _ | VIter _ | VView _ _ | VOrd _ => False
  end.
Proof. exact plainb_spec. Qed.

(* A JSON-like document (scalar-keyed dicts, lists, and tuples, sets of scalars
   and generators of such) comes back from `$` as [canon o d]: same leaves, dict
   items in the same order, lists and tuples as list (tuple when
   convertTuplesToLists is off), sets as set or list, generators as list. *)
Theorem C10_roundtrip : forall o d, jsonlike d = true ->
  convert_output o (convert_input d) = Ok (canon o d).
Proof. exact convert_roundtrip. Qed.

(* Exact guard: finalisation succeeds iff every dict key, and every set element
   when sets stay sets, converts to a hashable value (a scalar, or a tuple of
   such when tuples stay tuples).  Dict views and iterators need no guard of
   their own. *)
Theorem C10_total_guarded : forall o v, guard o v = true <-> exists r, convert_output o v = Ok r.
Proof. exact convert_output_total_iff. Qed.

(* ... and [key_ok] is exactly "the converted value can be hashed" *)
Theorem C10_key_ok_exact : forall o v r, convert_output o v = Ok r -> hashable r = key_ok o v.
Proof. exact convert_output_key_ok. Qed.

(* Full-strength totality fails (finding F8): {(1,2): 3} - a tuple as dict key -
   under the default options; likewise a frozen dict or frozenset as key and,
   with sets kept as sets, any of those as a set element.  No plain hashable
   form of such a key exists, so this is recorded, not repaired. *)
Theorem C10_total_refuted : exists o v, convert_output o v = Err PyType.
Proof.
  exists default_opts, (VFDict [(VTuple [VInt 1; VInt 2], VInt 3)]). vm_compute. reflexivity.
Qed.

Theorem C10_total_refuted_all_options : forall o, exists v,
  hashable v = true /\ frozenb v = true /\ convert_output o v = Err PyType.
Proof.
  intros [[|] [|]]; exists (VFDict [(VFSet [VInt 1], VInt 3)]); vm_compute; repeat split; reflexivity.
Qed.

(* Input conversion yields frozen data only (no list, dict, set, view or
   ordering object at any depth) and can never raise: everything it builds is
   hashable. *)
Theorem C10_input_frozen : forall d, frozenb (convert_input d) = true.
Proof. exact convert_input_frozen. Qed.

Theorem C10_input_total : forall d, hashable (convert_input d) = true.
Proof. exact convert_input_hashable. Qed.

(* Finalising a finalised value changes nothing (YaqlInterface finalises the
   statement's already finalised result a second time). *)
Theorem C10_idempotent : forall o v r, convert_output o v = Ok r -> convert_output o r = Ok r.
Proof. exact convert_output_idem. Qed.

(* The result is moreover a well-formed Python value: dict keys and set elements
   are hashable and pairwise different, besides being plain. *)
Theorem C10_result_wellformed : forall o v r, convert_output o v = Ok r -> wfb o r = true.
Proof. exact convert_output_wf. Qed.

(* A simple sufficient condition for success under EVERY option combination:
   dict keys (also of mappings under a view) and set elements are scalars.
   Views, iterators, ordering objects and frozen containers may occur at any
   depth as values and elements: they never make finalisation fail. *)
Theorem C10_total_scalar_keys : forall o v, scalar_keyed v = true -> exists r, convert_output o v = Ok r.
Proof. exact (fun o v H => proj1 (convert_output_total_iff o v) (scalar_keyed_guard o v H)). Qed.

(* Historic (finding F7, repaired in /repo by bc9e98e; about the code BEFORE the
   fix, not part of the verdict on the current tree): KeysView/ItemsView took
   the Set branch, so items() of ANY non-empty dict could not be finalised under
   the default options - each item became a list and was put into a set. *)
Theorem C10_F7_before_fix : forall o kvs, kvs <> [] -> t2l o = true -> s2l o = false ->
  finalize_view_before_fix o KItems kvs = Err PyType.
Proof. exact items_failed_before_fix. Qed.

(* ---- identity (Model/ConvertId.v): mutable containers carry the index of their object ---- *)
(* Whatever the evaluated value aliases (the same list / dict / set object at several
   positions, host containers reaching the finaliser): every list / dict / set node of
   the result is allocated by the conversion - it is none of the input's objects, and
   no two positions of the result hold the same object.  All four option combinations. *)
Theorem C10_output_fresh : forall o v n r n',
  co_id o v n = Ok (r, n') -> (forall i, In i (cells v) -> i < n) ->
  NoDup (cells r) /\ (forall i, In i (cells r) -> n <= i < n') /\ (forall i, In i (cells r) -> ~ In i (cells v)).
Proof. exact co_id_fresh. Qed.

(* the identity-carrying conversion IS convert_output once identities are forgotten,
   so every theorem above speaks about it *)
Theorem C10_output_id_erase : forall o v n,
  match co_id o v n with
  | Ok (r, _) => convert_output o (erase v) = Ok (erase r)
  | Err e => convert_output o (erase v) = Err e
  end.
Proof. exact co_id_erase. Qed.

(* `$`: the value built from host data d has no mutable node at all, and the result
   returned to the host shares no list / dict / set object with d *)
Theorem C10_dollar_fresh : forall o d n r n',
  (forall i, In i (cells d) -> i < n) ->
  co_id o (inj (convert_input (erase d))) n = Ok (r, n') ->
  cells (inj (convert_input (erase d))) = [] /\ NoDup (cells r) /\
  (forall i, In i (cells r) -> ~ In i (cells d)) /\ convert_output o (convert_input (erase d)) = Ok (erase r).
Proof. exact dollar_fresh. Qed.

(* ---- the limit_func argument (Model/ConvertLim.v) ---------------------------------------- *)
(* convert_output_data iterates every collection through limit_func.  A limiter is
   abstract: of a collection of n elements it lets a PREFIX through and may then raise
   CollectionTooLargeException.  [co_lim lim] follows the code's evaluation order
   (value, key, hash, item by item), which two error classes make observable. *)

(* plain results whatever the limiter does *)
Theorem C10_lim_plain : forall lim o v r, co_lim lim o v = LOk r -> plainb o r = true.
Proof. exact co_lim_plain. Qed.

(* a limiter that is all-or-error (limit_iterable is: C10_lim_count_all_or_error) can only
   turn a success into an error, never change a result: whenever finalisation with the
   limiter succeeds, it returns what the unlimited conversion returns - so C10_roundtrip,
   C10_total_guarded (necessity), C10_idempotent, C10_result_wellformed apply to it *)
Theorem C10_lim_all_or_error : forall lim, all_or_error lim ->
  forall o v r, co_lim lim o v = LOk r -> convert_output o v = Ok r.
Proof. exact co_lim_agree. Qed.

Theorem C10_lim_count_all_or_error : forall N, all_or_error (count_lim N).
Proof. exact count_lim_all_or_error. Qed.

(* the identity limiter is Model/Convert.v's convert_output; more generally a limiter that
   lets collections up to the value's width through changes nothing, errors included *)
Theorem C10_lim_identity : forall o v, co_lim id_lim o v = embed (convert_output o v).
Proof. exact co_lim_id. Qed.

Theorem C10_lim_passes : forall lim o v, passes lim (width v) -> co_lim lim o v = embed (convert_output o v).
Proof. exact co_lim_passes. Qed.

(* with yaql.limitIterators = N: round trip and the exact guard for values no wider than N *)
Theorem C10_lim_roundtrip : forall N o d, jsonlike d = true -> width (convert_input d) <= N ->
  co_lim (count_lim (Some N)) o (convert_input d) = LOk (canon o d).
Proof. exact co_lim_roundtrip. Qed.

Theorem C10_lim_total : forall N o v, width v <= N ->
  (guard o v = true <-> exists r, co_lim (count_lim (Some N)) o v = LOk r).
Proof. exact co_lim_total. Qed.

(* Relation to C08 (coq/Model/Limits.v, read only): its [fin N o] is this function for
   lim = count_lim, on a smaller value universe (no frozen/host distinction, no views, no
   bool/float) extended with endless sources and pull counting; both convert the value of
   a dict item before its key and hash item by item.  The two are tied to the same Python
   function by their correspondences; no Coq bridge between the two value types is stated. *)

(* ---- non-vacuity --------------------------------------------------------------- *)
Definition s_a : str := [97%Z].
Definition doc := VDict [(VStr s_a, VList [VInt 1; VTuple [VNull; VFloat 0]; VSet [VInt 2; VStr s_a]]);
                         (VInt 7, VIter [VDict [(VBool true, VStr [])]])].

Example doc_jsonlike : jsonlike doc = true. Proof. reflexivity. Qed.
Example doc_roundtrip_default :
  convert_output default_opts (convert_input doc) =
  Ok (VDict [(VStr s_a, VList [VInt 1; VList [VNull; VFloat 0]; VSet [VInt 2; VStr s_a]]);
             (VInt 7, VList [VDict [(VBool true, VStr [])]])]).
Proof. reflexivity. Qed.
Example doc_roundtrip_other :
  convert_output {| t2l := false; s2l := true |} (convert_input doc) =
  Ok (VDict [(VStr s_a, VTuple [VInt 1; VTuple [VNull; VFloat 0]; VList [VInt 2; VStr s_a]]);
             (VInt 7, VList [VDict [(VBool true, VStr [])]])]).
Proof. reflexivity. Qed.

(* every non-plain constructor is really converted away, under every option combination *)
Definition zoo := VTuple [VView KItems [(VStr s_a, VFSet [VInt 1])]; VOrd [VInt 2]; VIter [VFDict [(VInt 1, VSet [])]];
                          VView KKeys [(VTuple [VInt 1], VNull)]; VView KValues [(VNull, VList [])]].
Example zoo_guard : forallb (fun o => guard o zoo) [{| t2l := true; s2l := true |}; {| t2l := true; s2l := false |};
                                                     {| t2l := false; s2l := true |}; {| t2l := false; s2l := false |}] = true.
Proof. reflexivity. Qed.
Example zoo_default : convert_output default_opts zoo =
  Ok (VList [VList [VList [VStr s_a; VSet [VInt 1]]]; VList [VInt 2]; VList [VDict [(VInt 1, VSet [])]];
             VList [VList [VInt 1]]; VList [VList []]]).
Proof. reflexivity. Qed.

(* the F7 shape: items() of a dict finalises under the default options *)
Example items_default : convert_output default_opts (VView KItems [(VStr s_a, VInt 1)]) = Ok (VList [VList [VStr s_a; VInt 1]]).
Proof. reflexivity. Qed.

(* the guard really excludes something for every option combination, and admits tuple keys when tuples stay *)
Example guard_tuple_key : guard {| t2l := false; s2l := false |} (VDict [(VTuple [VInt 1; VInt 2], VInt 3)]) = true
                          /\ guard default_opts (VDict [(VTuple [VInt 1; VInt 2], VInt 3)]) = false.
Proof. split; reflexivity. Qed.
Example guard_set_elem : guard {| t2l := true; s2l := true |} (VFSet [VTuple [VInt 1]]) = true
                         /\ guard default_opts (VFSet [VTuple [VInt 1]]) = false.
Proof. split; reflexivity. Qed.

(* Python's hash rule on the model values *)
Example scalar_keyed_zoo :
  scalar_keyed (VView KItems [(VStr s_a, VIter [VOrd [VFSet [VInt 1]; VView KKeys [(VNull, VSet [])]]])]) = true.
Proof. reflexivity. Qed.
Example wellformed_example : wfb default_opts (VDict [(VStr s_a, VSet [VInt 1; VInt 2])]) = true
                             /\ wfb default_opts (VDict [(VInt 1, VNull); (VBool true, VNull)]) = false.
Proof. split; reflexivity. Qed.

(* a host list holding the SAME list object twice, reaching the finaliser as it is:
   the two copies in the result are different new objects *)
Example aliasing_example :
  co_id default_opts (IList 0 [IList 1 [IInt 5]; IList 1 [IInt 5]; IDict 2 [(IStr s_a, IList 1 [IInt 5])]]) 3
  = Ok (IList 7 [IList 3 [IInt 5]; IList 4 [IInt 5]; IDict 6 [(IStr s_a, IList 5 [IInt 5])]], 8).
Proof. reflexivity. Qed.
Example fresh_okb_rejects_alias :
  fresh_okb 3 (IList 7 [IList 1 [IInt 5]]) = false /\ fresh_okb 3 (IList 7 [IList 4 []; IList 4 []]) = false.
Proof. split; reflexivity. Qed.

(* limiter: a sized collection is refused before anything is converted; an iterator only
   after N elements were converted, so an earlier TypeError wins *)
Example lim_sized_first :
  co_lim (count_lim (Some 1)) default_opts (VList [VDict [(VTuple [], VNull)]; VInt 2]) = LErr LTooLarge.
Proof. reflexivity. Qed.
Example lim_iter_later :
  co_lim (count_lim (Some 1)) default_opts (VIter [VDict [(VTuple [], VNull)]; VInt 2]) = LErr LPyType
  /\ co_lim (count_lim (Some 1)) default_opts (VIter [VInt 1; VDict [(VTuple [], VNull)]]) = LErr LTooLarge
  /\ co_lim (count_lim (Some 2)) default_opts (VIter [VInt 1; VTuple [VInt 2]]) = LOk (VList [VInt 1; VList [VInt 2]]).
Proof. repeat split; reflexivity. Qed.
Example lim_value_before_key :
  co_lim (count_lim (Some 1)) default_opts (VDict [(VTuple [], VList [VInt 1; VInt 2])]) = LErr LTooLarge
  /\ co_lim (count_lim (Some 1)) default_opts (VDict [(VTuple [], VList [VInt 1])]) = LErr LPyType.
Proof. split; reflexivity. Qed.

Example hash_rule :
  map hashable [VTuple [VInt 1; VList []]; VTuple [VFSet [VInt 1]]; VFDict [(VInt 1, VList [])]; VFDict [(VInt 1, VTuple [])];
                VView KKeys []; VView KValues []; VView KItems []; VIter []; VOrd []; VSet []; VDict []]
  = [false; true; false; true; false; true; false; true; true; false; false].
Proof. reflexivity. Qed.
