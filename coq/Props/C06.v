(* C06 - Resolution does not depend on registration or iteration order.
   Property theorems only.  Model: Model/Resolution.v (tied to runner.py / specs.py by
   harness/props/c06.py); proofs: Lemmas/ResolutionOrder.v. *)
From Coq Require Import List ZArith Bool Arith Permutation.
From YV Require Import Common.Corr Model.Resolution Lemmas.ResolutionSpec Lemmas.ResolutionOrder.
Import ListNotations.

(* for EVERY subtype relation, family, call: permuting the enumeration order of every layer
   changes neither the outcome (overload chosen with its bound arguments, or error) nor the
   evaluation log *)
Theorem C06_order_independent : forall (sub : tag -> tag -> bool) layers layers' args pykw,
  Forall2 (@Permutation fdef) layers layers' ->
  choose_overload sub layers args pykw = choose_overload sub layers' args pykw.
Proof. exact choose_perm. Qed.

(* the same one level up: contexts whose overload collections are permuted (same exclusivity) *)
Theorem C06_call_order_independent : forall (sub : tag -> tag -> bool) has_receiver chain chain' args pykw,
  Forall2 (fun l l' => Permutation (lfuns l) (lfuns l') /\ lexcl l = lexcl l') chain chain' ->
  call sub has_receiver chain args pykw = call sub has_receiver chain' args pykw.
Proof. exact call_perm. Qed.

(* the documented rules themselves are a function of the SETS of overloads *)
Theorem C06_spec_order_independent : forall (sub : tag -> tag -> bool) layers layers' args pykw,
  Forall2 (@Permutation fdef) layers layers' ->
  resolve_spec sub layers args pykw = resolve_spec sub layers' args pykw.
Proof. exact resolve_spec_perm. Qed.

(* ---- the finding (F3): the selection of the code BEFORE the repair is order dependent ---- *)
Definition one_param (t : tag) : list param :=
  [{| pname := 1; palias := None; ppos := Some 0; pdefault := None; pkind := KTyped t false; pstar := SNone |}].
Definition ovl (id : Z) (t : tag) (nokw : bool) : fdef :=
  {| fid := id; fparams := one_param t; fnokw := nokw; fisfun := true; fismeth := false |}.
Definition fA := ovl 1 2 false.   (* typed A *)
Definition fB := ovl 2 3 false.   (* typed B *)
Definition fD := ovl 3 4 false.   (* typed D(A, B) *)
Definition call_D : list arg := [AExpr 1 (VObj 4)].

(* candidates typed A, B, D with D below both and A, B incomparable: one order runs D, another is ambiguous *)
Theorem C06_historic_refuted :
  exists layers layers' args pykw,
    Forall2 (@Permutation fdef) layers layers' /\
    choose_historic sub6 layers args pykw = (Chosen 3 [BVal (VObj 4)] [], [1%Z]) /\
    choose_historic sub6 layers' args pykw = (Failed EAmbiguous, [1%Z]).
Proof.
  exists [[fD; fA; fB]], [[fA; fB; fD]], call_D, [].
  split; [|split; vm_compute; reflexivity].
  constructor; [|constructor].
  exact (Permutation_cons_append [fA; fB] fD).
Qed.

(* second shape: no_kwargs taken from the first candidate enumerated *)
Theorem C06_historic_nokw_refuted :
  exists layers layers' args pykw,
    Forall2 (@Permutation fdef) layers layers' /\
    fst (choose_historic sub6 layers args pykw) = Failed EArg /\
    fst (choose_historic sub6 layers' args pykw) = Failed EAmbiguous.
Proof.
  exists [[ovl 1 0 true; ovl 2 0 false]], [[ovl 2 0 false; ovl 1 0 true]], call_D, [(5%Z, ARaw (VObj 4))].
  split; [|split; vm_compute; reflexivity].
  constructor; [apply perm_swap|constructor].
Qed.

(* non-vacuity: on the witness family the repaired selection runs D in all six orders *)
Example C06_all_orders :
  forallb (fun l => outcome_eqb (fst (choose_overload sub6 [l] call_D [])) (Chosen 3 [BVal (VObj 4)] []))
          [[fA; fB; fD]; [fA; fD; fB]; [fB; fA; fD]; [fB; fD; fA]; [fD; fA; fB]; [fD; fB; fA]] = true.
Proof. vm_compute. reflexivity. Qed.

(* and the historic one in exactly four of the six *)
Example C06_historic_four_of_six :
  map (fun l => outcome_eqb (fst (choose_historic sub6 [l] call_D [])) (Chosen 3 [BVal (VObj 4)] []))
      [[fA; fB; fD]; [fA; fD; fB]; [fB; fA; fD]; [fB; fD; fA]; [fD; fA; fB]; [fD; fB; fA]]
  = [false; true; false; true; true; true].
Proof. vm_compute. reflexivity. Qed.

Print Assumptions C06_order_independent.
Print Assumptions C06_call_order_independent.
Print Assumptions C06_spec_order_independent.
Print Assumptions C06_historic_refuted.
Print Assumptions C06_historic_nokw_refuted.
