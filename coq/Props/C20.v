(* C20 - Date/time values denote instants consistently.
   Property theorems only; every proof is `exact <lemma>`.  The model is
   Model/DateTime.v (tied to yaql/standard_library/date_time.py and
   yaqltypes.DateTime by the correspondence check of harness/props/c20.py).
   All quantities are integer microseconds; a float result of the code is
   stated through the exact rational it rounds. *)
From Coq Require Import ZArith Bool List QArith.
From Coq Require Import Strings.String Strings.Ascii.
From YV Require Import Common.Corr Model.DateTime Lemmas.DateTimeLaws Lemmas.DateTimeCivil Lemmas.DateTimeFields Lemmas.DateTimeSpans Lemmas.DateTimeIso Gen.DateTimeDecls.
Import ListNotations.
Open Scope Z_scope.

(* datetime(s, o).timestamp = s - for all integers, and through the range-checked
   calls: whenever datetime(s, o) exists, its .timestamp is the float nearest s / 10^6 *)
Theorem C20_timestamp_roundtrip : forall s o,
  timestamp (dt_of_timestamp s o) = s /\
  instant (dt_of_timestamp s o) = EPOCH + s /\ offset (dt_of_timestamp s o) = o /\
  (forall d, eval (OpFromTimestamp s o) = VDt d ->
             d = dt_of_timestamp s o /\ eval (OpTimestamp (Aware d)) = VRat s 1000000).
Proof.
  exact (fun s o => conj (timestamp_roundtrip s o)
          (conj (proj1 (instant_of_timestamp s o)) (conj (proj2 (instant_of_timestamp s o))
                (eval_timestamp_roundtrip s o)))).
Qed.

(* datetime(d.timestamp, d.offset) = d (reading AND offset) *)
Theorem C20_datetime_of_timestamp_roundtrip : forall d,
  dt_of_timestamp (timestamp d) (offset d) = d /\
  (valid_adt d = true -> in_range (instant d) = true ->
   eval (OpFromTimestamp (timestamp d) (offset d)) = VDt d /\
   eval (OpTimestamp (Aware d)) = VRat (timestamp d) 1000000).
Proof. exact (fun d => conj (datetime_of_timestamp_roundtrip d) (eval_datetime_of_timestamp_roundtrip d)). Qed.

(* d.utc is the same instant as d, expressed at offset zero *)
Theorem C20_utc_same_instant : forall d,
  instant (utc d) = instant d /\ offset (utc d) = 0 /\ timestamp (utc d) = timestamp d /\ utc (utc d) = utc d.
Proof. exact utc_same_instant. Qed.

Theorem C20_utc_call : forall h u, eval (OpUtc h) = VDt u ->
  instant u = instant (conv h) /\ offset u = 0 /\ eval (OpTimestamp (Aware u)) = eval (OpTimestamp h).
Proof. exact eval_utc. Qed.

(* (d + t) - t = d and (d + t) - d = t; ts + dt = dt + ts; the zone is kept *)
Theorem C20_add_sub : forall d t,
  dt_sub_ts (dt_add d t) t = d /\ dt_diff (dt_add d t) d = t /\
  dt_add (dt_sub_ts d t) t = d /\ ts_add_dt t d = dt_add d t /\
  instant (dt_add d t) = instant d + t /\ offset (dt_add d t) = offset d.
Proof. exact add_sub. Qed.

Theorem C20_add_sub_calls : forall h t d', valid_hdt h = true ->
  eval (OpAdd h t) = VDt d' ->
  eval (OpAddR t h) = VDt d' /\
  eval (OpSubTs (Aware d') t) = VDt (conv h) /\
  eval (OpDiff (Aware d') h) = VTs t.
Proof. exact eval_add_sub. Qed.

(* equality and ordering are those of instants: each operator is the integer
   comparison of instants, exactly one of <, =, > holds, <= is (< or =), and
   all agree with the sign of the difference; never an error, for any pair of
   host datetimes (naive or aware) *)
Theorem C20_order_is_instant_order : forall a b,
  ((dt_cmp Lt a b = true <-> instant a < instant b) /\
   (dt_cmp Le a b = true <-> instant a <= instant b) /\
   (dt_cmp Gt a b = true <-> instant a > instant b) /\
   (dt_cmp Ge a b = true <-> instant a >= instant b) /\
   (dt_cmp Eq a b = true <-> instant a = instant b) /\
   (dt_cmp Ne a b = true <-> instant a <> instant b)) /\
  ((dt_cmp Lt a b = true /\ dt_cmp Eq a b = false /\ dt_cmp Gt a b = false \/
    dt_cmp Lt a b = false /\ dt_cmp Eq a b = true /\ dt_cmp Gt a b = false \/
    dt_cmp Lt a b = false /\ dt_cmp Eq a b = false /\ dt_cmp Gt a b = true) /\
   dt_cmp Le a b = (dt_cmp Lt a b || dt_cmp Eq a b) /\
   dt_cmp Ge a b = (dt_cmp Gt a b || dt_cmp Eq a b) /\
   dt_cmp Ne a b = negb (dt_cmp Eq a b) /\
   dt_cmp Gt a b = dt_cmp Lt b a /\ dt_cmp Ge a b = dt_cmp Le b a /\
   dt_cmp Eq a b = (dt_cmp Le a b && dt_cmp Ge a b) /\
   dt_cmp Lt a b = (dt_diff a b <? 0) /\ dt_cmp Eq a b = (dt_diff a b =? 0)).
Proof. exact (fun a b => conj (cmp_spec a b) (cmp_consistent a b)). Qed.

Theorem C20_order_calls : forall c x y,
  eval (OpCmp c x y) = VBool (z_cmp c (instant (conv x)) (instant (conv y))) /\
  eval (OpDiff x y) = VTs (instant (conv x) - instant (conv y)).
Proof. exact (fun c x y => conj (eval_cmp c x y) (eval_diff x y)). Qed.

Theorem C20_order_invariant : forall c a b t,
  dt_cmp c (dt_add a t) (dt_add b t) = dt_cmp c a b /\ dt_cmp c (utc a) (utc b) = dt_cmp c a b.
Proof. exact (fun c a b t => conj (cmp_shift c a b t) (cmp_utc c a b)). Qed.

(* the unit properties are one quantity in different units; timespan(microseconds => x.microseconds) = x *)
Theorem C20_units : forall t,
  (forall u, (ts_unit u t * inject_Z (Zpos (unit_div u)) == inject_Z t)%Q) /\
  ((ts_unit UDays t * 24 == ts_unit UHours t)%Q /\
   (ts_unit UHours t * 60 == ts_unit UMinutes t)%Q /\
   (ts_unit UMinutes t * 60 == ts_unit USeconds t)%Q /\
   (ts_unit USeconds t * 1000 == ts_unit UMilliseconds t)%Q /\
   (ts_unit UMilliseconds t * 1000 == ts_unit UMicroseconds t)%Q /\
   (ts_unit UMicroseconds t == inject_Z t)%Q) /\
  timespan_of 0 0 0 0 0 t = t /\
  (ts_in_range t = true -> eval (OpUnit UMicroseconds t) = VInt t /\ eval (OpTimespan 0 0 0 0 0 t) = VTs t) /\
  (forall u, u <> UMicroseconds -> exists n d, eval (OpUnit u t) = VRat n d /\ (n # d == ts_unit u t)%Q).
Proof.
  exact (fun t => conj (fun u => unit_times_size u t) (conj (unit_ladder t) (conj (timespan_microseconds t)
          (conj (eval_timespan_microseconds t) (fun u => eval_unit u t))))).
Qed.

Theorem C20_timespan_components : forall d h m s ms us,
  (ts_unit UDays (timespan_of d 0 0 0 0 0) == inject_Z d)%Q /\
  (ts_unit UHours (timespan_of 0 h 0 0 0 0) == inject_Z h)%Q /\
  (ts_unit UMinutes (timespan_of 0 0 m 0 0 0) == inject_Z m)%Q /\
  (ts_unit USeconds (timespan_of 0 0 0 s 0 0) == inject_Z s)%Q /\
  (ts_unit UMilliseconds (timespan_of 0 0 0 0 ms 0) == inject_Z ms)%Q /\
  timespan_of d h m s ms us =
    timespan_of d 0 0 0 0 0 + timespan_of 0 h 0 0 0 0 + timespan_of 0 0 m 0 0 0 +
    timespan_of 0 0 0 s 0 0 + timespan_of 0 0 0 0 ms 0 + timespan_of 0 0 0 0 0 us.
Proof. exact timespan_components. Qed.

(* a host datetime without zone is taken as UTC: every call gives a naive
   argument the result it gives the same reading at offset zero *)
Theorem C20_naive_is_utc : forall o,
  eval (op_map as_utc o) = eval o /\
  (forall w, conv (Naive w) = {| wall := w; off := 0 |} /\ instant (conv (Naive w)) = w).
Proof. exact (fun o => conj (naive_is_utc o) naive_is_utc_reading). Qed.

(* the civil calendar of the model: EVERY integer day number is the day number of the
   civil date computed for it, which is a real date (inside years 1..9999 for readings in
   range); a reading is determined by its fields (replace() with no replacement and
   datetime(fields of d, offset of d) give d back); date/time split the reading *)
Theorem C20_civil_roundtrip : forall n y m d, civil_from_days n = (y, m, d) ->
  days_from_civil y m d = n /\ 1 <= m <= 12 /\ 1 <= d <= days_in_month y m /\
  (0 <= n < DAYS_TOTAL -> valid_civil y m d = true).
Proof.
  exact (fun n y m d H => match civil_roundtrip n y m d H with
                          | conj A (conj B C) => conj A (conj B (conj C (fun R => civil_valid n y m d R H))) end).
Qed.

(* the inverse direction: the civil date computed for the day number of a real date is that
   date (every integer year), and real dates of years 1..9999 have day numbers in range *)
Theorem C20_civil_inverse : forall y m d, 1 <= m <= 12 -> 1 <= d <= days_in_month y m ->
  civil_from_days (days_from_civil y m d) = (y, m, d) /\
  (valid_civil y m d = true -> 0 <= days_from_civil y m d < DAYS_TOTAL).
Proof. exact (fun y m d M D => conj (civil_inverse y m d M D) (days_range y m d)). Qed.

(* datetime(fields..., offset) round-trips through .year/.month/.../.microsecond: it exists exactly
   for real dates and clock readings, is in range, has the given offset, and every field property
   gives the field it was built from - at ANY offset *)
Theorem C20_fields_roundtrip : forall y m d h mi s us o,
  (valid_civil y m d = true -> valid_clock h mi s us = true ->
   exists x, eval (OpBuild y m d h mi s us o) = VDt x /\ off x = o /\ valid_hdt (Naive (wall x)) = true /\
     eval (OpField FYear (Aware x)) = VInt y /\ eval (OpField FMonth (Aware x)) = VInt m /\
     eval (OpField FDay (Aware x)) = VInt d /\ eval (OpField FHour (Aware x)) = VInt h /\
     eval (OpField FMinute (Aware x)) = VInt mi /\ eval (OpField FSecond (Aware x)) = VInt s /\
     eval (OpField FMicrosecond (Aware x)) = VInt us) /\
  (valid_civil y m d && valid_clock h mi s us = false -> eval (OpBuild y m d h mi s us o) = VErr RangeErr).
Proof. exact (fun y m d h mi s us o => conj (build_then_fields y m d h mi s us o) (build_invalid y m d h mi s us o)). Qed.

Theorem C20_fields_determine_reading : forall h,
  (wall_of_fields (dt_field FYear (hwall h)) (dt_field FMonth (hwall h)) (dt_field FDay (hwall h))
                  (dt_field FHour (hwall h)) (dt_field FMinute (hwall h)) (dt_field FSecond (hwall h))
                  (dt_field FMicrosecond (hwall h)) = hwall h) /\
  (valid_hdt h = true -> eval (OpReplace h None None None None None None None None) = VDt (conv h)).
Proof. exact (fun h => conj (proj1 (wall_of_its_fields (hwall h))) (replace_nothing h)). Qed.

Theorem C20_date_time_split : forall d,
  wall (dt_date d) + dt_time d = wall d /\ 0 <= dt_time d < US_DAY /\
  wall (dt_date d) mod US_DAY = 0 /\ off (dt_date d) = off d.
Proof. exact date_time_split. Qed.

(* ---- timespan algebra ------------------------------------------------------------ *)
(* timespan * integer is exact in either order; (t * k) / k = t: dividing a multiple by the
   integer k <> 0 admits exactly one result, t (for |t| < 2^50 us, where the float quotient
   the code goes through is exact); division by zero is ZeroDivisionError *)
Theorem C20_timespan_scale : forall t k,
  (eval (OpTsMul t (NInt k)) = mk_ts (t * k) /\ eval (OpTsMulR (NInt k) t) = mk_ts (t * k) /\
   eval (OpTsOp TMulInt t k) = mk_ts (t * k)) /\
  (k <> 0 -> Z.abs t < 1125899906842624 ->
   exists n d, eval (OpTsDiv (t * k) (NInt k)) = VTsNear n d /\ (forall r, ts_near r n d = true <-> r = t)) /\
  (eval (OpTsDiv t (NInt 0)) = VErr ZeroDiv /\ forall d, eval (OpTsDiv t (NFloat 0 d)) = VErr ZeroDiv).
Proof. exact (fun t k => conj (scale_by_integer t k) (conj (scale_then_divide t k) (divide_by_zero t))). Qed.

(* timespan(...) takes integer components of ANY magnitude (nothing is word-sized): the result is the
   sum of the components whenever that sum is a timedelta (-999999999 days <= t < 10^9 days), else a
   range error; every timespan x in that range round-trips: timespan(microseconds => x.microseconds) = x *)
Theorem C20_timespan_any_magnitude : forall d h m s ms us,
  eval (OpTimespan d h m s ms us) =
    (if ts_in_range (timespan_of d h m s ms us) then VTs (timespan_of d h m s ms us) else VErr RangeErr) /\
  (forall t, ts_in_range t = true <-> - 999999999 * 86400000000 <= t < 1000000000 * 86400000000) /\
  (forall t, ts_in_range t = true ->
     eval (OpTimespan 0 0 0 0 0 t) = VTs t /\ eval (OpUnit UMicroseconds t) = VInt t).
Proof. exact timespan_guard. Qed.

(* scaling by any number: n * t = t * n; the result is the timespan nearest the exact rational
   t * n resp. t / n (window: half a microsecond + 2^-51 relative) or a range error *)
Theorem C20_timespan_scale_rational : forall t x,
  eval (OpTsMulR x t) = eval (OpTsMul t x) /\
  (forall n d v, x = NFloat n d -> eval (OpTsMul t x) = v -> v = VErr RangeErr \/ v = VTsNear (t * n) d) /\
  (forall n d, eval (OpTsDiv t x) = VTsNear n d ->
     match x with
     | NInt k => k <> 0 /\ (n # d == (t # 1) / (k # 1))%Q
     | NFloat fn fd => fn <> 0 /\ (n # d == (t # 1) / (fn # fd))%Q
     end).
Proof.
  exact (fun t x => conj (scale_commutes t x)
          (conj (fun n d v E => match eq_sym E in _ = x' return eval (OpTsMul t x') = v -> _ with
                                | eq_refl => scale_by_float t n d v end)
                (divide_by_number t x))).
Qed.

(* timespan / timespan is the ratio of the microsecond counts; (t * k) / t = k *)
Theorem C20_timespan_ratio : forall a b,
  (b <> 0 -> exists n d, eval (OpTsOp TDivTs a b) = VRat n d /\ ((n # d) * (b # 1) == (a # 1))%Q) /\
  (a <> 0 -> exists n d, eval (OpTsOp TDivTs (a * b) a) = VRat n d /\ (n # d == b # 1)%Q) /\
  eval (OpTsOp TDivTs a 0) = VErr ZeroDiv.
Proof. exact (fun a b => conj (ratio a b) (conj (ratio_of_multiple a b) (ratio_by_zero a))). Qed.

(* ordering of timespans is that of the microsecond counts: a total order, invariant under adding
   a timespan and under scaling by a positive integer, and the order of the instants reached from
   any datetime; unary minus is the additive inverse and d - t = d + (-t) *)
Theorem C20_timespan_order : forall c a b,
  (eval (OpTsCmp c a b) = VBool (z_cmp c a b) /\
   (forall x, z_cmp c (a + x) (b + x) = z_cmp c a b) /\
   (forall k, 0 < k -> z_cmp c (a * k) (b * k) = z_cmp c a b) /\
   (forall d, dt_cmp c (dt_add d a) (dt_add d b) = z_cmp c a b)) /\
  ((z_cmp Lt a b = true /\ z_cmp Eq a b = false /\ z_cmp Gt a b = false \/
    z_cmp Lt a b = false /\ z_cmp Eq a b = true /\ z_cmp Gt a b = false \/
    z_cmp Lt a b = false /\ z_cmp Eq a b = false /\ z_cmp Gt a b = true) /\
   z_cmp Le a b = (z_cmp Lt a b || z_cmp Eq a b) /\ z_cmp Ge a b = (z_cmp Gt a b || z_cmp Eq a b) /\
   z_cmp Ne a b = negb (z_cmp Eq a b) /\ z_cmp Gt a b = z_cmp Lt b a /\ z_cmp Ge a b = z_cmp Le b a /\
   (z_cmp Eq a b = true <-> a = b) /\ (z_cmp Lt a b = true <-> a < b)) /\
  (eval (OpTsOp TNeg a b) = mk_ts (- a) /\ eval (OpTsOp TPos a b) = VTs a /\ - - a = a /\ a + - a = 0 /\
   (forall d, dt_add (dt_add d a) (- a) = d /\ dt_sub_ts d a = dt_add d (- a))).
Proof. exact (fun c a b => conj (span_order c a b) (conj (span_order_total a b) (negation a b))). Qed.

(* replace(offset => o) keeps the wall reading and moves the instant by the offset difference;
   replace(fields...) is datetime(...) of the replaced and the kept fields *)
Theorem C20_replace : forall h ry rm rd rh rmi rs rus ro,
  (valid_hdt h = true ->
   exists x, eval (OpReplace h None None None None None None None ro) = VDt x /\
     wall x = wall (conv h) /\ off x = keep ro (off (conv h)) /\
     instant x = instant (conv h) - (keep ro (off (conv h)) - off (conv h))) /\
  (let w := wall (conv h) in
   eval (OpReplace h ry rm rd rh rmi rs rus ro) =
   eval (OpBuild (keep ry (dt_field FYear w)) (keep rm (dt_field FMonth w)) (keep rd (dt_field FDay w))
                 (keep rh (dt_field FHour w)) (keep rmi (dt_field FMinute w)) (keep rs (dt_field FSecond w))
                 (keep rus (dt_field FMicrosecond w)) (keep ro (off (conv h))))).
Proof. exact (fun h ry rm rd rh rmi rs rus ro => conj (replace_offset h ro) (replace_fields h ry rm rd rh rmi rs rus ro)). Qed.

(* d.date + d.time = d, d - d.date = d.time, d.date is midnight of the same day and in range *)
Theorem C20_date_plus_time : forall h, valid_hdt h = true ->
  eval (OpDate h) = VDt (dt_date (conv h)) /\ eval (OpTime h) = VTs (dt_time (conv h)) /\
  eval (OpAdd (Aware (dt_date (conv h))) (dt_time (conv h))) = VDt (conv h) /\
  eval (OpDiff h (Aware (dt_date (conv h)))) = VTs (dt_time (conv h)) /\
  eval (OpField FHour (Aware (dt_date (conv h)))) = VInt 0 /\
  in_range (wall (dt_date (conv h))) = true.
Proof. exact date_plus_time. Qed.

(* ISO-8601 text YYYY-MM-DDTHH:MM:SS.ffffff(+|-)HH:MM: parsing the formatted text of ANY valid
   datetime with a whole-minute offset gives that datetime back (reading AND offset); the text
   always has the 32 characters of the shape; and the same through the calls, naive = UTC *)
Theorem C20_iso_roundtrip : forall d,
  (valid_adt d = true -> off d mod 60000000 = 0 -> iso_parse (iso_format d) = Some (VDt d)) /\
  List.length (iso_format d) = 32%nat /\
  (forall h s, valid_hdt h = true -> off (conv h) mod 60000000 = 0 ->
     eval (OpFormatIso h) = VStr s -> eval (OpParseIso s) = VDt (conv h)).
Proof. exact (fun d => conj (parse_format d) (conj (format_length d) parse_of_format_call)). Qed.

(* what "float result rounds this rational" means in the correspondence check *)
Theorem C20_float_tolerance : forall fn fd n d, float_close fn fd n d = true ->
  (Qabs.Qabs ((fn # fd) - (n # d)) * inject_Z 2251799813685248 <= Qabs.Qabs (n # d))%Q.
Proof. exact float_close_sound. Qed.

(* ---- documentation of repaired findings (about the code BEFORE the fix) -------- *)
(* F13: utc = dt - dt.utcoffset() kept the zone, so utc/timestamp applied the offset
   twice: wrong for EVERY non-zero offset, right at offset zero (all the tests use) *)
Theorem C20_historic_refuted :
  (exists s o, timestamp_historic (dt_of_timestamp s o) <> s /\
               y_datetime_of_timestamp s o = VDt (dt_of_timestamp s o)) /\
  (exists d, valid_adt d = true /\ instant (utc_historic d) <> instant d /\ offset (utc_historic d) <> 0) /\
  (forall d, off d <> 0 -> instant (utc_historic d) <> instant d /\ timestamp_historic d <> timestamp d /\
                           timestamp_historic d = timestamp d - off d) /\
  (forall d, off d = 0 -> utc_historic d = utc d /\ timestamp_historic d = timestamp d).
Proof.
  split; [exists 1000000000000, 10800000000; split; [vm_compute; discriminate | reflexivity]|].
  split; [exists {| wall := EPOCH; off := 10800000000 |}; repeat split; vm_compute; discriminate|].
  exact (conj historic_wrong_everywhere historic_right_at_zero).
Qed.

(* F14 / F17: with `timestamp` declared with the bare type and `=` untyped, a naive host
   datetime is NOT treated as UTC: .timestamp is a TypeError and `=` is false although
   `<=` and `>=` both hold *)
Theorem C20_naive_is_utc_historic_refuted :
  exists w, in_range w = true /\
    eval_with historic_decls (OpTimestamp (Naive w)) = VErr TypeErr /\
    eval_with historic_decls (OpTimestamp (as_utc (Naive w))) = VRat (w - EPOCH) 1000000 /\
    eval_with historic_decls (OpCmp Eq (Naive w) (as_utc (Naive w))) = VBool false /\
    eval_with historic_decls (OpCmp Le (Naive w) (as_utc (Naive w))) = VBool true /\
    eval_with historic_decls (OpCmp Ge (Naive w) (as_utc (Naive w))) = VBool true.
Proof. exists 63713476800000000. vm_compute. repeat split. Qed.

(* tie to the code by regeneration (Gen/DateTimeDecls.v is rebuilt from the live yaql objects on
   every run): the declarations the model evaluates with are the ones in the code, and every
   function whose result depends on the zone declares its datetime parameters with the
   naive -> UTC conversion (the wall-clock field properties and .offset need none) *)
Definition zone_free (name : list Z) : bool :=
  existsb (fun n => str_eqb name (map Z.of_nat (map Ascii.nat_of_ascii (String.list_ascii_of_string n))))
    ["#property#year"; "#property#month"; "#property#day"; "#property#hour"; "#property#minute";
     "#property#second"; "#property#microsecond"; "#property#weekday"; "#property#offset"]%string.
Example C20_declarations :
  gen_decls = repaired_decls /\
  forallb (fun r => snd r || zone_free (fst (fst r))) dt_params = true /\
  (20 <=? List.length dt_params)%nat = true.
Proof. vm_compute. repeat split. Qed.

(* non-vacuity: the documented example datetime(1000000, timespan(hours => 3)) *)
Example C20_example :
  let d := dt_of_timestamp 1000000000000 10800000000 in
  eval (OpFromTimestamp 1000000000000 10800000000) = VDt d /\
  valid_adt d = true /\ in_range (instant d) = true /\
  eval (OpTimestamp (Aware d)) = VRat 1000000000000 1000000 /\
  eval (OpUtc (Aware d)) = VDt {| wall := EPOCH + 1000000000000; off := 0 |} /\
  eval (OpCmp Eq (Aware d) (Naive (EPOCH + 1000000000000))) = VBool true /\
  eval (OpField FHour (Aware d)) = VInt 16 /\ eval (OpField FDay (Aware d)) = VInt 12 /\
  eval (OpBuild 1970 1 12 16 46 40 0 10800000000) = VDt d /\ eval (OpBuild 1970 2 29 0 0 0 0 0) = VErr RangeErr /\
  eval (OpAdd (Aware {| wall := MAXWALL - 1; off := 0 |}) 1) = VErr RangeErr /\
  eval (OpFormatIso (Aware d)) = VStr [49;57;55;48;45;48;49;45;49;50;84;49;54;58;52;54;58;52;48;46;48;48;48;48;48;48;43;48;51;58;48;48] /\
  eval (OpParseIso [49;57;55;48;45;48;49;45;49;50;84;49;54;58;52;54;58;52;48;43;48;51;58;48;48]) = VDt d /\
  eval (OpParseIso [50;48;50;48;45;48;50;45;51;48;84;48;48;58;48;48;58;48;48;90]) = VErr RangeErr /\
  timestamp_historic d = 989200000000.
Proof. vm_compute. repeat split. Qed.

Print Assumptions C20_timestamp_roundtrip.
Print Assumptions C20_datetime_of_timestamp_roundtrip.
Print Assumptions C20_utc_same_instant.
Print Assumptions C20_add_sub.
Print Assumptions C20_order_is_instant_order.
Print Assumptions C20_units.
Print Assumptions C20_naive_is_utc.
Print Assumptions C20_historic_refuted.
Print Assumptions C20_civil_roundtrip.
Print Assumptions C20_fields_determine_reading.
Print Assumptions C20_civil_inverse.
Print Assumptions C20_fields_roundtrip.
Print Assumptions C20_timespan_scale.
Print Assumptions C20_timespan_any_magnitude.
Print Assumptions C20_timespan_order.
Print Assumptions C20_replace.
Print Assumptions C20_date_plus_time.
Print Assumptions C20_iso_roundtrip.
