(* C11 - Arguments are evaluated once, in order; lazy ones only on demand.
   Statements about the reference interpreter Model/Eval.v, whose tick log is compared with the
   log written by a probe function registered in the real context (harness/props/c11.py). *)
From Coq Require Import List ZArith Bool Arith.
From YV Require Import Common.Corr Model.Eval Lemmas.EvalFrame Lemmas.EvalScope.
Import ListNotations.

(* Eager arguments: for ANY number n of arguments, each is evaluated exactly once, left to right,
   and all of them before the body of the callee runs (the body is invoked on a state whose log
   already holds exactly the argument probes, in order). *)
Theorem C11_call_args_once_in_order :
  forall f s c name body cap ids,
    lookup_func (heap s) c name = Some (body, cap) ->
    eval (S (S (S f))) s c (EUser name (map tick_const ids) [])
    = invoke (eval (S (S f))) {| heap := heap s; log := log s ++ ids |} body cap (map (fun _ => VNull) ids) [].
Proof. exact call_args_once_in_order. Qed.

Theorem C11_list_args_once_in_order :
  forall f s c ids,
    eval (S (S (S f))) s c (EList (map tick_const ids))
    = ({| heap := heap s; log := log s ++ ids |}, Ok (VList (map (fun _ => VNull) ids))).
Proof. exact list_args_once_in_order. Qed.

(* The log only grows: nothing evaluated later can erase or reorder earlier probes. *)
Theorem C11_log_monotone :
  forall f s c e s' r, eval f s c e = (s', r) -> firstn (length (log s)) (log s') = log s.
Proof. intros f s c e s' r H. apply ext_log_prefix. exact (eval_ext f s c e s' r H). Qed.

(* Short circuits: the unselected operand is NOT evaluated - the state (heap and log) after the
   whole expression is the state after the deciding operand. *)
Theorem C11_and_short :
  forall f s c a b s1 v, eval f s c a = (s1, Ok v) -> truthy v = Ok false ->
    eval (S f) s c (EBin OAnd a b) = (s1, Ok v).
Proof. exact and_short. Qed.

Theorem C11_and_long :
  forall f s c a b s1 v, eval f s c a = (s1, Ok v) -> truthy v = Ok true ->
    eval (S f) s c (EBin OAnd a b) = eval f s1 c b.
Proof. exact and_long. Qed.

Theorem C11_or_short :
  forall f s c a b s1 v, eval f s c a = (s1, Ok v) -> truthy v = Ok true ->
    eval (S f) s c (EBin OOr a b) = (s1, Ok v).
Proof. exact or_short. Qed.

Theorem C11_or_long :
  forall f s c a b s1 v, eval f s c a = (s1, Ok v) -> truthy v = Ok false ->
    eval (S f) s c (EBin OOr a b) = eval f s1 c b.
Proof. exact or_long. Qed.

Theorem C11_elvis_null :
  forall f s c a name args s1, eval f s c a = (s1, Ok VNull) ->
    eval (S f) s c (EElvis a name args) = (s1, Ok VNull).
Proof. exact elvis_null. Qed.

Theorem C11_switch_first_true :
  forall f s c ce ve rest s1 v, eval f s c ce = (s1, Ok v) -> truthy v = Ok true ->
    eval (S f) s c (ESwitch ((ce, ve) :: rest)) = eval f s1 c ve.
Proof. exact switch_first_true. Qed.

Theorem C11_switch_skip_false :
  forall f s c ce ve rest s1 v, eval f s c ce = (s1, Ok v) -> truthy v = Ok false ->
    eval (S f) s c (ESwitch ((ce, ve) :: rest)) = eval (S f) s1 c (ESwitch rest).
Proof. exact switch_skip_false. Qed.

Theorem C11_coalesce_first_nonnull :
  forall f s c a rest s1 v, eval f s c a = (s1, Ok v) -> v <> VNull ->
    eval (S f) s c (ECoalesce (a :: rest)) = (s1, Ok v).
Proof. exact coalesce_first_nonnull. Qed.

Theorem C11_coalesce_skip_null :
  forall f s c a rest s1, eval f s c a = (s1, Ok VNull) ->
    eval (S f) s c (ECoalesce (a :: rest)) = eval (S f) s1 c (ECoalesce rest).
Proof. exact coalesce_skip_null. Qed.

(* Per-element lambdas run once per element CONSUMED: draining  src.select(tick(id, $))  logs id exactly once per
   element of src (for a source of ANY length) and yields the elements; asking only for the first result applies the
   lambda exactly ONCE, however long the source is. *)
Theorem C11_per_element_select :
  forall f cap id src s,
    exists h', force (eval (S (S f))) s src [LMap (tick_body id) cap]
               = ({| heap := heap s ++ h'; log := log s ++ repeat id (length src) |}, Ok src).
Proof. intros. apply force_select_ticks. Qed.

Theorem C11_first_consumes_one :
  forall f cap id x src s,
    exists h', force_first (eval (S (S f))) s (x :: src) [LMap (tick_body id) cap]
               = ({| heap := heap s ++ h'; log := log s ++ [id] |}, Ok (Some x)).
Proof. intros. apply force_first_select_ticks. Qed.

(* non-vacuity / the per-element rule on a concrete lazy pipeline:
   [1,2,3].select(tick(1,$)).where(tick(2,$ > 1)).first() consumes element 1 (ticks 1,2), then
   element 2 (ticks 1,2) and stops: element 3 is never touched. *)
Example C11_per_element_example :
  let sel := [115;101;108;101;99;116]%Z in let whr := [119;104;101;114;101]%Z in let fst_ := [102;105;114;115;116]%Z in
  run 50 VNull
    (EMeth (EMeth (EMeth (EList [EConst (CInt 1); EConst (CInt 2); EConst (CInt 3)]) sel [ETick 1 (EVar [])])
                  whr [ETick 2 (EBin OGt (EVar []) (EConst (CInt 1)))]) fst_ [])
  = ([1; 2; 1; 2]%Z, Ok (VInt 2)).
Proof. vm_compute. reflexivity. Qed.

Example C11_short_circuit_example :
  run 50 VNull (EBin OAnd (ETick 1 (EConst (CBool false))) (ETick 2 (EConst (CInt 7)))) = ([1%Z], Ok (VBool false)).
Proof. vm_compute. reflexivity. Qed.

(* ---- "... regardless of how many overloads are considered" -------------------------------------------------------
   The resolution model (Model/Resolution.v: the loops of runner.choose_overload over any chain of layers and any
   family of overloads; it is the model of C05/C06/C12 and is tied to the runner by their correspondence) logs the
   evaluation of every argument.  Whatever the layers contain - any number of overloads, in any number of layers, with
   any laziness signatures - the evaluation log of a call is: nothing, when no overload can be called with the syntax
   used or the candidates disagree about laziness; otherwise the eager non-constant arguments of the call, positional
   ones in call order and then the keyword ones - each AT MOST once, and exactly the ones the agreed signature marks
   eager.  The number of candidates and the layer in which the winner is found do not occur in the right-hand side. *)
From YV Require Model.Resolution Lemmas.ResolutionSpec.

Theorem C11_once_whatever_overloads : forall (sub : Resolution.tag -> Resolution.tag -> bool) layers args pykw,
  snd (Resolution.choose_overload sub layers args pykw) =
  match ResolutionSpec.phase1 sub layers args pykw with
  | None => []
  | Some (pos, kw, sg) => ResolutionSpec.eager_ids (fst sg) pos ++ ResolutionSpec.eager_ids_kw (snd sg) kw
  end.
Proof. exact ResolutionSpec.eval_once. Qed.

Theorem C11_once_each : forall pos kw (sg : list bool * list bool),
  NoDup (flat_map ResolutionSpec.arg_ids pos ++ flat_map (fun kv => ResolutionSpec.arg_ids (snd kv)) kw) ->
  NoDup (ResolutionSpec.eager_ids (fst sg) pos ++ ResolutionSpec.eager_ids_kw (snd sg) kw).
Proof. exact ResolutionSpec.eval_once_nodup. Qed.
