(* C17 - Context trees resolve variables and functions layer by layer.
   Property theorems only; every proof is `exact <lemma>`.  The model is
   Model/Contexts.v (tied to yaql/language/contexts.py by the per-step
   correspondence check of harness/props/c17.py). *)
From Coq Require Import List ZArith Bool Arith.
From YV Require Import Common.Corr Model.Contexts Lemmas.ContextsSpec Lemmas.ContextsHistory.
Import ListNotations.

(* reading a variable: the nearest flattened layer that defines it, else null (None) *)
Theorem C17_get_data : forall s c n, get_data s c n = layers_get s n (flatten c).
Proof. exact (fun s c n => get_data_spec s n c). Qed.

(* membership and key listing reflect the own layer only *)
Theorem C17_own_layer : forall s c n k,
  contains s c n = is_some (layer_get s n (sources c)) /\
  (In k (keys s c) <-> exists p, In p (sources c) /\ In k (map fst (pdata (sget s p)))).
Proof.
  exact (fun s c n k => conj (eq_trans (contains_own s n c) (f_equal is_some (get_own_spec s n c))) (keys_spec s c k)).
Qed.

(* function collection: the layers' overloads nearest first, stopping after an
   exclusive layer, empty layers dropped; a layer's overloads are the union over
   the plain contexts that make up the layer, exclusive if any of them is *)
Theorem C17_collect : forall s c n,
  collect_functions s c n = collect_spec (map (fun c' => get_functions s c' n) (chain c)).
Proof. exact (fun s c n => collect_functions_spec s n c). Qed.

(* with a predicate (runner.call always passes one: function vs method): the predicate filters every layer's
   overloads, and an exclusive layer stops the walk even if the predicate leaves nothing of it *)
Theorem C17_collect_pred : forall pred s c n,
  collect_pred pred s c n
  = collect_spec (map (fun c' => (filter pred (fst (get_functions s c' n)), snd (get_functions s c' n))) (chain c)).
Proof. exact (fun pred s c n => collect_pred_spec pred s n c). Qed.

Theorem C17_layer_functions : forall s c n f,
  (In f (fst (get_functions s c n)) <-> exists p, In p (sources c) /\ plain_has_fn s n f p) /\
  snd (get_functions s c n) = existsb (fun p => smem (rstrip_us n) (pexcl (sget s p))) (sources c).
Proof. exact (fun s c n f => conj (get_functions_spec s n c f) (get_functions_excl s n c)). Qed.

(* a multi-context is the layer-wise merge of its members *)
Theorem C17_multi_merge : forall ms, ms <> [] ->
  flatten (new_multi ms) = zipmerge (max_depth ms) (map flatten ms).
Proof. exact new_multi_flatten. Qed.

(* a linked context is its linked chain followed by its own parent chain *)
Theorem C17_linked_append : forall par l,
  flatten (new_linked par l) = flatten l ++ match par with Some p => flatten p | None => [] end.
Proof. exact new_linked_flatten. Qed.

Theorem C17_child : forall s c, flatten (snd (create_child s c)) = [length s] :: flatten c.
Proof. exact create_child_flatten. Qed.

(* `$`, `$1` and the empty name are one variable; `x` and `$x` are one variable *)
Theorem C17_dollar : forall n,
  normalize [dollar] = normalize [dollar; 49%Z] /\ normalize [] = normalize [dollar] /\
  normalize (dollar :: n) = normalize (match n with c :: _ => if Z.eqb c dollar then dollar :: n else n | [] => [] end).
Proof.
  intro n. split; [reflexivity|]. split; [reflexivity|].
  destruct n as [|c r]; [reflexivity|]. unfold normalize at 2.
  destruct (Z.eqb c dollar) eqn:E; [reflexivity|]. cbn [normalize]. rewrite E. reflexivity.
Qed.

(* assignment: visible through the context it was made through, invisible to every
   other (plain context, name) pair, and function tables untouched *)
Theorem C17_set : forall s c n v, wfo c -> Forall (fun p => p < length s) (sources c) ->
  get_own (fst (set_data s c n v)) c n = Some v /\
  (forall q n', hd_error (sources c) <> Some q \/ normalize n' <> normalize n ->
                plain_get (fst (set_data s c n v)) n' q = plain_get s n' q) /\
  (forall q, pfuncs (sget (fst (set_data s c n v)) q) = pfuncs (sget s q) /\
             pexcl (sget (fst (set_data s c n v)) q) = pexcl (sget s q)).
Proof.
  exact (fun s c n v W B => conj (set_then_get s c n v _ W B eq_refl)
          (conj (fun q n' H => set_frame s c n v q n' W H) (fun q => set_keeps_functions s c n v q W))).
Qed.

(* deletion: succeeds iff the own layer defines the name, then removes it from the
   whole own layer; touches no other name, no other plain context, no function *)
Theorem C17_del : forall n c, del_ok n c.
Proof. exact del_ok_all. Qed.

(* every state reachable by ANY history of operations satisfies the
   well-formedness premises of C17_set (C17_get_data .. C17_del need none) *)
Theorem C17_history : forall ops,
  Forall (fun c => wfo c /\ Forall (fun p => p < length (st (run_state init_state ops))) (sources c))
         (env (run_state init_state ops)).
Proof.
  exact (fun ops => Forall_impl _ (fun c G => conj (good_wfo _ c G) (good_sources _ c G)) (run_Inv ops init_state Inv_init)).
Qed.

(* non-vacuity: a concrete mixed forest, and the spec visibly at work on it *)
Example C17_example :
  let ops := [ONewPlain None; OSet 0 [120%Z] 1%Z; OChild 0; OSet 1 [121%Z] 2%Z; ONewPlain None; OSet 2 [120%Z] 3%Z;
              ONewMulti [1; 2]; ONewLinked (Some 2) 1; OSet 3 [122%Z] 4%Z; ODel 3 [121%Z]] in
  let x := run_state init_state ops in
  map flatten (env x) = [[[0]]; [[1]; [0]]; [[2]]; [[1; 2]; [0]]; [[1]; [0]; [2]]]%nat
  /\ get_data (st x) (nth 3 (env x) (CPlain 0 None)) [120%Z] = Some 3%Z
  /\ get_data (st x) (nth 4 (env x) (CPlain 0 None)) [120%Z] = Some 1%Z
  /\ get_data (st x) (nth 4 (env x) (CPlain 0 None)) [122%Z] = Some 4%Z
  /\ get_data (st x) (nth 1 (env x) (CPlain 0 None)) [121%Z] = None.
Proof. vm_compute. repeat split. Qed.

Print Assumptions C17_get_data.
Print Assumptions C17_own_layer.
Print Assumptions C17_collect.
Print Assumptions C17_layer_functions.
Print Assumptions C17_multi_merge.
Print Assumptions C17_linked_append.
Print Assumptions C17_child.
Print Assumptions C17_dollar.
Print Assumptions C17_set.
Print Assumptions C17_del.
Print Assumptions C17_history.

(* ---- child contexts: transparency and shadowing (what `let`, lambda parameters and `def` rely on) --------------- *)
From YV Require Import Lemmas.ContextsChild.

(* a fresh child reads exactly what its receiver reads - every name, every class of receiver - and creating it
   changes what NO context reads (the store only grows by one empty plain context) *)
Theorem C17_child_transparent : forall s c d n,
  get_data (fst (create_child s c)) (snd (create_child s c)) n = get_data s c n
  /\ get_data (fst (create_child s c)) d n = get_data s d n.
Proof. exact (fun s c d n => conj (child_transparent s c n) (child_keeps_others s c d n)). Qed.

(* an assignment made through a fresh child shadows that one name for the child only: the child reads the new
   value, every other name through the child reads as the receiver did, and EVERY context built over the old store
   (the receiver, its ancestors, siblings, multi/linked contexts over them) reads every name as before *)
Theorem C17_child_shadow : forall s c n v, good (length s) c ->
  let s1 := fst (create_child s c) in
  let ch := snd (create_child s c) in
  let s2 := fst (set_data s1 ch n v) in
  get_data s2 ch n = Some v
  /\ (forall d n', good (length s) d -> get_data s2 d n' = get_data s d n')
  /\ (forall n', normalize n' <> normalize n -> get_data s2 ch n' = get_data s c n').
Proof. exact child_shadow. Qed.

(* the same for functions: a fresh child offers exactly the overload layers its receiver offers (its own empty layer
   is dropped, it is not exclusive), and creating it changes what no context offers *)
Theorem C17_child_transparent_functions : forall s c d n,
  collect_functions (fst (create_child s c)) (snd (create_child s c)) n = collect_functions s c n
  /\ collect_functions (fst (create_child s c)) d n = collect_functions s d n.
Proof. exact (fun s c d n => conj (child_transparent_functions s c n) (child_keeps_others_functions s c d n)). Qed.

(* `def` through a fresh child: the registered definition is the child's nearest layer for its own name (and, when
   exclusive, the only one); every other name through the child, and EVERY name through every context built over the
   old store, is offered as before; no variable of any plain context changes *)
Theorem C17_child_register : forall s c f ex, good (length s) c ->
  let s1 := fst (create_child s c) in
  let ch := snd (create_child s c) in
  let s2 := fst (register s1 ch f ex) in
  (forall n, rstrip_us n = fst f ->
     collect_functions s2 ch n = [f] :: (if ex then [] else collect_functions s c n))
  /\ (forall n, rstrip_us n <> fst f -> collect_functions s2 ch n = collect_functions s c n)
  /\ (forall d n, good (length s) d -> collect_functions s2 d n = collect_functions s d n)
  /\ (forall p, pdata (sget s2 p) = pdata (sget s p)).
Proof. exact child_register. Qed.

(* delete_function(f) through any context: exactly the plain contexts of its own layer lose f (and the exclusive
   mark of f's name); every other plain context - ancestors included - keeps everything, and no variable changes *)
Theorem C17_delete_function : forall f c s q,
  sget (delete_function s c f) q
  = if existsb (Nat.eqb q) (sources c) then plain_delete_function (sget s q) f else sget s q.
Proof. exact delete_function_sget. Qed.

(* register_function(f, exclusive) through any context writes into the FIRST plain context of its own layer only:
   f joins that context's definitions (once), the exclusive mark of f's name is added iff asked for, variables and
   every other plain context are untouched *)
Theorem C17_register : forall s c f ex, wfo c -> Forall (fun p => p < length s) (sources c) ->
  exists p r, sources c = p :: r
    /\ (forall q, q <> p -> sget (fst (register s c f ex)) q = sget s q)
    /\ pdata (sget (fst (register s c f ex)) p) = pdata (sget s p)
    /\ (forall g, In g (pfuncs (sget (fst (register s c f ex)) p)) <-> g = f \/ In g (pfuncs (sget s p)))
    /\ (forall k, In k (pexcl (sget (fst (register s c f ex)) p)) <-> (ex = true /\ k = fst f) \/ In k (pexcl (sget s p))).
Proof. exact register_spec. Qed.

(* multi-contexts, read-level corollaries of C17_multi_merge: a multi-context of ONE member reads as the member; the
   first member whose OWN layer defines a name wins whatever the members' ancestors define (layer-wise, not depth-first:
   seeds C17_1 / C04_7); a member whose own layer is silent is skipped in the first layer *)
Theorem C17_multi_single : forall s c n, get_data s (new_multi [c]) n = get_data s c n.
Proof. exact multi_single. Qed.

Theorem C17_multi_own_layers_first : forall s m r n v,
  get_own s m n = Some v -> get_data s (new_multi (m :: r)) n = Some v.
Proof. exact multi_own_layers_first. Qed.

Theorem C17_multi_skips_silent_member : forall s m r n,
  get_own s m n = None -> r <> [] ->
  layer_get s n (hd [] (flatten (new_multi (m :: r)))) = layer_get s n (hd [] (flatten (new_multi r))).
Proof. exact multi_skips_silent_member. Qed.

(* linked contexts, read-level corollary of C17_linked_append: the linked context's WHOLE chain (ancestors included:
   seed C17_8) is asked first; only when it is silent everywhere is the own parent chain asked *)
Theorem C17_linked_read : forall s par l n,
  get_data s (new_linked par l) n
  = match get_data s l n with
    | Some v => Some v
    | None => match par with Some p => get_data s p n | None => None end
    end.
Proof. exact linked_read. Qed.

(* the premise of C17_child_shadow holds for every context of every reachable state *)
Theorem C17_history_good : forall ops,
  Forall (good (length (st (run_state init_state ops)))) (env (run_state init_state ops)).
Proof. exact (fun ops => run_Inv ops init_state Inv_init). Qed.

(* ... so shadowing through a child is a frame in EVERY reachable state: whatever history built the forest, an
   assignment through a fresh child of any of its contexts changes no name for any context of the forest *)
Theorem C17_reachable_child_shadow : forall ops i c n v,
  let x := run_state init_state ops in
  nth_error (env x) i = Some c ->
  let s1 := fst (create_child (st x) c) in
  let ch := snd (create_child (st x) c) in
  let s2 := fst (set_data s1 ch n v) in
  get_data s2 ch n = Some v
  /\ (forall j d n', nth_error (env x) j = Some d -> get_data s2 d n' = get_data (st x) d n')
  /\ (forall n', normalize n' <> normalize n -> get_data s2 ch n' = get_data (st x) c n').
Proof.
  intros ops i c n v x Hc s1 ch s2.
  pose proof (run_Inv ops init_state Inv_init) as HI. fold x in HI.
  destruct (child_shadow (st x) c n v (nth_error_good _ _ _ _ HI Hc)) as [A [B C]].
  split; [exact A|]. split; [|exact C].
  intros j d n' Hd. apply B. exact (nth_error_good _ _ _ _ HI Hd).
Qed.

(* non-vacuity: shadowing `x` through a child of a multi-context over two roots *)
Example C17_child_example :
  let ops := [ONewPlain None; OSet 0 [120%Z] 1%Z; ONewPlain None; OSet 1 [121%Z] 2%Z; ONewMulti [0; 1]; OChild 2;
              OSet 3 [120%Z] 9%Z] in
  let x := run_state init_state ops in
  let g i n := get_data (st x) (nth i (env x) (CPlain 0 None)) n in
  g 3 [120%Z] = Some 9%Z /\ g 3 [121%Z] = Some 2%Z /\ g 2 [120%Z] = Some 1%Z /\ g 0 [120%Z] = Some 1%Z.
Proof. vm_compute. repeat split. Qed.

Example C17_child_register_example :
  let f k : fdef := ([102%Z], k) in
  let ops := [ONewPlain None; OReg 0 (f 1%Z) false; OChild 0; OReg 1 (f 2%Z) false; OChild 0; OReg 2 (f 3%Z) true] in
  let x := run_state init_state ops in
  let g i := collect_functions (st x) (nth i (env x) (CPlain 0 None)) [102%Z] in
  g 1 = [[f 2%Z]; [f 1%Z]] /\ g 2 = [[f 3%Z]] /\ g 0 = [[f 1%Z]].
Proof. vm_compute. repeat split. Qed.

Print Assumptions C17_child_transparent.
Print Assumptions C17_child_shadow.
Print Assumptions C17_reachable_child_shadow.
Print Assumptions C17_linked_read.
Print Assumptions C17_multi_single.
Print Assumptions C17_multi_own_layers_first.
Print Assumptions C17_multi_skips_silent_member.
Print Assumptions C17_register.
Print Assumptions C17_delete_function.
Print Assumptions C17_child_register.
Print Assumptions C17_child_transparent_functions.
Print Assumptions C17_history_good.

(* ---- convention-aware lookups (use_convention=True) ------------------------------------------------------------ *)
From YV Require Import Model.ContextsConv Lemmas.ContextsConv.

(* the overloads a context tree offers for a name under use_convention=True are those of the plain contexts of its own
   layer, each asked for the name rewritten by ITS OWN convention [cv p]; the conventions of MultiContext /
   LinkedContext objects do not occur *)
Theorem C17_convention_layer_functions : forall cv s c n f,
  In f (fst (get_functions_cv cv s c n))
  <-> exists p, In p (sources c) /\ plain_has_key s (cv p (rstrip_us n)) f p.
Proof. intros; apply get_functions_cv_spec. Qed.

Theorem C17_convention_exclusive : forall cv s c n,
  snd (get_functions_cv cv s c n) = existsb (fun p => smem (cv p (rstrip_us n)) (pexcl (sget s p))) (sources c).
Proof. intros; apply get_functions_cv_excl. Qed.

Theorem C17_convention_collect : forall cv s c n,
  collect_functions_cv cv s c n = collect_spec (map (fun c' => get_functions_cv cv s c' n) (chain c)).
Proof. intros; apply collect_functions_cv_spec. Qed.

Theorem C17_convention_identity : forall s c n,
  get_functions_cv (fun _ k => k) s c n = get_functions s c n
  /\ collect_functions_cv (fun _ k => k) s c n = collect_functions s c n.
Proof. intros s c n. split; [apply get_functions_cv_id|apply collect_functions_cv_id]. Qed.

Theorem C17_convention_only_members_matter : forall cv cv' s c n,
  (forall p, In p (sources c) -> cv p (rstrip_us n) = cv' p (rstrip_us n)) ->
  get_functions_cv cv s c n = get_functions_cv cv' s c n.
Proof. intros cv cv' s c n H; apply get_functions_cv_ext; exact H. Qed.

(* two members with different conventions: "fetch_item" asked of the multi-context finds the camelCase member's
   fetchItem and the python member's fetch_item *)
Example C17_convention_example :
  let s := [ {| pdata := []; pfuncs := [([102;101;116;99;104;73;116;101;109], 1)]; pexcl := [] |};
             {| pdata := []; pfuncs := [([102;101;116;99;104;95;105;116;101;109], 2)]; pexcl := [] |} ]%Z in
  let t := [(0%nat, ([102;101;116;99;104;95;105;116;101;109]%Z, [102;101;116;99;104;73;116;101;109]%Z))] in
  map snd (fst (get_functions_cv (conv_lookup t) s (CMulti [CPlain 0%nat None; CPlain 1%nat None] None)
                  [102;101;116;99;104;95;105;116;101;109]%Z)) = [1; 2]%Z.
Proof. vm_compute. reflexivity. Qed.
