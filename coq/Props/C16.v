(* C16 - Literals denote exactly the values they spell.
   Property theorems only.  Model: Model/Lexer.v (token rules, escape decoder) and
   Model/Literals.v (spellings), tied to yaql/language/lexer.py by Gen/LexFacts.v,
   Gen/CharClass.v and the correspondence check of harness/props/c16.py.
   The theorems hold for every lexer configuration whose quote characters are
   neither word characters nor ignored; the configuration of the current tree is
   one (C16_default_cfg_ok). *)
From Coq Require Import List ZArith Bool Arith QArith.
From YV Require Import Common.Corr Gen.CharClass Gen.LexFacts Model.Lexer Model.Literals
  Lemmas.LexerTotal Lemmas.LiteralsRoundtrip Lemmas.LiteralsTokens Lemmas.LiteralsDecimal.
Import ListNotations.
Open Scope Z_scope.

Theorem C16_default_cfg_ok : forall names,
  (quote_ok (default_cfg names) 39 = true /\ quote_ok (default_cfg names) 34 = true /\
   quote_ok (default_cfg names) 96 = true) /\
  forallb (digit_char (default_cfg names)) (expand d_ranges) = true.
Proof. exact (fun names => conj (default_quotes_ok names) (default_digits_ok names)). Qed.

(* the regexes of the string, number and keyword rules and of the escape decoder are
   the ones the model was written for *)
Theorem C16_regexes_pinned :
  rule_sources = pinned_rule_sources /\ escape_source = pinned_escape_source /\
  lexer_flags = flag_verbose_unicode /\ escape_flags = flag_verbose_unicode.
Proof. repeat split; reflexivity. Qed.

(* EVERY string s: the lexer reads spell s as exactly one QUOTED_STRING token
   spanning the whole text, with value s *)
Theorem C16_sq_roundtrip : forall cfg, quote_ok cfg 39 = true -> forall s,
  lex cfg (spell_sq s) = ([mkTok K_QSTR 0 (length (spell_sq s)) (VText s)], EndOk).
Proof. exact sq_roundtrip. Qed.

Theorem C16_dq_roundtrip : forall cfg, quote_ok cfg 34 = true -> forall s,
  lex cfg (spell_dq s) = ([mkTok K_QSTR 0 (length (spell_dq s)) (VText s)], EndOk).
Proof. exact dq_roundtrip. Qed.

(* the escape table: the ten single-character escapes; \xHH \uHHHH \UHHHHHHHH with
   ASCII hex digits denote that code point and anything else in the payload is an
   error; \N{name} is what the Unicode database says; any other character after a
   backslash leaves the backslash standing *)
Theorem C16_escape_table : forall cfg,
  (map single_escape [92; 39; 34; 97; 98; 102; 110; 114; 116; 118] =
   map Some [92; 39; 34; 7; 8; 12; 10; 13; 9; 11]) /\
  (forall d cp rest, single_escape d = Some cp ->
     decode_escapes cfg (92 :: d :: rest) = option_map (cons cp) (decode_escapes cfg rest)) /\
  (forall letter k payload rest v,
     (letter = 120 /\ k = 2%nat) \/ (letter = 117 /\ k = 4%nat) \/ (letter = 85 /\ k = 8%nat) ->
     length payload = k -> hexnum 0 payload = Some v -> v <= max_code_point ->
     decode_escapes cfg (92 :: letter :: payload ++ rest) = option_map (cons v) (decode_escapes cfg rest)) /\
  (forall letter k payload rest,
     (letter = 120 /\ k = 2%nat) \/ (letter = 117 /\ k = 4%nat) \/ (letter = 85 /\ k = 8%nat) ->
     length payload = k -> no_nl payload = true -> hexnum 0 payload = None ->
     decode_escapes cfg (92 :: letter :: payload ++ rest) = None) /\
  (forall name rest, name <> [] -> forallb (fun c => negb (c =? 125)) name = true ->
     decode_escapes cfg (92 :: 78 :: 123 :: name ++ 125 :: rest) =
     match uname cfg name with
     | Some cp => option_map (cons cp) (decode_escapes cfg rest)
     | None => None
     end) /\
  (forall c rest, is_escape_letter c = false ->
     decode_escapes cfg (92 :: c :: rest) = option_map (cons 92) (decode_escapes cfg (c :: rest))) /\
  decode_escapes cfg [92] = Some [92].
Proof.
  exact (fun cfg => conj eq_refl (conj (single_escapes cfg) (conj (hex_escapes cfg) (conj (hex_escapes_illformed cfg)
          (conj (name_escape cfg) (conj (unknown_escape cfg) (trailing_backslash cfg))))))).
Qed.

(* a verbatim token's value is its body with backslash-backquote replaced by a
   back quote and nothing else changed; undoing the verbatim escaping of ANY string
   gives it back *)
Theorem C16_verbatim_identity : forall cfg,
  (forall body rest, scan_body 96 false (body ++ 96 :: rest) = Some (length body) ->
     m_string cfg 96 true (96 :: body ++ 96 :: rest) = MTok K_QSTR (length body + 2) (VText (unesc_bq body))) /\
  (forall body, has_bsbq body = false -> unesc_bq body = body) /\
  (forall s, unesc_bq (vesc s) = s).
Proof. exact (fun cfg => conj (m_string_verbatim_value cfg) (conj unesc_bq_identity unesc_vesc)). Qed.

(* round-trip for every string in which no maximal run of an ODD number of
   backslashes is immediately followed by a back quote, a newline or the end ... *)
Theorem C16_verbatim_roundtrip_guarded : forall cfg, quote_ok cfg 96 = true -> forall s, vb_ok s = true ->
  lex cfg (spell_verbatim s) = ([mkTok K_QSTR 0 (length (spell_verbatim s)) (VText s)], EndOk).
Proof. exact verbatim_roundtrip. Qed.

(* ... in particular for every string in which no backslash run at all is followed by one of them *)
Theorem C16_verbatim_roundtrip_coarse : forall cfg, quote_ok cfg 96 = true -> forall s, vb_coarse s = true ->
  lex cfg (spell_verbatim s) = ([mkTok K_QSTR 0 (length (spell_verbatim s)) (VText s)], EndOk).
Proof. exact verbatim_roundtrip_coarse. Qed.

(* the full-strength statement (every string has a verbatim spelling) is false in
   the faithful model: the one-character string "\" is denoted by NO back-quoted
   text whatsoever - every candidate is a lexical error, several tokens, or another
   string.  Recorded finding F10. *)
Theorem C16_verbatim_refuted : forall cfg, quote_ok cfg 96 = true ->
  (exists s, lex cfg (spell_verbatim s) <> ([mkTok K_QSTR 0 (length (spell_verbatim s)) (VText s)], EndOk)) /\
  (forall body, lex cfg (96 :: body ++ [96]) <> ([mkTok K_QSTR 0 (length (96 :: body ++ [96])) (VText [92])], EndOk)).
Proof.
  exact (fun cfg Q => conj (ex_intro _ [92] (verbatim_backslash_unspellable cfg Q [92]))
                           (verbatim_backslash_unspellable cfg Q)).
Qed.

(* a digit string (leading zeros allowed, any \d code points) is one NUMBER token
   denoting its positional decimal value *)
Theorem C16_integer : forall cfg ds, ds <> [] -> forallb (digit_char cfg) ds = true ->
  (max_digits cfg <= 0 \/ Z.of_nat (length ds) <= max_digits cfg) ->
  lex cfg ds = ([mkTok K_NUMBER 0 (length ds) (VInt (dec_value cfg 0 ds))], EndOk) /\
  (forall l c, dec_value cfg 0 (l ++ [c]) = dec_value cfg 0 l * 10 + digit_val cfg c) /\
  dec_value cfg 0 [] = 0.
Proof.
  exact (fun cfg ds NE A L => conj (integer_literal cfg ds NE A L) (conj (fun l c => dec_value_app cfg l 0 c) eq_refl)).
Qed.

(* a NUMBER token is a float iff its text contains a dot; float() / int() are handed the token text *)
Theorem C16_number_shape : forall cfg prev s k n v, m_number cfg prev s = MTok k n v ->
  k = K_NUMBER /\
  ((memz 46 (firstn n s) = true /\ v = VFloat (firstn n s)) \/
   (memz 46 (firstn n s) = false /\ v = VInt (dec_value cfg 0 (firstn n s)))).
Proof. exact m_number_shape. Qed.

Lemma C16_wf : forall names, cfg_wfb (default_cfg names) = true.
Proof. intro names. vm_compute. reflexivity. Qed.

(* an identifier-shaped word is one token whose type and value come from
   t_KEYWORD_STRING's tables; in the current tree true/false/null are the constants,
   the operator words are operator tokens, any other word is its own text; a word
   beginning with two underscores is rejected *)
Definition W_true : text := [116; 114; 117; 101].
Definition W_false : text := [102; 97; 108; 115; 101].
Definition W_null : text := [110; 117; 108; 108].
Definition W_and : text := [97; 110; 100].
Definition W_foo : text := [102; 111; 111].

Theorem C16_keywords :
  (forall cfg w k v, word_shaped cfg w = true -> kw_action cfg w (length w) = MTok k (length w) v ->
     lex cfg w = ([mkTok k 0 (length w) v], EndOk)) /\
  (forall names,
     kw_action (default_cfg names) W_true 4 = MTok [84; 82; 85; 69] 4 VTrue /\
     kw_action (default_cfg names) W_false 5 = MTok [70; 65; 76; 83; 69] 5 VFalse /\
     kw_action (default_cfg names) W_null 4 = MTok [78; 85; 76; 76] 4 VNull /\
     (forall w name, assoc w (op_table (default_cfg names)) = Some name ->
        kw_action (default_cfg names) w (length w) = MTok name (length w) (VText w)) /\
     assoc W_and (op_table (default_cfg names)) <> None /\
     (forall w, assoc (A:=text) w operator_table = None -> assoc (A:=text) w keyword_table = None ->
        kw_action (default_cfg names) w (length w) = MTok K_KEYWORD (length w) (VText w))) /\
  (forall names w, forallb (in_ranges w_ranges) w = true ->
     lex (default_cfg names) (95 :: 95 :: w) = ([], EndLexErr 0)).
Proof.
  split; [exact keyword_literal|]. split; [|exact dunder_rejected].
  intro names. split; [reflexivity|]. split; [reflexivity|]. split; [reflexivity|].
  split; [exact (fun w name H => kw_action_operator _ w name _ (C16_wf names) H)|]. split; [discriminate|].
  intros w H1 H2. unfold kw_action. change (op_table (default_cfg names)) with operator_table. rewrite H1.
  change (keywords (default_cfg names)) with keyword_table. rewrite H2. reflexivity.
Qed.

(* a NUMBER token with a dot: the text handed to float() is <digits>.<digits>, and the
   rational it spells is all its digits read as one integer over 10^(digits after the
   dot), i.e. integer part plus fraction.  "The same number as in Python" is thereby
   reduced to float() being the correctly rounded conversion of that rational, which
   the oracle of harness/props/c16.py checks against exact integer division. *)
Theorem C16_decimal_value : forall cfg prev s k n txt, is_d cfg 46 = false ->
  m_number cfg prev s = MTok k n (VFloat txt) ->
  exists ip fp, txt = ip ++ 46 :: fp /\ ip <> [] /\ fp <> [] /\
    forallb (is_d cfg) ip = true /\ forallb (is_d cfg) fp = true /\
    decimal_q cfg txt = Qmake (dec_value cfg 0 (ip ++ fp)) (Z.to_pos (10 ^ Z.of_nat (length fp))) /\
    (decimal_q cfg txt == inject_Z (dec_value cfg 0 ip) + Qmake (dec_value cfg 0 fp) (Z.to_pos (10 ^ Z.of_nat (length fp))))%Q.
Proof. exact decimal_value. Qed.

(* the evaluation route: a statement that is one constant evaluates to the constant's
   value; for EVERY string the two quoted spellings evaluate to it, and for every string
   inside the verbatim guard all three spellings evaluate to the same string *)
Theorem C16_styles_agree : forall cfg,
  quote_ok cfg 39 = true -> quote_ok cfg 34 = true -> quote_ok cfg 96 = true ->
  (forall s, eval_literal cfg (spell_sq s) = Some (VText s) /\ eval_literal cfg (spell_dq s) = Some (VText s)) /\
  (forall s, vb_ok s = true ->
     eval_literal cfg (spell_sq s) = Some (VText s) /\ eval_literal cfg (spell_dq s) = Some (VText s) /\
     eval_literal cfg (spell_verbatim s) = Some (VText s)).
Proof. exact (fun cfg Q1 Q2 Q3 => conj (quoted_styles_agree cfg Q1 Q2) (styles_agree cfg Q1 Q2 Q3)). Qed.

(* a variable reference: `$` followed by word characters of any kind (digits with leading
   zeros, digits of any script, letters) is one DOLLAR token whose value - the name the
   grammar wraps into GetContextValue - is exactly that text *)
Theorem C16_variable_name : forall cfg w, memz 36 (ignore cfg) = false -> forallb (is_w cfg) w = true ->
  lex cfg (36 :: w) = ([mkTok K_DOLLAR 0 (S (length w)) (VText (36 :: w))], EndOk) /\
  literal_obs cfg (36 :: w) = LVar (VText (36 :: w)) \/ is_literal_kind cfg K_DOLLAR = true.
Proof.
  intros cfg w Ig All. destruct (is_literal_kind cfg K_DOLLAR) eqn:E; [right; reflexivity|left].
  split; [exact (dollar_name cfg w Ig All)|]. unfold literal_obs. rewrite (dollar_name cfg w Ig All). cbn [tk_kind tk_val].
  rewrite E. reflexivity.
Qed.

(* ---- the statements are not vacuous ---- *)
(* the dot is not a digit in the current tree (premise of C16_decimal_value) *)
Example dot_is_not_a_digit : is_d (default_cfg (fun _ => None)) 46 = false.
Proof. vm_compute. reflexivity. Qed.

(* 12.50 spells 1250/100 *)
Example decimal_example : decimal_q (default_cfg (fun _ => None)) [49; 50; 46; 53; 48] = Qmake 1250 100.
Proof. vm_compute. reflexivity. Qed.

Definition nonames : text -> option Z := fun _ => None.

(* it's  ->  'it\'s' *)
Example spell_example : spell_sq [105; 116; 39; 115] = [39; 105; 116; 92; 39; 115; 39].
Proof. reflexivity. Qed.

(* the guard of the verbatim theorem: a\b and \\ are inside, \ and \` and \<newline> are outside *)
Example vb_guard_examples :
  vb_ok [97; 92; 98] = true /\ vb_ok [92; 92] = true /\ vb_ok [92; 92; 96] = true /\
  vb_ok [92] = false /\ vb_ok [92; 96] = false /\ vb_ok [92; 10] = false /\ vb_ok [97; 92] = false.
Proof. repeat split. Qed.

(* octal escapes, on the current configuration: \0 \12 \101 \1234 -> chr(0o123) then '4'; \777 -> chr(511) *)
Example octal_examples :
  map (decode_escapes (default_cfg nonames)) [[92; 48]; [92; 49; 50]; [92; 49; 48; 49]; [92; 49; 50; 51; 52]; [92; 55; 55; 55]; [92; 56]]
  = map Some [[0]; [10]; [65]; [83; 52]; [511]; [92; 56]].
Proof. vm_compute. reflexivity. Qed.

Example word_examples :
  lex (default_cfg nonames) W_true = ([mkTok [84; 82; 85; 69] 0 4 VTrue], EndOk) /\
  lex (default_cfg nonames) W_foo = ([mkTok K_KEYWORD 0 3 (VText W_foo)], EndOk) /\
  word_shaped (default_cfg nonames) W_foo = true /\
  lex (default_cfg nonames) [48; 48; 52; 50] = ([mkTok K_NUMBER 0 4 (VInt 42)], EndOk) /\
  lex (default_cfg nonames) [49; 46; 53] = ([mkTok K_NUMBER 0 3 (VFloat [49; 46; 53])], EndOk).
Proof. repeat split; vm_compute; reflexivity. Qed.

(* ASCII digits have their usual values *)
Example ascii_digit_values :
  map (digit_val (default_cfg nonames)) [48; 49; 50; 51; 52; 53; 54; 55; 56; 57] = [0; 1; 2; 3; 4; 5; 6; 7; 8; 9].
Proof. vm_compute. reflexivity. Qed.
