(* C08 - Iterator limit and memory quota bound every evaluation.
   Property theorems only; every proof is `exact <lemma>`.  The model is
   Model/Limits.v (tied to yaql/language/utils.py, yaqltypes.py, runner.py,
   yaql/__init__.py, collections.py, strings.py by harness/props/c08.py);
   registry and interpreter facts are regenerated into Gen/LimitFacts.v. *)
From Coq Require Import List ZArith Bool Arith.
From YV Require Import Common.Corr Model.Limits Lemmas.Limits Lemmas.LimitsCalls Gen.LimitFacts Lemmas.LimitsFacts.
Import ListNotations.
Open Scope Z_scope.

(* Consuming limit_iterable N src, for ANY source (finite or endless) and any N >= 0:
   at most N+1 items are pulled, the consumption terminates, it ends in
   CollectionTooLargeException iff the source has more than N items (and then
   exactly N+1 items were pulled), otherwise it yields exactly the source's items.
   With N < 0 the limiter is the identity (same items, same pulls, same divergence). *)
Theorem C08_limit_pulls : forall (A : Type) (s : stream A) (N : Z),
  (0 <= N -> forall fuel, (Z.to_nat N < fuel)%nat ->
     let r := fst (drain N s fuel O) in
     let p := snd (drain N s fuel O) in
     Z.of_nat p <= N + 1 /\
     r <> Diverges /\
     (r = TooLarge <-> more_than s N) /\
     (r = TooLarge -> Z.of_nat p = N + 1) /\
     (forall l, r = Ok l -> Z.of_nat (length l) <= N /\ length l = p /\ content_from s O l)) /\
  (N < 0 -> forall fuel i, drain N s fuel i = drain_raw s fuel i).
Proof. exact (fun A s N => conj (fun H fuel => limit_pulls s N fuel H) (limit_negative_identity s N)). Qed.

(* Partial consumption: a consumer that asks limit_iterable N src for at most k items pulls at most
   min(k, N+1) items from the source (exactly that many when the source has them), gets only items of
   the source, at most min(k, N) of them, and sees CollectionTooLargeException iff k > N and the source
   has more than N items.  With N < 0 it never raises. *)
Theorem C08_limit_prefix : forall (A : Type) (s : stream A) (N : Z) (k : nat),
  (0 <= N ->
   let '(l, e, p) := take_lim N s k O in
   let n := Z.to_nat N in
   (p <= Nat.min k (S n))%nat /\
   (e = Raised <-> (n < k)%nat /\ more_than s N) /\
   ((forall j, (j < Nat.min k (S n))%nat -> s j <> None) -> p = Nat.min k (S n)) /\
   (length l <= Nat.min k n)%nat /\
   (forall j, (j < length l)%nat -> s j = nth_error l j)) /\
  (N < 0 -> forall i, snd (fst (take_lim N s k i)) <> Raised).
Proof. exact (fun A s N k => conj (limit_prefix s N k) (fun H => limit_prefix_negative s N H k)). Qed.

(* the sized branch (Sequence / Mapping / Set): raises iff 0 <= N < len, else the collection itself *)
Theorem C08_limit_sized : forall (A : Type) (N : Z) (l : list A),
  (limit_sized N l = TooLarge <-> 0 <= N < Z.of_nat (length l)) /\
  (limit_sized N l <> TooLarge -> limit_sized N l = Ok l).
Proof. exact (fun A N l => limit_sized_spec N l). Qed.

(* a finalised result has no node wider than N at any depth, and no iterator left in it *)
Theorem C08_result_width : forall N o v r, 0 <= N -> finalize N o v = Ok r ->
  forall u, In u (subvals r) -> Z.of_nat (children u) <= N /\ is_iter u = false.
Proof. exact result_width. Qed.

(* ... and finalisation terminates on every value, endless iterators at any depth included *)
Theorem C08_finalize_terminates : forall N o v, 0 <= N -> finalize N o v <> Diverges.
Proof. exact finalize_terminates. Qed.

(* limit_memory_usage raises iff some prefix sum of count*size exceeds the quota; never for Q <= 0 *)
Theorem C08_quota_threshold : forall Q xs,
  (0 < Q -> (limit_memory_usage Q xs = true <->
             exists k, (1 <= k <= length xs)%nat /\ total_weight (firstn k xs) > Q)) /\
  (Q <= 0 -> limit_memory_usage Q xs = false).
Proof. exact quota_threshold. Qed.

(* The quota along ANY tree of calls f1(f2(...), g(...), ...) (values are their own sizes, functions are
   arbitrary size transformers, the two check points are SmartType.convert on every argument and
   runner.call on every result).  For Q > 0:
   - every size that is bound to a parameter of a payload or returned by a call fits Q (the log);
   - if the evaluation returns, its value is the value computed without a quota and every argument and
     every result anywhere inside the expression fits Q;
   - it raises only if some argument or result inside exceeds Q. *)
Theorem C08_no_over_quota_value_passed_on : forall Q e, 0 < Q ->
  Forall (fun s => s <= Q) (snd (ceval Q e)) /\
  (forall r, fst (ceval Q e) = Some r -> r = csize e /\ Forall (fun s => s <= Q) (cpoints e)) /\
  (fst (ceval Q e) = None -> Exists (fun s => s > Q) (cpoints e)).
Proof. exact no_over_quota_value_passed_on. Qed.

(* a whole statement '#finalize'(e): what the host receives fits the quota, and so did the value of e
   when it was handed over (host data returned untouched included) *)
Theorem C08_statement_result_fits : forall Q fin e r, 0 < Q ->
  fst (crun Q fin e) = Some r -> r <= Q /\ csize e <= Q /\ r = fin [csize e].
Proof. exact statement_result_fits. Qed.

(* without a quota (Q <= 0) the protocol is transparent *)
Theorem C08_quota_off_identity : forall Q, Q <= 0 -> forall e, fst (ceval Q e) = Some (csize e).
Proof. exact quota_off_identity. Qed.

(* Accumulator loops (distinct, groupBy, toDict, generate with decycle, memorize): the private
   accumulator is checked after every step, so for Q > 0 and an accumulator that starts within the
   quota: before every step it fits Q; the loop raises at the FIRST step that takes it above Q, and at
   that moment it exceeds Q by at most that one step's growth; if the loop completes, it fits Q. *)
Theorem C08_accumulator_bounded : forall Q a0 gs, 0 < Q -> a0 <= Q ->
  let '(a, raised, n) := acc_loop Q a0 gs in
  (n <= length gs)%nat /\
  a = a0 + zsum (firstn n gs) /\
  (forall j, (j < n)%nat -> a0 + zsum (firstn j gs) <= Q) /\
  (raised = true -> (1 <= n)%nat /\ Q < a /\ a <= Q + nth (n - 1) gs 0) /\
  (raised = false -> n = length gs /\ a <= Q).
Proof. exact accumulator_bounded. Qed.

(* ... and the whole call: the loop, then the result check of the call protocol on the value actually
   returned (for toDict: FrozenDict(accumulator), which is larger than the accumulator).  If the call
   returns, every state of the accumulator AND the returned value fit the quota. *)
Theorem C08_accumulator_call_fits : forall Q a0 gs ret n, 0 < Q -> a0 <= Q ->
  acc_call Q a0 gs ret = (false, n) ->
  n = length gs /\ a0 + zsum gs <= Q /\ ret <= Q /\
  (forall j, (j <= length gs)%nat -> a0 + zsum (firstn j gs) <= Q).
Proof. exact accumulator_call_fits. Qed.

(* the estimate of `x * c` (strings; sequences after the repair of F6) refuses whenever the
   product would exceed the quota - for every size function obeying the linear law.
   sz is the operand's own size (>= the law: lists over-allocate, strings may cache UTF-8) *)
Theorem C08_repetition_refuses_first : forall (sizeof : sizefn) (base item : kind -> Z),
  (forall k n, 0 <= n -> sizeof k n = base k + item k * n) ->
  (forall k, 0 <= item k) ->
  (forall k, base (empty_kind k) <= base k) ->
  forall Q k n sz c, 0 < Q -> 0 <= n -> sizeof k n <= sz ->
  true_size sizeof k n c > Q -> estimate sizeof Q k sz c = true.
Proof. exact repetition_refuses_first. Qed.

(* the same on the running interpreter (constants regenerated from sys.getsizeof): no premises left *)
Theorem C08_repetition_refuses_first_here : forall Q k n sz c, 0 < Q -> 0 <= n -> gen_sizeof k n <= sz ->
  true_size gen_sizeof k n c > Q -> estimate gen_sizeof Q k sz c = true.
Proof. exact (repetition_refuses_first gen_sizeof gen_base gen_item gen_linear gen_item_nonneg gen_base_empty_le). Qed.

(* whole evaluation of `x * c`: if the product is computed at all it fits the quota *)
Theorem C08_repetition_never_over_quota : forall Q k n sz c cs, 0 < Q -> 0 <= n -> gen_sizeof k n <= sz ->
  allocated (mul_eval (estimate gen_sizeof) gen_sizeof Q k n sz c cs) = true ->
  mul_eval (estimate gen_sizeof) gen_sizeof Q k n sz c cs = MulOk (product_size gen_sizeof k n sz c) /\
  product_size gen_sizeof k n sz c <= Q.
Proof. exact (repetition_never_over_quota gen_sizeof gen_base gen_item gen_linear gen_item_nonneg gen_base_empty_le). Qed.

(* F6, the estimate before the repair (`[]` as the empty sample for a tuple): a tuple of two
   items repeated c times is never refused once Q >= sizeof [] (56 here), whatever c,
   although the product grows without bound *)
Theorem C08_repetition_historic_refuted : forall Q c, gen_base KList <= Q -> 1 <= c ->
  estimate_historic gen_sizeof Q KTuple (gen_sizeof KTuple 2) c = false /\
  true_size gen_sizeof KTuple 2 c = gen_base KTuple + gen_item KTuple * (2 * c).
Proof.
  exact (repetition_historic_blind gen_sizeof gen_base gen_item gen_linear gen_historic_coincidence gen_base_nonneg).
Qed.

(* finite, over the regenerated registry: every parameter whose type accepts an iterator
   and rejects scalars (decided on the live type: check(generator) holds, check(1) does not)
   limits what it is given *)
Theorem C08_typed_params_limited : forall p, In p params -> collection_typed p = true -> p_limiting p = true.
Proof. exact typed_params_limited. Qed.

(* finite, over the regenerated probes of every smart-type COMBINATOR found in yaqltypes (AnyOf, Chain,
   with NotOfType members, nullable, nested) instantiated over Iterable / Iterator and scalars: whatever
   the declaration, a parameter type that accepts a generator limits it (<= N+1 pulls, then
   CollectionTooLargeException), and one that accepts a sized collection refuses N+1 elements, returns N
   elements unchanged and checks the memory quota *)
Theorem C08_combinator_params_limited : forall c, In c combinators ->
  (c_acc_iter c = true -> c_limiting c = true) /\
  (c_acc_sized c = true -> c_sized_refused c = true /\ c_sized_ok c = true /\ c_quota_ok c = true).
Proof. exact combinators_limited. Qed.

(* every eager parameter that accepts an iterator is either covered by the theorem above or a
   member of the explicit list of `object`-typed positions (swept by the O part of the check) *)
Theorem C08_iterator_params_partition : forall p, In p params ->
  is_eager p = true -> p_acc_iter p = true ->
  (collection_typed p = true /\ p_limiting p = true) \/ In p uncovered_params.
Proof. exact iterator_params_partition. Qed.

(* ---- non-vacuity ------------------------------------------------------------ *)
(* an endless source under N = 2: three pulls, then the exception *)
Example C08_example_endless : consume 2 [] true = (TooLarge, 3%nat).
Proof. vm_compute. reflexivity. Qed.
(* asking an endless source for 2 items under N = 5 pulls 2; asking for 9 pulls 6 and raises *)
Example C08_example_prefix :
  take_lim 5 (src_nth Z.of_nat [] true) 2 O = ([0; 1], Asked, 2%nat)
  /\ take_lim 5 (src_nth Z.of_nat [] true) 9 O = ([0; 1; 2; 3; 4], Raised, 6%nat).
Proof. vm_compute. split; reflexivity. Qed.
(* exactly N items pass *)
Example C08_example_exact : consume 2 [7; 8] false = (Ok [7; 8], 2%nat).
Proof. vm_compute. reflexivity. Qed.
Example C08_example_finalize :
  let o := {| tuples_to_lists := true; sets_to_lists := false |} in
  finalize 2 o (VTuple [VInt 1; VIter [VInt 5; VInt 6] false]) = Ok (VList [VInt 1; VList [VInt 5; VInt 6]])
  /\ finalize 2 o (VTuple [VInt 1; VIter [] true]) = TooLarge
  /\ finalize 2 o (VDict [(VInt 1, VList [VInt 1; VInt 2; VInt 3])]) = TooLarge.
Proof. vm_compute. repeat split. Qed.
(* dictionary KEYS are finalised and limited like every other node: an oversized tuple key, an
   endless iterator as a key; a key that stays a tuple is fine, one that becomes a list cannot be hashed *)
Example C08_example_keys :
  let z := VInt 0 in
  finalize 4 {| tuples_to_lists := false; sets_to_lists := false |} (VDict [(VTuple [z; z; z; z; z], VInt 1)]) = TooLarge
  /\ finalize 4 {| tuples_to_lists := true; sets_to_lists := false |} (VDict [(VIter [] true, VInt 1)]) = TooLarge
  /\ finalize 4 {| tuples_to_lists := false; sets_to_lists := false |} (VDict [(VTuple [z; z], VInt 1)])
     = Ok (VDict [(VTuple [z; z], VInt 1)])
  /\ finalize 4 {| tuples_to_lists := true; sets_to_lists := false |} (VDict [(VTuple [z; z], VInt 1)]) = Unhashable.
Proof. vm_compute. repeat split. Qed.
Example C08_example_calls :
  let cat := fun l : list Z => fold_right Z.add 0 l - 41 * (Z.of_nat (length l) - 1) in   (* size of a concatenation *)
  let e := CApp cat [CVal 71; CApp cat [CVal 71; CVal 71]] in      (* a + (b + c), 30 characters each *)
  csize e = 131 /\ fst (crun 131 (fun l => hd 0 l) e) = Some 131 /\ fst (crun 130 (fun l => hd 0 l) e) = None
  /\ snd (crun 130 (fun l => hd 0 l) e) = [71; 71; 101; 71; 101].
Proof. vm_compute. repeat split. Qed.
(* a set accumulator on this interpreter: 216 bytes up to 4 elements, 728 from the 5th on *)
Example C08_example_accumulator :
  acc_loop 500 216 [0; 0; 0; 0; 512; 0; 0] = (728, true, 5%nat) /\ acc_loop 800 216 [0; 0; 0; 0; 512; 0; 0] = (728, false, 7%nat).
Proof. vm_compute. split; reflexivity. Qed.
Example C08_example_quota :
  limit_memory_usage 100 [(1, 60); (1, 41)] = true /\ limit_memory_usage 101 [(1, 60); (1, 41)] = false
  /\ limit_memory_usage 100 [(3, 50); (- 2, 50)] = true   (* early exit on a prefix *)
  /\ limit_memory_usage 0 [(1, 1000)] = false.
Proof. vm_compute. repeat split. Qed.
(* the premises of C08_repetition_historic_refuted are satisfiable and the product does exceed Q *)
Example C08_example_historic :
  estimate_historic gen_sizeof 1000 KTuple (gen_sizeof KTuple 2) 10000000 = false
  /\ true_size gen_sizeof KTuple 2 10000000 > 1000
  /\ estimate gen_sizeof 1000 KTuple (gen_sizeof KTuple 2) 10000000 = true.
Proof. vm_compute. repeat split. Qed.
Example C08_example_params : (1 <=? length (filter collection_typed params))%nat = true
                             /\ (1 <=? length uncovered_params)%nat = true.
Proof. vm_compute. split; reflexivity. Qed.

Print Assumptions C08_limit_pulls.
Print Assumptions C08_limit_prefix.
Print Assumptions C08_limit_sized.
Print Assumptions C08_result_width.
Print Assumptions C08_finalize_terminates.
Print Assumptions C08_quota_threshold.
Print Assumptions C08_no_over_quota_value_passed_on.
Print Assumptions C08_statement_result_fits.
Print Assumptions C08_quota_off_identity.
Print Assumptions C08_accumulator_bounded.
Print Assumptions C08_accumulator_call_fits.
Print Assumptions C08_repetition_refuses_first.
Print Assumptions C08_repetition_refuses_first_here.
Print Assumptions C08_repetition_never_over_quota.
Print Assumptions C08_repetition_historic_refuted.
Print Assumptions C08_typed_params_limited.
Print Assumptions C08_combinator_params_limited.
Print Assumptions C08_iterator_params_partition.
