(* C15 - Scalar operators form a consistent arithmetic and ordering.
   Property theorems only; every proof is `exact <lemma>`.
   `registry_of cf` is Gen/ScalarOps.v, REGENERATED from the live yaql registry on every run,
   once per configuration cf whose options touch dispatch (default engine and context; engine
   option yaql.iterableDicts; legacy factory + legacy context) - every theorem holds for all three
   (acceptance rows = live value_type.check per kind; specialization = the runner's own
   relation); `dispatch` is the model of runner.choose_overload; `ev cf F fo o args` evaluates
   `a OP b` = dispatch over the regenerated rows, then the payload model (Model/Scalars.v).
   F/fo (floats and their operations) are universally quantified: nothing is assumed about
   them except where a theorem lists hypotheses. *)
From Coq Require Import List ZArith Bool.
From YV Require Import Common.Corr Model.Scalars Model.ScalarsB64 Gen.ScalarOps
                       Lemmas.Scalars Lemmas.ScalarsTable Lemmas.ScalarsEval Lemmas.ScalarsB64 Lemmas.ScalarsSets
                       Model.ScalarsFns Lemmas.ScalarsFns.
Import ListNotations.

(* ---- which overload runs: for every binary operator and every pair of kinds among
   null/bool/int/float/str/list/tuple/set/dict, the dispatch over the regenerated rows is the
   expected payload or NoMatch (expected2 never says Ambiguous): numbers with numbers,
   strings with strings, the three null overloads of the ordering operators, repetition
   with a genuine integer only, `=`/`!=` for everything, NoMatch for unrelated kinds *)
Theorem C15_dispatch_table : forall cf o a b, In o binary_ops -> In a grid_kinds -> In b grid_kinds ->
  dispatch (registry_of cf o) [a; b] = expected2 cf o a b.
Proof. exact dispatch_table2. Qed.

Theorem C15_dispatch_table_unary : forall cf o a, In o unary_ops -> In a grid_kinds ->
  dispatch (registry_of cf o) [a] = expected1 o a.
Proof. exact dispatch_table1. Qed.

(* at most ONE registered overload accepts such a pair: the outcome cannot depend on the
   order in which the runner enumerates the layer, nor on the specialization rule - except
   dict + dict where dictionaries count as iterables (two acceptors, combine_dicts is the
   specialization; C15_dispatch_table says it wins) *)
Theorem C15_dispatch_unique : forall cf o a b, In o binary_ops -> In a grid_kinds -> In b grid_kinds ->
  length (acceptors (registry_of cf o) [a; b]) <= 1 \/ dict_add_case cf o a b = true.
Proof. exact dispatch_unique2. Qed.

Theorem C15_never_ambiguous : forall cf F fo o x y, In o binary_ops ->
  In (kind_of F x) grid_kinds -> In (kind_of F y) grid_kinds -> ev cf F fo o [x; y] <> RErr EAmbiguous.
Proof. exact never_ambiguous2. Qed.

(* ---- integer arithmetic is exact at any magnitude (Z) *)
Theorem C15_int_exact : forall cf F fo (a b : Z),
  ev cf F fo OAdd [VInt a; VInt b] = RVal (VInt (a + b)) /\
  ev cf F fo OSub [VInt a; VInt b] = RVal (VInt (a - b)) /\
  ev cf F fo OMul [VInt a; VInt b] = RVal (VInt (a * b)) /\
  ev cf F fo UNeg [VInt a] = RVal (VInt (- a)) /\
  ev cf F fo UPos [VInt a] = RVal (VInt a).
Proof. exact int_exact. Qed.

(* ---- `/` on two integers floors; a = (a / b) * b + a mod b; the remainder has the sign of
   the divisor; quotient and remainder are the only pair with these properties; b = 0 is
   ZeroDivisionError *)
Theorem C15_div_mod : forall cf F fo (a b : Z),
  (b = 0%Z -> ev cf F fo ODiv [VInt a; VInt b] = RErr EZeroDiv /\ ev cf F fo OMod [VInt a; VInt b] = RErr EZeroDiv) /\
  (b <> 0%Z -> exists q r,
     ev cf F fo ODiv [VInt a; VInt b] = RVal (VInt q) /\ ev cf F fo OMod [VInt a; VInt b] = RVal (VInt r) /\
     (a = q * b + r)%Z /\ ((0 <= r < b)%Z \/ (b < r <= 0)%Z) /\
     (forall q' r', a = (q' * b + r')%Z -> ((0 <= r' < b)%Z \/ (b < r' <= 0)%Z) -> q' = q /\ r' = r)).
Proof. exact div_mod. Qed.

(* ---- mixed int/float arithmetic is float arithmetic on the converted integer (an integer
   too large to convert is an error, never a wrong value); float/float likewise *)
Theorem C15_mixed_is_float : forall cf F fo (a : Z) (f g : F),
  let za := fo_of_Z F fo a in
  ev cf F fo OAdd [VInt a; VFloat f] = fl2 F (fun x y => RVal (VFloat (fo_add F fo x y))) za (Some f) /\
  ev cf F fo OAdd [VFloat f; VInt a] = fl2 F (fun x y => RVal (VFloat (fo_add F fo x y))) (Some f) za /\
  ev cf F fo OSub [VInt a; VFloat f] = fl2 F (fun x y => RVal (VFloat (fo_sub F fo x y))) za (Some f) /\
  ev cf F fo OSub [VFloat f; VInt a] = fl2 F (fun x y => RVal (VFloat (fo_sub F fo x y))) (Some f) za /\
  ev cf F fo OMul [VInt a; VFloat f] = fl2 F (fun x y => RVal (VFloat (fo_mul F fo x y))) za (Some f) /\
  ev cf F fo OMul [VFloat f; VInt a] = fl2 F (fun x y => RVal (VFloat (fo_mul F fo x y))) (Some f) za /\
  ev cf F fo ODiv [VInt a; VFloat f] = fl2 F (fdivr F fo) za (Some f) /\
  ev cf F fo ODiv [VFloat f; VInt a] = fl2 F (fdivr F fo) (Some f) za /\
  ev cf F fo OAdd [VFloat f; VFloat g] = RVal (VFloat (fo_add F fo f g)) /\
  ev cf F fo OSub [VFloat f; VFloat g] = RVal (VFloat (fo_sub F fo f g)) /\
  ev cf F fo OMul [VFloat f; VFloat g] = RVal (VFloat (fo_mul F fo f g)) /\
  ev cf F fo ODiv [VFloat f; VFloat g] = fdivr F fo f g.
Proof. exact mixed_is_float. Qed.

(* ---- the ordering operators are mutually consistent.  order_laws x y :=
     (x > y <-> y < x) /\ (x >= y <-> y <= x) /\ (x <= y <-> x < y \/ x = y) /\
     exactly one of x < y, x = y, x > y /\ (x != y <-> ~ x = y) /\ each of the six is a boolean *)
Theorem C15_order_consistent_int : forall cf F fo (a b : Z),
  order_laws cf F fo (VInt a) (VInt b) /\
  (holds cf F fo OLt (VInt a) (VInt b) <-> (a < b)%Z) /\ (holds cf F fo OLe (VInt a) (VInt b) <-> (a <= b)%Z) /\
  (holds cf F fo OGt (VInt a) (VInt b) <-> (a > b)%Z) /\ (holds cf F fo OGe (VInt a) (VInt b) <-> (a >= b)%Z) /\
  (holds cf F fo OEq (VInt a) (VInt b) <-> a = b).
Proof. exact order_int. Qed.

Theorem C15_order_consistent_str : forall cf F fo (s t : list Z),
  order_laws cf F fo (VStr s) (VStr t) /\
  (holds cf F fo OLt (VStr s) (VStr t) <-> str_compare s t = Lt) /\
  (holds cf F fo OEq (VStr s) (VStr t) <-> s = t) /\
  ev cf F fo OAdd [VStr s; VStr t] = RVal (VStr (s ++ t)).
Proof. exact order_str. Qed.

(* what `<` on strings means: proper prefix, or smaller code point at the first difference *)
Theorem C15_str_lexicographic : forall a b : list Z,
  str_compare a b = Lt <->
  exists p x y r s, a = p ++ x /\ b = p ++ y /\
    ((x = [] /\ y <> []) \/ (exists c d, x = c :: r /\ y = d :: s /\ (c < d)%Z)).
Proof. exact str_compare_lt_spec. Qed.

Theorem C15_order_transitive : forall cf F fo,
  (forall a b c : Z, holds cf F fo OLt (VInt a) (VInt b) -> holds cf F fo OLt (VInt b) (VInt c) -> holds cf F fo OLt (VInt a) (VInt c)) /\
  (forall s t u : list Z, holds cf F fo OLt (VStr s) (VStr t) -> holds cf F fo OLt (VStr t) (VStr u) -> holds cf F fo OLt (VStr s) (VStr u)).
Proof. exact (fun cf F fo => conj (int_lt_trans cf F fo) (str_lt_trans cf F fo)). Qed.

(* numbers, floats included (NaN excluded): the premises are the laws assumed of the float
   three-way comparison - antisymmetric, undefined exactly on NaN; integer/float comparison
   (fo_cmpZ, exact) undefined exactly on NaN *)
Theorem C15_order_consistent_num : forall cf F fo (nan : F -> bool),
  (forall f g, fo_compare F fo g f = option_map CompOpp (fo_compare F fo f g)) ->
  (forall f g, fo_compare F fo f g = None <-> (nan f = true \/ nan g = true)) ->
  (forall z f, fo_cmpZ F fo z f = None <-> nan f = true) ->
  forall x y, number F nan x -> number F nan y -> order_laws cf F fo x y.
Proof. exact order_num. Qed.

(* ---- the same with the float premises DISCHARGED for IEEE binary64 (Flocq's binary_float 53
   1024 with its Bcompare; B64.cmpZ compares an integer exactly with (+-m)*2^e): for every
   float record whose two comparison fields are those (the arithmetic fields play no role in
   the statement; B64.ops, the instance the correspondence runs, is one: C15_binary64_instance) *)
Theorem C15_order_consistent_num_binary64 : forall (cf : cfg) (fo : fops B64.t),
  fo_compare B64.t fo = B64.compare -> fo_cmpZ B64.t fo = B64.cmpZ ->
  forall x y, number B64.t B64.nan x -> number B64.t B64.nan y -> order_laws cf B64.t fo x y.
Proof. exact order_num_binary64. Qed.

Theorem C15_binary64_compare_laws :
  (forall f g : B64.t, B64.compare g f = option_map CompOpp (B64.compare f g)) /\
  (forall f g : B64.t, B64.compare f g = None <-> (B64.nan f = true \/ B64.nan g = true)) /\
  (forall (z : Z) (f : B64.t), B64.cmpZ z f = None <-> B64.nan f = true).
Proof. exact (conj b64_compare_antisym (conj b64_compare_nan b64_cmpZ_nan)). Qed.

(* integer/float comparison is exact: it is Qcompare of the integer with the rational the
   float denotes (b64_value f = (+-m)*2^e); an infinity is above/below every integer *)
Theorem C15_binary64_cmpZ_exact : forall (z : Z) (f : B64.t),
  match b64_value f with
  | Some q => B64.cmpZ z f = Some (QArith_base.Qcompare (QArith_base.inject_Z z) q)
  | None => match f with
            | BinarySingleNaN.B754_infinity s => B64.cmpZ z f = Some (if s then Gt else Lt)
            | _ => B64.cmpZ z f = None
            end
  end.
Proof. exact b64_cmpZ_exact. Qed.

Example C15_binary64_instance :
  fo_compare B64.t B64.ops = B64.compare /\ fo_cmpZ B64.t B64.ops = B64.cmpZ.
Proof. exact b64_ops_fields. Qed.

(* ---- null orders below every non-null value - of ANY kind of the model, also the
   non-scalar ones - and is neither below nor above itself *)
Theorem C15_null_least : forall cf F fo (v : val F), kind_of F v <> KNull ->
  holds cf F fo OLt VNull v /\ holds cf F fo OLe VNull v /\ fails cf F fo OGt VNull v /\ fails cf F fo OGe VNull v /\
  fails cf F fo OLt v VNull /\ fails cf F fo OLe v VNull /\ holds cf F fo OGt v VNull /\ holds cf F fo OGe v VNull.
Proof. exact null_least. Qed.

Theorem C15_null_null : forall cf F fo,
  fails cf F fo OLt VNull VNull /\ holds cf F fo OLe VNull VNull /\ fails cf F fo OGt VNull VNull /\
  holds cf F fo OGe VNull VNull /\ holds cf F fo OEq VNull VNull.
Proof. exact null_null. Qed.

Theorem C15_null_not_equal : forall cf F fo (v : val F), kind_of F v <> KNull -> (forall k, v <> VOpaque k) ->
  fails cf F fo OEq VNull v /\ fails cf F fo OEq v VNull /\ holds cf F fo ONeq VNull v /\ holds cf F fo ONeq v VNull.
Proof. exact null_not_equal. Qed.

(* ---- a boolean is never accepted as a number: every arithmetic, ordering and repetition
   operator (+ - * / mod < <= > >=), a boolean on either side, ANY value of ANY kind on the
   other side (lists and tuples included: repetition) gives NoMatch - except the documented
   null-ordering rule, where the boolean is just "non-null" (C15_null_least) *)
Theorem C15_bool_not_number : forall cf F fo o (b : bool) (v : val F), In o arith_order_ops ->
  (cmp_of o = None \/ kind_of F v <> KNull) ->
  ev cf F fo o [VBool b; v] = RErr ENoMatch /\ ev cf F fo o [v; VBool b] = RErr ENoMatch.
Proof. exact bool_rejected. Qed.

Theorem C15_bool_not_number_unary : forall cf F fo (b : bool),
  ev cf F fo UPos [VBool b] = RErr ENoMatch /\ ev cf F fo UNeg [VBool b] = RErr ENoMatch.
Proof. exact bool_rejected_unary. Qed.

(* ---- repetition by a genuine integer: commutes, a count <= 0 gives the empty string, 1 is
   neutral, the length multiplies (strings of 2^31 code points or more are outside what the
   model allocates) *)
Theorem C15_repetition : forall cf F fo (s : list Z) (n : Z),
  ev cf F fo OMul [VStr s; VInt n] = ev cf F fo OMul [VInt n; VStr s] /\
  ev cf F fo OMul [VList s; VInt n] = ev cf F fo OMul [VInt n; VList s] /\
  ((- max_index - 1 <= n <= 0)%Z -> ev cf F fo OMul [VStr s; VInt n] = RVal (VStr [])) /\
  ((Z.of_nat (length s) < alloc_limit)%Z -> ev cf F fo OMul [VStr s; VInt 1] = RVal (VStr s)) /\
  (forall r, ev cf F fo OMul [VStr s; VInt n] = RVal (VStr r) -> (0 < n)%Z ->
             Z.of_nat (length r) = (Z.of_nat (length s) * n)%Z).
Proof. exact repetition_laws. Qed.

(* ---- sets (of integers): < <= > >= are the subset relations - a PARTIAL order: reflexive,
   antisymmetric (up to =), transitive; < is <= without =; > and >= are the mirrors; never
   both < and > - but not total: *)
Theorem C15_set_order_partial : forall cf F fo (a b c : list Z),
  holds cf F fo OLe (VSet a) (VSet a) /\
  (holds cf F fo OLe (VSet a) (VSet b) -> holds cf F fo OLe (VSet b) (VSet a) -> holds cf F fo OEq (VSet a) (VSet b)) /\
  (holds cf F fo OLe (VSet a) (VSet b) -> holds cf F fo OLe (VSet b) (VSet c) -> holds cf F fo OLe (VSet a) (VSet c)) /\
  (holds cf F fo OLt (VSet a) (VSet b) -> holds cf F fo OLt (VSet b) (VSet c) -> holds cf F fo OLt (VSet a) (VSet c)) /\
  (holds cf F fo OLt (VSet a) (VSet b) <-> holds cf F fo OLe (VSet a) (VSet b) /\ ~ holds cf F fo OEq (VSet a) (VSet b)) /\
  (holds cf F fo OGt (VSet a) (VSet b) <-> holds cf F fo OLt (VSet b) (VSet a)) /\
  (holds cf F fo OGe (VSet a) (VSet b) <-> holds cf F fo OLe (VSet b) (VSet a)) /\
  ~ (holds cf F fo OLt (VSet a) (VSet b) /\ holds cf F fo OGt (VSet a) (VSet b)).
Proof. exact set_order_partial. Qed.

Theorem C15_set_order_meaning : forall cf F fo (a b : list Z),
  (holds cf F fo OLe (VSet a) (VSet b) <-> (forall x, In x a -> In x b)) /\
  (holds cf F fo OGe (VSet a) (VSet b) <-> (forall x, In x b -> In x a)) /\
  (holds cf F fo OLt (VSet a) (VSet b) <-> (forall x, In x a -> In x b) /\ ~ (forall x, In x b -> In x a)) /\
  (holds cf F fo OGt (VSet a) (VSet b) <-> (forall x, In x b -> In x a) /\ ~ (forall x, In x a -> In x b)) /\
  (holds cf F fo OEq (VSet a) (VSet b) <-> (forall x, In x a <-> In x b)).
Proof. exact holds_set. Qed.

(* trichotomy (exactly one of <, =, >), which holds for numbers and strings, is FALSE for sets *)
Theorem C15_set_trichotomy_refuted : forall cf F fo, exists a b : list Z,
  fails cf F fo OLt (VSet a) (VSet b) /\ fails cf F fo OEq (VSet a) (VSet b) /\ fails cf F fo OGt (VSet a) (VSet b) /\
  fails cf F fo OLe (VSet a) (VSet b) /\ fails cf F fo OGe (VSet a) (VSet b).
Proof. exact set_trichotomy_refuted. Qed.

(* set difference, frozenset union, dict merge (right operand wins), membership *)
Theorem C15_set_dict_ops : forall cf F fo (a b : list Z) (d e : list (Z * Z)),
  (exists r, ev cf F fo OSub [VSet a; VSet b] = RVal (VSet r) /\ forall x, In x r <-> In x a /\ ~ In x b) /\
  (exists r, ev cf F fo OAdd [VSet a; VSet b] = RVal (VSet r) /\ forall x, In x r <-> In x a \/ In x b) /\
  (exists r, ev cf F fo OAdd [VDict d; VDict e] = RVal (VDict r) /\
             forall k, dlookup k r = match dlookup k e with Some v => Some v | None => dlookup k d end) /\
  (forall z : Z, ev cf F fo OIn [VInt z; VSet a] = RVal (VBool true) <-> In z a).
Proof. exact set_dict_ops. Qed.

(* ---- the integer functions of math.py (abs, sign, min, max, pow, round, bitwise, shifts)
   are exact at any magnitude: each meets its arithmetic specification over Z *)
Theorem C15_int_functions_exact : forall a b c : Z,
  (exists r, int_fn FAbs [a] = Some r /\ 0 <= r /\ (r = a \/ r = - a))%Z /\
  (exists s, int_fn FSign [a] = Some s /\ a = s * Z.abs a /\ (s = 1 \/ s = 0 \/ s = -1))%Z /\
  int_fn FMax [a; b] = Some (Z.max a b) /\ int_fn FMin [a; b] = Some (Z.min a b) /\
  int_fn FPow [a; 0%Z] = Some 1%Z /\
  ((0 <= b)%Z -> exists r, int_fn FPow [a; b] = Some r /\ int_fn FPow [a; (b + 1)%Z] = Some (a * r)%Z) /\
  ((0 <= b)%Z -> c <> 0%Z -> exists r m, int_fn FPow [a; b] = Some r /\ int_fn FPowMod [a; b; c] = Some m /\
                                   (c | r - m)%Z /\ (0 <= m < c \/ c < m <= 0)%Z) /\
  int_fn FRound [a] = Some a /\ ((0 <= b)%Z -> int_fn FRoundN [a; b] = Some a) /\
  ((b < 0)%Z -> exists r, int_fn FRoundN [a; b] = Some r /\ let p := (10 ^ (- b))%Z in
             (p | r)%Z /\ (2 * Z.abs (r - a) <= p)%Z /\ ((2 * Z.abs (r - a))%Z = p -> Z.even (r / p) = true) /\
             (forall m, (p | m)%Z -> (Z.abs (r - a) <= Z.abs (m - a))%Z)) /\
  (exists x o e n, int_fn FAnd [a; b] = Some x /\ int_fn FOr [a; b] = Some o /\ int_fn FXor [a; b] = Some e /\
     int_fn FNot [a] = Some n /\ n = (- a - 1)%Z /\
     forall i, Z.testbit x i = Z.testbit a i && Z.testbit b i /\
               Z.testbit o i = Z.testbit a i || Z.testbit b i /\
               Z.testbit e i = xorb (Z.testbit a i) (Z.testbit b i)) /\
  ((0 <= b)%Z -> int_fn FShl [a; b] = Some (a * 2 ^ b)%Z /\ int_fn FShr [a; b] = Some (a / 2 ^ b)%Z).
Proof. exact int_functions_exact. Qed.

(* ---- the regenerated file is well-formed: kinds in the model's order, every mapped
   overload has one row per argument and one column per kind *)
Example C15_gen_selfcheck : gen_kinds = all_kinds /\ gen_rows_uniform = true /\ forall cf, rows_wellformed cf = true.
Proof. exact (conj gen_kinds_ok (conj rows_uniform_checked rows_wellformed_checked)). Qed.

(* ---- non-vacuity ---- *)
(* the float laws of C15_order_consistent_num are satisfiable (integers as a toy float type) *)
Definition toy : fops Z := {|
  fo_of_Z := fun z => Some z; fo_add := Z.add; fo_sub := Z.sub; fo_mul := Z.mul;
  fo_div := fun a b => if Z.eqb b 0 then None else Some (Z.div a b);
  fo_mod := fun a b => if Z.eqb b 0 then None else Some (Some (Z.modulo a b));
  fo_neg := Z.opp; fo_compare := fun a b => Some (Z.compare a b); fo_cmpZ := fun a b => Some (Z.compare a b) |}.

Example C15_float_laws_satisfiable :
  (forall f g, fo_compare Z toy g f = option_map CompOpp (fo_compare Z toy f g)) /\
  (forall f g, fo_compare Z toy f g = None <-> ((fun _ => false) f = true \/ (fun _ => false) g = true)) /\
  (forall z f, fo_cmpZ Z toy z f = None <-> (fun _ : Z => false) f = true).
Proof.
  split; [|split].
  - intros f g. cbn. rewrite Z.compare_antisym. reflexivity.
  - intros f g. cbn. split; [discriminate | intros [H|H]; discriminate].
  - intros z f. cbn. split; discriminate.
Qed.

(* the model at work on the executable float instance *)
Example C15_examples :
  ev CDefault PrimFloat.float PF.ops ODiv [VInt (-7)%Z; VInt 2%Z] = RVal (VInt (-4)%Z) /\
  ev CDefault PrimFloat.float PF.ops OMod [VInt (-7)%Z; VInt 2%Z] = RVal (VInt 1%Z) /\
  ev CDefault PrimFloat.float PF.ops OMod [VInt 7%Z; VInt (-2)%Z] = RVal (VInt (-1)%Z) /\
  ev CDefault PrimFloat.float PF.ops OMul [VInt (10 ^ 40)%Z; VInt (10 ^ 40)%Z] = RVal (VInt (10 ^ 80)%Z) /\
  ev CDefault PrimFloat.float PF.ops OLt [VStr [97%Z]; VStr [97; 98]%Z] = RVal (VBool true) /\
  ev CDefault PrimFloat.float PF.ops OLt [VNull; VBool false] = RVal (VBool true) /\
  ev CDefault PrimFloat.float PF.ops OLt [VBool false; VInt 1%Z] = RErr ENoMatch /\
  ev CDefault PrimFloat.float PF.ops OMul [VStr [97; 98]%Z; VInt 2%Z] = RVal (VStr [97; 98; 97; 98]%Z) /\
  ev CDefault PrimFloat.float PF.ops OMul [VList [1; 2]%Z; VBool true] = RErr ENoMatch /\
  ev CDefault PrimFloat.float PF.ops OAdd [VStr [97%Z]; VInt 1%Z] = RErr ENoMatch.
Proof. vm_compute. repeat split. Qed.

(* ---- F9 (repaired in /repo): the repetition overloads used to be typed with the plain
   Python type `int`, whose check accepts booleans.  With such a row the dispatch runs the
   repetition payload on a boolean, i.e. the statement of C15_bool_not_number is false for
   that table.  This is documentation of the finding; the verdict uses the regenerated table. *)
Definition historic_list_by_int : overload := {|
  ov_id := 0; ov_tag := PSeqRep; ov_maps := true; ov_nokw := false; ov_lazy := [];
  ov_rows := [[false; false; false; false; false; true; true; false; false; false; false];
              [false; true; true; false; false; false; false; false; false; false; false]] |}.
Definition historic_mul : optable := {| ot_layers := [[historic_list_by_int]]; ot_spec := [] |}.

Theorem C15_bool_repetition_refuted_historic :
  exists v : val Z, eval_op Z toy (fun _ => historic_mul) OMul [v; VBool true] = RVal v.
Proof. exists (VList [1; 2]%Z). vm_compute. reflexivity. Qed.

Print Assumptions C15_dispatch_table.
Print Assumptions C15_int_exact.
Print Assumptions C15_div_mod.
Print Assumptions C15_order_consistent_int.
Print Assumptions C15_order_consistent_str.
Print Assumptions C15_order_consistent_num.
Print Assumptions C15_order_consistent_num_binary64.
Print Assumptions C15_binary64_cmpZ_exact.
Print Assumptions C15_null_least.
Print Assumptions C15_bool_not_number.
