(* C14 - Streaming operators consume only what they need from their source.
   Property theorems only; every proof is `exact <lemma>`.  Model/Streams.v: the state
   threaded through [next] counts pulls from the instrumented endless source [Src] and
   lambda applications; tied to the code by harness/props/c14.py (prefix, pulls, ticks).

   [YieldsD i v i' dp dt] : from EVERY state one [next] on i yields v at cost (dp, dt);
   [StepsD i l dp dt i']  : successive [next]s yield exactly l at total cost (dp, dt);
   [EndsD i dp dt]        : one more [next] answers Done at that cost. *)
From Coq Require Import List ZArith Bool Arith.
From YV Require Import Common.Corr Model.Queries Model.Streams
  Lemmas.StreamsMono Lemmas.StreamsSteps Lemmas.StreamsPipeline Lemmas.StreamsPipeline2 Lemmas.StreamsEnds Lemmas.StreamsGeneric Lemmas.StreamsAll Lemmas.StreamsMore.
Import ListNotations.

(* fuel only bounds the search for an answer: an answer, once given, is final *)
Theorem C14_fuel_suffices : forall fuel s i d, snd (next fuel s i) <> NoFuel -> next (d + fuel) s i = next fuel s i.
Proof. exact next_mono. Qed.

(* ---- one lemma per operator: how many inner steps one output costs ------------- *)
Theorem C14_select : forall f l i dp dt i', StepsD i l dp dt i' ->
  StepsD (Map f i) (map (apply f) l) dp (dt + length l) (Map f i').
Proof. exact map_steps. Qed.

(* where: the inner iterator is advanced exactly up to a passing element, never beyond *)
Theorem C14_where : forall p l i dp dt i', StepsD i l dp dt i' -> ends_with_hit p l ->
  StepsD (Filter p i) (filter (holds p) l) dp (dt + length l) (Filter p i').
Proof. exact filter_steps. Qed.

(* take n: n outputs cost n inner steps, and the end is reported WITHOUT pulling *)
Theorem C14_take : forall l b i dp dt i', StepsD i l dp dt i' -> length l <= b ->
  StepsD (ISlice 0 (Some b) i) l dp dt (ISlice 0 (Some (b - length l)) i') /\ EndsD (ISlice 0 (Some 0) i') 0 0.
Proof. exact (fun l b i dp dt i' H L => conj (take_steps l b i dp dt i' H L) (take_stops i')). Qed.

Theorem C14_skip : forall a l i dp dt i', StepsD i l dp dt i' -> a < length l ->
  StepsD (ISlice a None i) (skipn a l) dp dt (ISlice 0 None i').
Proof. exact skip_steps. Qed.

(* takeWhile: the failing element is the one extra pull of the bound *)
Theorem C14_take_while : forall p,
  (forall l i dp dt i', StepsD i l dp dt i' -> forallb (holds p) l = true ->
     StepsD (TakeWhile p i) l dp (dt + length l) (TakeWhile p i')) /\
  (forall i v i' dp dt, YieldsD i v i' dp dt -> holds p v = false -> EndsD (TakeWhile p i) dp (dt + 1)).
Proof. exact (fun p => conj (takewhile_steps p) (takewhile_stops p)). Qed.

(* skipWhile: after the first failing element the predicate is never applied again *)
Theorem C14_skip_while : forall p pre v rest i dp dt i', StepsD i (pre ++ v :: rest) dp dt i' ->
  forallb (holds p) pre = true -> holds p v = false ->
  StepsD (DropWhile p i) (v :: rest) dp (dt + length pre + 1) i'.
Proof. exact dropwhile_steps. Qed.

Theorem C14_enumerate : forall l n i dp dt i', StepsD i l dp dt i' ->
  StepsD (Enumerate n i) (enum_vals n l) dp dt (Enumerate (n + Z.of_nat (length l)) i').
Proof. exact enumerate_steps. Qed.

Theorem C14_memorize : forall l i dp dt i', StepsD i l dp dt i' -> StepsD (Memo i) l dp dt (Memo i').
Proof. exact memo_steps. Qed.

Theorem C14_append : forall j l i dp dt i', StepsD i l dp dt i' -> StepsD (Chain i j) l dp dt (Chain i' j).
Proof. exact chain_steps. Qed.

(* accumulate: with a seed the first output needs no input; afterwards one input and one application each *)
Theorem C14_accumulate : forall f,
  (forall sd i, YieldsD (AccStart f (Some sd) i) sd (AccRun f sd i) 0 0) /\
  (forall l tot i dp dt i', StepsD i l dp dt i' ->
     StepsD (AccRun f tot i) (accumulate_from (apply2 f) tot l) dp (dt + length l) (AccRun f (fold_left (apply2 f) l tot) i')).
Proof. exact (fun f => conj (accstart_seed f) (accrun_steps f)). Qed.

(* limit_iterable: passes n elements through one for one; the (n+1)-th is pulled and refused *)
Theorem C14_limit : forall l n i dp dt i', StepsD i l dp dt i' -> length l <= n ->
  StepsD (Limit n i) l dp dt (Limit (n - length l) i') /\
  (forall v i2 dp2 dt2, YieldsD i' v i2 dp2 dt2 -> n = length l -> FailsD (Limit (n - length l) i') ETooLarge dp2 dt2).
Proof.
  exact (fun l n i dp dt i' H L => conj (limit_steps l n i dp dt i' H L)
    (fun v i2 dp2 dt2 Y E => eq_ind_r (fun m => FailsD (Limit (m - length l) i') ETooLarge dp2 dt2)
        (eq_ind_r (fun m => FailsD (Limit m i') ETooLarge dp2 dt2) (limit_trips i' v i2 dp2 dt2 Y) (Nat.sub_diag (length l))) E)).
Qed.

(* insert / delete: one inner step per output outside the affected positions; the inserted
   value comes out as soon as the element at its position has been pulled *)
Theorem C14_insert_delete :
  (forall pos v n i t i' dp dt, YieldsD i t i' dp dt -> (n =? pos)%Z = false ->
     YieldsD (InsertAt pos v n i) t (InsertAt pos v (n + 1) i') dp dt) /\
  (forall pos v i t i' dp dt, YieldsD i t i' dp dt ->
     YieldsD (InsertAt pos v pos i) v (Chain (OfList [t]) (InsertAt pos v (pos + 1) i')) dp dt) /\
  (forall pos cnt n i v i' dp dt, YieldsD i v i' dp dt -> del_keep pos cnt n = true ->
     YieldsD (DeleteAt pos cnt n i) v (DeleteAt pos cnt (n + 1) i') dp dt) /\
  (forall pos cnt n i x i1 dp1 dt1 v j dp2 dt2,
     YieldsD i x i1 dp1 dt1 -> del_keep pos cnt n = false -> YieldsD (DeleteAt pos cnt (n + 1) i1) v j dp2 dt2 ->
     YieldsD (DeleteAt pos cnt n i) v j (dp1 + dp2) (dt1 + dt2)).
Proof. exact (conj insert_before (conj insert_here (conj delete_keep_yields delete_drop_step))). Qed.

(* ---- short-circuit searches: first / any / all / indexOf / indexWhere / contains ---- *)
(* the source is pulled exactly up to the deciding element, and a lambda test is applied
   exactly once to each element seen *)
Theorem C14_short_circuit : forall pr pre v n i dp dt i', StepsD i (pre ++ [v]) dp dt i' ->
  forallb (fun x => negb (pred_holds pr x)) pre = true -> pred_holds pr v = true ->
  forall s, exists fuel, find_first fuel s pr n i =
    (plus_st s dp (dt + pred_cost pr * (length pre + 1)), Ok (Some ((n + Z.of_nat (length pre))%Z, v))).
Proof. exact find_first_decides. Qed.

(* ---- composition along a pipeline ------------------------------------------------------ *)
(* [xneed_all] composes the per-operator demand functions over the LIST semantics of the
   inspected source prefix; [xtks_all] likewise for lambda applications.  For every pipeline
   of select/where/skip/take/takeWhile/skipWhile/enumerate/memorize/append(concat, +)/
   accumulate(with or without seed)/limiter over the endless source, every start value,
   every k (within what the inspected prefix determines) and every state: the first k results
   are produced, with finite fuel, at EXACTLY xneed_all pulls (so <= need + 1) and xtks_all
   applications, independently of everything beyond the prefix.
   `_partial`: the composed statement does not yet range over distinct, zip, insert, delete,
   replace, slice, selectMany and join's outer side (per-operator lemmas above, or the
   correspondence only, cover them), nor over a pipeline that ends before k results
   (C14_take and C14_take_while give those ends per operator). *)
Theorem C14_bound_partial : forall ops k0 n k s,
  let xs := src_prefix k0 n in
  k <= length (xouts_all ops xs) ->
  exists fuel s' i',
    run fuel s (xbuild_all ops (Src k0)) k = (s', firstn k (xouts_all ops xs), Running i') /\
    pulls s' = pulls s + xneed_all ops xs k /\
    pulls s' <= pulls s + xneed_all ops xs k + 1 /\
    ticks s' = ticks s + xtks_all ops xs k.
Proof. exact xpipeline_demand_run. Qed.

(* exactly what the correspondence observes: `pipeline.take(k)` evaluated to the end costs the
   demand of its k results - take reports the end without touching its input again *)
Theorem C14_take_k : forall ops k0 n k s,
  let xs := src_prefix k0 n in
  k <= length (xouts_all ops xs) ->
  exists fuel s',
    drain fuel s (ISlice 0 (Some k) (xbuild_all ops (Src k0))) = (s', Ok (firstn k (xouts_all ops xs))) /\
    pulls s' = pulls s + xneed_all ops xs k /\ ticks s' = ticks s + xtks_all ops xs k.
Proof. exact take_k_drain. Qed.

(* apart from where / skipWhile (whose demand is the position of the k-th hit) the demand of
   an operator is uniform in the data: k, k - 1, or n + k for skip n *)
Theorem C14_need_uniform : forall o xs k,
  match o with
  | XBase (OWhere _) | XBase (OSkipWhile _) => True
  | XBase (OSkip a) => xneed o xs k <= a + k
  | _ => xneed o xs k <= k
  end.
Proof. exact xneed_uniform. Qed.

(* C14_bound: the bound both ways, for every pipeline of select/where/skip/take/takeWhile/skipWhile/
   enumerate/memorize over the endless source, every start value, every k and every state:
   - when k results exist (within what the inspected prefix determines) they cost EXACTLY need_all
     pulls and tks_all lambda applications (hence <= need + 1);
   - when the prefix shows that the pipeline ends before k results (only take / takeWhile can end a
     pipeline over an endless source), asking for k results costs EXACTLY the pulls that establish
     the end, [pend_all], computed on lists: nothing for take (C14_end_take), the one failing element
     for takeWhile (C14_end_take_while); the pipeline is then finished. *)
Theorem C14_bound : forall ops k0 n k s,
  let xs := src_prefix k0 n in
  (k <= length (outs_all ops xs) ->
     exists fuel s' i', run fuel s (build_all ops (Src k0)) k = (s', firstn k (outs_all ops xs), Running i') /\
                        pulls s' = pulls s + need_all ops xs k /\ ticks s' = ticks s + tks_all ops xs k) /\
  (forall ce te, pend_all ops xs (fun m => m) (fun _ => 0) None = Some (ce, te) -> length (outs_all ops xs) < k ->
     exists fuel, run fuel s (build_all ops (Src k0)) k = (plus_st s ce te, outs_all ops xs, Finished)).
Proof. exact pipeline_bound_total. Qed.

Theorem C14_end_take : forall n xs cp ct e, n <= length xs -> oend (OTake n) xs cp ct e = Some (cp n, ct n).
Proof. exact oend_take_cost. Qed.

Theorem C14_end_take_while : forall p xs cp ct e, length (take_while_l (holds p) xs) < length xs ->
  oend (OTakeWhile p) xs cp ct e =
  Some (cp (S (length (take_while_l (holds p) xs))), ct (S (length (take_while_l (holds p) xs))) + S (length (take_while_l (holds p) xs))).
Proof. exact oend_take_while_cost. Qed.

(* consuming an ending pipeline completely *)
Theorem C14_end_cost : forall ops k0 n ce te,
  let xs := src_prefix k0 n in
  pend_all ops xs (fun m => m) (fun _ => 0) None = Some (ce, te) ->
  forall s, exists fuel, drain fuel s (build_all ops (Src k0)) = (plus_st s ce te, Ok (outs_all ops xs)).
Proof. exact pipeline_end_cost. Qed.

(* the cost-annotated behaviour of an iterator is unique: [next] is a function and fuel is monotone *)
Theorem C14_deterministic : forall l i a b i1 a' b' i1', StepsD i l a b i1 -> StepsD i l a' b' i1' -> a = a' /\ b = b' /\ i1 = i1'.
Proof. exact StepsD_det. Qed.

(* C14_bound_all: ONE statement over the property's whole operator list.  [aop] ranges over select, where,
   skip, take, takeWhile, skipWhile, enumerate, memorize (= member projection, a transparent per-element wrapper),
   append/concat/+, accumulate (with or without seed), the iterator limiter, distinct (with or without key
   selector; it stops being determined at the first unhashable key, where the code raises), zip with literal
   collections, insert, insertMany, delete, replace/replaceMany, slice, selectMany and join's outer side.
   [aouts_all]/[aneed_all]/[atks_all] are list-level functions: the outputs the inspected source prefix determines,
   the number of source elements the first k of them depend on, and the lambda applications they take.  For every
   such pipeline over the endless source, every start value, every k within the determined outputs and every
   state: the first k results are produced with finite fuel at EXACTLY aneed_all pulls (hence <= need + 1) and
   EXACTLY atks_all lambda applications. *)
Theorem C14_bound_all : forall (ops : list aop) k0 n k s,
  let xs := src_prefix k0 n in
  k <= length (aouts_all ops xs) ->
  exists fuel s' i',
    run fuel s (abuild_all ops (Src k0)) k = (s', firstn k (aouts_all ops xs), Running i') /\
    pulls s' = pulls s + aneed_all ops xs k /\
    pulls s' <= pulls s + aneed_all ops xs k + 1 /\
    ticks s' = ticks s + atks_all ops xs k.
Proof. exact apipeline_demand_run. Qed.

(* the same through `pipeline.take(k)` consumed to the end - what the correspondence observes *)
Theorem C14_take_k_all : forall (ops : list aop) k0 n k s,
  let xs := src_prefix k0 n in
  k <= length (aouts_all ops xs) ->
  exists fuel s',
    drain fuel s (ISlice 0 (Some k) (abuild_all ops (Src k0))) = (s', Ok (firstn k (aouts_all ops xs))) /\
    pulls s' = pulls s + aneed_all ops xs k /\ ticks s' = ticks s + atks_all ops xs k.
Proof. exact atake_k_drain. Qed.

(* the generic fact behind it: an operator that, per input element, emits some outputs (each at a tick cost),
   spends some more ticks and changes state, consumes exactly [tneed] inputs for k outputs *)
Theorem C14_transducer : forall (Q : Type) (T : Q -> it -> it) out tr nq live,
  (forall q i x i1 dp dt, live q x = true -> YieldsD i x i1 dp dt ->
     FollowsP (T q i) dp dt (out q x) (tr q x) (T (nq q x) i1)) ->
  forall q i xs cp ct, Like i xs cp ct ->
  Like (T q i) (touts Q out nq live q xs) (fun k => cp (tneed Q out nq live q xs k))
       (fun k => ct (tneed Q out nq live q xs k) + ttks Q out tr nq live q xs k).
Proof. exact trans_like. Qed.

(* state-free form *)
Theorem C14_demand : forall ops k0 n k,
  let xs := src_prefix k0 n in
  k <= length (outs_all ops xs) ->
  exists i', StepsD (build_all ops (Src k0)) (firstn k (outs_all ops xs)) (need_all ops xs k) (tks_all ops xs k) i'.
Proof. exact pipeline_demand. Qed.

(* each lambda is applied at most once per element its operator consumed *)
Theorem C14_ticks_per_operator : forall o xs k, k <= length (xouts o xs) -> xtks o xs k <= xneed o xs k + 1.
Proof. exact xtks_le_need. Qed.

(* non-vacuity: sequence().where($ mod 3 = 0).select($ + 1).take(2) needs 6 source elements *)
Example C14_example :
  need_all [OWhere (LModEq 3 0); OSelect (LAdd 1); OTake 2] (src_prefix 1 20) 2 = 6 /\
  outs_all [OWhere (LModEq 3 0); OSelect (LAdd 1); OTake 2] (src_prefix 1 20) = [VInt 4; VInt 7] /\
  xneed_all [XBase (OWhere (LGt 2)); XAccumulate L2Add (Some (VInt 10)); XBase (OSkip 1)] (src_prefix 0 20) 2 = 5 /\
  eval_kcase {| k_start := 1; k_stages := [SWhere (LModEq 3 0); SSelect (LAdd 1)]; k_take := Some 2;
                k_vals := ONone; k_pulls := 0; k_ticks := 0 |} = (mkst 6 8, OVal (VList false [VInt 4; VInt 7])).
Proof. vm_compute. repeat split. Qed.

(* sequence(0).where($ mod 2 = 0).takeWhile($ < 5): results 0 2 4, then 6 is pulled and fails: 7 pulls;
   7 applications of the where predicate and 4 of the takeWhile predicate *)
Example C14_example_end :
  pend_all [OWhere (LModEq 2 0); OTakeWhile (LLt 5)] (src_prefix 0 12) (fun m => m) (fun _ => 0) None = Some (7, 11) /\
  outs_all [OWhere (LModEq 2 0); OTakeWhile (LLt 5)] (src_prefix 0 12) = [VInt 0; VInt 2; VInt 4] /\
  eval_kcase {| k_start := 0; k_stages := [SWhere (LModEq 2 0); STakeWhile (LLt 5)]; k_take := Some 8;
                k_vals := ONone; k_pulls := 0; k_ticks := 0 |} = (mkst 7 11, OVal (VList false [VInt 0; VInt 2; VInt 4])).
Proof. vm_compute. repeat split. Qed.

(* sequence(0).distinct($ mod 3).insert(1, 9).selectMany([$, $]).slice(2).join([1, 2], $1 > $2, ..) style pipelines:
   the list-level demand agrees with the machine, here on one with every kind of new operator *)
Example C14_example_all :
  let ops := [ADelete 1 2; AInsert 1 (VInt 9); ASelectMany LPair; ASlice 1; AZip [[VInt 7; VInt 8; VInt 9; VInt 10]]] in
  aouts_all ops (src_prefix 0 12) =
    [VList false [VList false [VInt 0; VInt 0]; VInt 7]; VList false [VList false [VInt 9; VInt 9]; VInt 8];
     VList false [VList false [VInt 3; VInt 3]; VInt 9]; VList false [VList false [VInt 4; VInt 4]; VInt 10]] /\
  aneed_all ops (src_prefix 0 12) 3 = 4 /\ atks_all ops (src_prefix 0 12) 3 = 3 /\
  eval_kcase {| k_start := 0; k_stages := [SDelete 1 (Some 2%Z); SInsert 1 (VInt 9); SSelectMany LPair; SSlice 2;
                                           SZip [[VInt 7; VInt 8; VInt 9; VInt 10]]]; k_take := Some 3;
                k_vals := ONone; k_pulls := 0; k_ticks := 0 |}
  = (mkst 4 3, OVal (VList false [VList false [VList false [VInt 0; VInt 0]; VInt 7]; VList false [VList false [VInt 9; VInt 9]; VInt 8];
                                  VList false [VList false [VInt 3; VInt 3]; VInt 9]])).
Proof. vm_compute. repeat split. Qed.

(* selectMany over LAZY groups (the selector returns an iterator: sequence($), $.repeat(), a nested pipeline over another
   host iterator, ...): one element of the source, one application of the selector, and then exactly as many steps of
   the group as the consumer takes - the group is never materialised *)
Theorem C14_select_many_lazy : forall g i x i1 dp1 dt1 l gi dp2 dt2, l <> [] ->
  YieldsD i x i1 dp1 dt1 -> StepsD (gsel_it g x) l dp2 dt2 gi ->
  StepsD (SelectManyG g i) l (dp1 + dp2) (dt1 + 1 + dt2) (Chain gi (SelectManyG g i1)).
Proof. exact selectmanyg_lazy. Qed.

(* the group is a second instrumented host iterator: its first n elements cost n pulls of it (and one pull of the outer source) *)
Theorem C14_select_many_host_group : forall k2 i x i1 dp1 dt1 n, n <> 0 -> YieldsD i x i1 dp1 dt1 ->
  StepsD (SelectManyG (GHost k2) i) (src_prefix k2 n) (dp1 + n) (dt1 + 1 + 0)
         (Chain (Src (k2 + Z.of_nat n)) (SelectManyG (GHost k2) i1)).
Proof. exact selectmanyg_host. Qed.

(* [3, 4, ..].selectMany(sequence($)).take(5) = 3 4 5 6 7 for ONE pull; $outer.selectMany($group).take(3) pulls 1 + 3 *)
Example C14_example_lazy_groups :
  eval_kcase {| k_start := 3; k_stages := [SSelectManyG GSeq]; k_take := Some 5; k_vals := ONone; k_pulls := 0; k_ticks := 0 |}
    = (mkst 1 1, OVal (VList false [VInt 3; VInt 4; VInt 5; VInt 6; VInt 7])) /\
  eval_kcase {| k_start := 0; k_stages := [SSelectManyG (GHost 10)]; k_take := Some 3; k_vals := ONone; k_pulls := 0; k_ticks := 0 |}
    = (mkst 4 1, OVal (VList false [VInt 10; VInt 11; VInt 12])).
Proof. vm_compute. repeat split. Qed.

Print Assumptions C14_bound_all.
Print Assumptions C14_bound.
Print Assumptions C14_bound_partial.
Print Assumptions C14_short_circuit.
Print Assumptions C14_select_many_lazy.
