(* C09 - Evaluation has no side effects on host data, context or statement.
   (i)  frame theorems on the reference interpreter for Statement.evaluate on a host context chain;
   (ii) a finite obligation over Gen/Mutations.v, the table of every in-place mutation found by the
        fail-closed AST scan of all registered payloads (regenerated from /repo on every run). *)
From Coq Require Import List ZArith Bool Arith.
From YV Require Import Common.Corr Model.Eval Lemmas.EvalFrame Lemmas.EvalHost Gen.Mutations.
From YV Require Model.Convert Lemmas.ConvertSpec.
From YV Require Import Lemmas.EvalWf Lemmas.EvalThreads Lemmas.EvalShift.
Import ListNotations.

(* For ANY host context chain, any context c of it handed to evaluate, any data, any expression:
   every other pre-existing context is unchanged (variables, functions, parent), and c itself is
   changed exactly by the binding of `$` (when data is supplied) - also counting the lambdas that
   run during result finalisation. *)
Theorem C09_context_frame :
  forall fuel host c data e s' r,
    evaluate fuel host c data e = (s', r) ->
    (forall i, i < length host -> i <> c -> nth_error (heap s') i = nth_error host i)
    /\ (forall rc, nth_error host c = Some rc ->
          nth_error (heap s') c = Some match data with
                                       | Some d => {| cparent := cparent rc; cdata := cdata rc ++ [([49%Z], d)]; cfuncs := cfuncs rc |}
                                       | None => rc end).
Proof. exact evaluate_host_frame. Qed.

(* Contexts created by one evaluation are never modified by a later step of the same evaluation
   either: the heap is append-only at every step. *)
Theorem C09_append_only :
  forall f s c e s' r, eval f s c e = (s', r) -> exists h l, heap s' = heap s ++ h /\ log s' = log s ++ l.
Proof. exact eval_ext. Qed.

(* Reuse: a prepared context chain [base] can be used again and again.  Whatever block g of contexts earlier
   evaluations left behind on the heap, evaluating any statement in a fresh child of a context of the chain gives the same
   tick log, the same error, and the same value (context ids allocated by the evaluation itself renamed by [shv]; a
   value without context ids - any JSON-like result - is literally equal).  No garbage collection is modelled: the
   theorem quantifies over ALL g. *)
Theorem C09_reuse :
  forall fuel base g c data e,
    hok base -> c < length base -> vok (length base) data ->
    let j := {| j_parent := c; j_data := data; j_expr := e |} in
    snd (run_job fuel (base ++ g) j)
    = (fst (snd (run_job fuel base j)), shres (shv base g) (snd (snd (run_job fuel base j)))).
Proof. exact garbage_irrelevant. Qed.

Theorem C09_reuse_plain_values : forall base g v, vok 0 v -> shv base g v = v.
Proof. exact shv_idfree. Qed.

(* Every in-place mutation in a registered payload acts on an object built by that very call
   (a fresh local, the payload's own child context, or a helper object private to the evaluation). *)
Definition row_ok (r : mrow) : bool :=
  match m_prov r with Fresh | OwnCtx | EnginePrivate => true | Param | Unknown => false end.

Theorem C09_no_mutating_payload :
  forall r, In r rows -> row_ok r = true.
Proof. apply forallb_forall. vm_compute. reflexivity. Qed.

(* With yaql.convertInputData on (the default) the value bound to `$` is the deep frozen copy of the
   host's data: it contains no mutable container at any depth, so no payload can reach - let alone
   change - a host list, dict or set through it (Model/Convert.v is the model of C10). *)
Theorem C09_input_frozen : forall d, Convert.frozenb (Convert.convert_input d) = true.
Proof. exact ConvertSpec.convert_input_frozen. Qed.

(* the scan is not empty: it saw the payloads and found the (benign) mutations that exist *)
Example C09_scan_nonempty : Nat.leb 200 payloads_scanned && Nat.leb 10 (length rows) = true.
Proof. vm_compute. reflexivity. Qed.

(* "never returns a structure that aliases mutable host data" (Model/ConvertId.v is the identity-carrying version of
   the C10 conversion model: every list, dict and set node carries its allocation index; the same index at two places
   = the same object).  For ANY value [v] that evaluation hands to the finaliser - host containers included, with
   arbitrary aliasing inside [v] - every mutable container of the result is a NEW object: allocated by this
   conversion, distinct from every other container of the result, and not a container of [v].  With input conversion
   on, the value of `$` itself contains no mutable container at all. *)
From YV Require Model.ConvertId Lemmas.ConvertFresh.

Theorem C09_result_not_aliased : forall o v n r n',
  ConvertId.co_id o v n = Convert.Ok (r, n') -> (forall i, In i (ConvertId.cells v) -> i < n) ->
  NoDup (ConvertId.cells r)
  /\ (forall i, In i (ConvertId.cells r) -> n <= i < n')
  /\ (forall i, In i (ConvertId.cells r) -> ~ In i (ConvertId.cells v)).
Proof. exact ConvertFresh.co_id_fresh. Qed.

Theorem C09_dollar_not_aliased : forall o d n r n',
  (forall i, In i (ConvertId.cells d) -> i < n) ->
  ConvertId.co_id o (ConvertId.inj (Convert.convert_input (ConvertId.erase d))) n = Convert.Ok (r, n') ->
  ConvertId.cells (ConvertId.inj (Convert.convert_input (ConvertId.erase d))) = []
  /\ NoDup (ConvertId.cells r)
  /\ (forall i, In i (ConvertId.cells r) -> ~ In i (ConvertId.cells d))
  /\ Convert.convert_output o (Convert.convert_input (ConvertId.erase d)) = Convert.Ok (ConvertId.erase r).
Proof. exact ConvertFresh.dollar_fresh. Qed.

(* A YaqlInterface the host builds on its own context chain, called with positional and keyword parameters: the
   parameters live in a fresh child for that call; EVERY context of the host's chain - the one the interface was built
   on included, and including its `$` - is bit for bit what it was (variables, functions, parent). *)
Theorem C09_interface_call_frame : forall fuel host c pos kw e s' r,
  iface_call fuel host c pos kw e = (s', r) ->
  (exists h l, heap s' = host ++ h /\ log s' = l)
  /\ forall i, i < length host -> nth_error (heap s') i = nth_error host i.
Proof. exact iface_call_host_frame. Qed.
