(* C02 - The operator table decides the parse tree (precedence, associativity).
   Property theorems only; every proof is `exact <lemma>`.
   Models: Model/OpTable.v (factory.py: operator list, insert_operator,
   _build_operator_table), Model/Pratt.v (the reference parser whose decisions are
   yacc's precedence resolution read off the table).  Tied to the code by
   Gen/OpTables.v (regenerated) and by harness/props/c02.py (trees of the real
   parser vs `parse` evaluated in Coq on the real lexer's tokens). *)
From Coq Require Import List ZArith Bool Arith.
From YV Require Import Common.Corr Model.OpTable Model.Pratt Gen.OpTables.
From YV Require Import Lemmas.PrattYield Lemmas.PrattWf Lemmas.PrattShape Lemmas.PrattUnique Lemmas.PrattUniqueFull Lemmas.OpTableInsert Lemmas.OpTableLevels Lemmas.PrattCall Lemmas.OpTableKeyword Lemmas.PrattRanks.
Import ListNotations.
Open Scope Z_scope.

(* ------------------------------------------------------------------ the pinned tables *)
Module Spec.
  (* symbols as code points *)
  Definition dot := [46].        Definition qdot := [63; 46].
  Definition idx := [91; 93].    Definition mp := [123; 125].
  Definition plus := [43].       Definition minus := [45].
  Definition match_ := [61; 126]. Definition nmatch := [33; 126].
  Definition star := [42].       Definition slash := [47].      Definition mod_ := [109; 111; 100].
  Definition gt := [62].         Definition lt := [60].         Definition ge := [62; 61].
  Definition le := [60; 61].     Definition ne := [33; 61].     Definition eq_ := [61].
  Definition in_ := [105; 110].  Definition not_ := [110; 111; 116].
  Definition and_ := [97; 110; 100]. Definition or_ := [111; 114].
  Definition arrow := [45; 62].  Definition fat := [61; 62].
  Definition s_not_equal := [110; 111; 116; 95; 101; 113; 117; 97; 108].
  Definition s_equal := [101; 113; 117; 97; 108].

  (* factory.py:102-141, tightest group first *)
  Definition standard : oplist := [
    Op dot KLeft None; Op qdot KLeft None; Sep;
    Op idx KLeft None; Op mp KLeft None; Sep;
    Op plus KPrefix None; Op minus KPrefix None; Sep;
    Op match_ KLeft None; Op nmatch KLeft None; Sep;
    Op star KLeft None; Op slash KLeft None; Op mod_ KLeft None; Sep;
    Op plus KLeft None; Op minus KLeft None; Sep;
    Op gt KLeft None; Op lt KLeft None; Op ge KLeft None; Op le KLeft None;
    Op ne KLeft (Some s_not_equal); Op eq_ KLeft (Some s_equal); Op in_ KLeft None; Sep;
    Op not_ KPrefix None; Sep;
    Op and_ KLeft None; Sep;
    Op or_ KLeft None; Sep;
    Op arrow KRight None ].

  (* YaqlFactory(): the keyword operator `=>` is put in front *)
  Definition default_ops : oplist := Op fat KNameValue None :: standard.

  (* legacy.YaqlFactory(): no keyword operator; `=>` is a left-associative binary
     operator in a group of its own between `or` and `->` *)
  Definition legacy_ops : oplist :=
    firstn 32 standard ++ [Sep; Op fat KLeft None] ++ skipn 32 standard.
End Spec.

(* ------------------------------------------------------------------ theorems *)

(* nothing is dropped, reordered or invented: the tree spells the token list *)
Theorem C02_yield : forall T ts t, parse T ts = Some t -> yield t = ts.
Proof. exact parse_yield. Qed.

(* the tree obeys the table ([wf], Model/Pratt.v): for every binary node the open
   nodes on the right spine of its left operand bind tighter (earlier group), or
   sit in the same group and that group associates to the left; the nodes on the
   left spine of its right operand bind tighter, or sit in the same group and the
   group associates to the right; the operand of a prefix operator satisfies the
   same left-spine condition against the operator's own group (it is the tightest
   operand that group allows); suffix operators and indexers apply to an operand
   whose right spine binds tighter; parentheses, brackets and arguments start afresh *)
Theorem C02_precedence_correct : forall T ts t, parse T ts = Some t -> wf T t.
Proof. exact parse_wf. Qed.

(* every argument list of the tree follows the args grammar of parser.py ([shaped]) *)
Theorem C02_args_shape : forall T ts t, parse T ts = Some t -> shaped t.
Proof. exact parse_shaped. Qed.

(* ... and it is the only such tree: a tree that obeys the table (and whose argument
   lists follow the args grammar) is what the parser returns for its own text - for ALL
   trees: atoms, prefix, suffix and binary operators, parentheses, indexers, lists, maps,
   function and method calls with empty slots and named arguments *)
Theorem C02_unique : forall T t, wf T t -> shaped t -> parse T (yield t) = Some t.
Proof. exact parse_unique. Qed.

(* hence: the parser's tree is THE precedence-correct tree of the text *)
Theorem C02_unique_tree : forall T ts t t',
  parse T ts = Some t -> wf T t' -> shaped t' -> yield t' = ts -> t' = t.
Proof.
  exact (fun T ts t t' H W S Y =>
    f_equal (fun o => match o with Some x => x | None => t' end)
      (eq_trans (eq_sym (parse_unique T t' W S)) (eq_trans (f_equal (parse T) Y) H))).
Qed.

(* the core fragment (atoms, prefix, binary, parentheses) has no argument lists, so
   [shaped] is not needed there (first delivery, kept) *)
Theorem C02_unique_core : forall T t, core t -> wf T t -> parse T (yield t) = Some t.
Proof. exact parse_unique_core. Qed.

(* delegate calls (`value(args)`, factories created with allow_delegates): in the table the
   model uses for such engines the call has a rank of its own below every operator of the
   table - every pending prefix, suffix or binary rule is completed before the call applies
   (`a + b (c)` is `(a + b)(c)`); C02_yield .. C02_unique_tree above hold for such tables too *)
Theorem C02_call_binds_loosest : forall B o q,
  pre (table_of_delegates B) o = Some q \/ suf (table_of_delegates B) o = Some q \/
  bin (table_of_delegates B) o = Some q ->
  exists c, callr (table_of_delegates B) = Some c /\ continues c (Some q) = false /\ continues c None = true.
Proof.
  exact (fun B o q H => ex_intro _ (call_rank B) (conj eq_refl (conj (call_reduces_all B o q H) eq_refl))).
Qed.

(* parse depends on the table only through the ranks: tables that give every symbol the same
   prefix, suffix and binary rank (and the same delegate-call rank) parse every token list
   to the same tree *)
Theorem C02_parse_depends_on_ranks : forall T T',
  (forall o, pre T o = pre T' o) /\ (forall o, suf T o = suf T' o) /\
  (forall o, bin T o = bin T' o) /\ callr T = callr T' ->
  forall ts, parse T ts = parse T' ts.
Proof. exact parse_ext. Qed.

(* in particular ply token names and aliases decide nothing about the shape of the tree *)
Theorem C02_parse_ignores_names_and_aliases : forall B ts,
  parse (table_of B) ts = parse (table_of (strip_names B)) ts.
Proof. exact (fun B => parse_ext _ _ (strip_names_same_ranks B)). Qed.

(* the keyword-operator row (NAME_VALUE_PAIR; `=>` by default, absent with
   keyword_operator=None, any symbol for a custom one) takes no part in precedence: without
   it _build_operator_table yields the same rows, hence the same parser tables *)
Theorem C02_keyword_operator_transparent : forall ops B,
  build_table ops = Some B ->
  build_table (drop_nv ops) = Some {| rows := rows B; nvop := None |} /\
  table_of {| rows := rows B; nvop := None |} = table_of B /\
  table_of_delegates {| rows := rows B; nvop := None |} = table_of_delegates B.
Proof. exact keyword_row_transparent. Qed.

(* insert_operator, read on the groups of the list (group k from 0 gets level k+1):
   with an anchor, the groups before the first group holding the anchor and that group
   itself are untouched; the new operator is appended to that group, or forms a new group
   right after it (only groups that were already empty may lie between); everything else
   keeps its group, its place in the group and the order of the groups *)
Theorem C02_insert_operator : forall ops a b new c ops',
  is_op new = true ->
  insert_operator ops (Some a) b new c = Some ops' ->
  exists pre g post,
    groups ops = pre ++ g :: post /\
    Forall (fun g' => has_anchor a b g' = false) pre /\ has_anchor a b g = true /\
    if c then exists empties post', post = empties ++ post' /\ Forall (fun g => g = []) empties /\
                                    groups ops' = pre ++ g :: empties ++ [new] :: post'
    else groups ops' = pre ++ (g ++ [new]) :: post.
Proof. exact insert_anchor_groups. Qed.

(* without an anchor: the front of the first group, or a new first group *)
Theorem C02_insert_operator_front : forall ops b new c ops',
  is_op new = true ->
  insert_operator ops None b new c = Some ops' ->
  if c then exists empties post', groups ops = empties ++ post' /\ Forall (fun g => g = []) empties /\
                                  groups ops' = empties ++ [new] :: post'
  else groups ops' = consg new (groups ops).
Proof. exact insert_front_groups. Qed.

(* no empty group is created (a group is empty when nothing in it gives it a precedence
   level; NAME_VALUE_PAIR does not) *)
Theorem C02_insert_no_empty_group : forall ops anchor b new c ops',
  has_role new = true ->
  insert_operator ops anchor b new c = Some ops' ->
  groups_ok ops -> groups_ok ops'.
Proof. exact insert_keeps_groups_ok. Qed.

(* hence every table reachable from the default or the legacy one by insert_operator calls
   has an operator in every group: the levels 1..n are all in use, which is what the
   loop `for i in range(1, len(precedence_dict) + 1)` of parser.py relies on *)
Lemma default_groups_ok : groups_ok Spec.default_ops.
Proof. unfold groups_ok. vm_compute. repeat constructor. Qed.
Lemma legacy_groups_ok : groups_ok Spec.legacy_ops.
Proof. unfold groups_ok. vm_compute. repeat constructor. Qed.

Theorem C02_reachable_contiguous : forall ops,
  reachable Spec.default_ops ops \/ reachable Spec.legacy_ops ops -> groups_ok ops.
Proof.
  exact (fun ops H => match H with
                      | or_introl R => reachable_groups_ok _ ops default_groups_ok R
                      | or_intror R => reachable_groups_ok _ ops legacy_groups_ok R
                      end).
Qed.

(* ... and therefore parser.py drops no level: for every operator list reachable from the
   default or legacy table (more generally: whenever every group holds a role), the levels
   _build_operator_table records are exactly 1..G, precedence_dict has at least G keys, and
   `for i in range(1, len(precedence_dict) + 1)` visits every level that is in use *)
Theorem C02_no_level_dropped_groups : forall ops B,
  groups_ok ops -> build_table ops = Some B -> all_levels_visited B = true.
Proof. exact groups_ok_all_levels_visited. Qed.

Theorem C02_no_level_dropped : forall ops B,
  reachable Spec.default_ops ops \/ reachable Spec.legacy_ops ops ->
  build_table ops = Some B -> all_levels_visited B = true.
Proof. exact (fun ops B R => groups_ok_all_levels_visited ops B (C02_reachable_contiguous ops R)). Qed.

(* the live tables are the documented ones (keyword_operator=None just omits the `=>` row,
   allow_delegates does not touch the list), and the model of _build_operator_table
   reproduces the live result (levels and aliases per symbol; ply token names are
   internal and ignored); every level of the live
   tables is visited by the precedence loop of parser.py *)
Theorem C02_tables_pinned :
  default_ops = Spec.default_ops /\ legacy_ops = Spec.legacy_ops /\
  nokw_ops = Spec.standard /\ drop_nv default_ops = nokw_ops /\ delegates_ops = default_ops /\
  option_map strip_names (build_table default_ops) = option_map strip_names default_built /\
  option_map strip_names (build_table legacy_ops) = option_map strip_names legacy_built /\
  default_built <> None /\ legacy_built <> None /\
  option_map all_levels_visited default_built = Some true /\
  option_map all_levels_visited legacy_built = Some true.
Proof.
  split; [vm_compute; reflexivity|]. split; [vm_compute; reflexivity|].
  split; [vm_compute; reflexivity|]. split; [vm_compute; reflexivity|]. split; [vm_compute; reflexivity|].
  split; [vm_compute; reflexivity|]. split; [vm_compute; reflexivity|].
  split; [discriminate|]. split; [discriminate|].
  split; vm_compute; reflexivity.
Qed.

(* ------------------------------------------------------------------ examples (non-vacuity) *)
Definition Tdef : table :=
  match build_table Spec.default_ops with
  | Some b => table_of b
  | None => {| pre := fun _ => None; suf := fun _ => None; bin := fun _ => None; callr := None |}
  end.

Ltac parsed_wf := cbv zeta; match goal with |- ?P /\ _ => assert (H : P) by (vm_compute; reflexivity); split; [exact H | exact (parse_wf _ _ _ H)] end.

(* a * - b + c *)
Example ex_mul_neg_add :
  let t := Bin Spec.plus (Bin Spec.star (Atom 0) (Un Spec.minus (Atom 1))) (Atom 2) in
  parse Tdef [TAtom 0; TOp Spec.star; TOp Spec.minus; TAtom 1; TOp Spec.plus; TAtom 2] = Some t /\ wf Tdef t.
Proof. parsed_wf. Qed.

(* not a = b and c *)
Example ex_not_eq_and :
  let t := Bin Spec.and_ (Un Spec.not_ (Bin Spec.eq_ (Atom 0) (Atom 1))) (Atom 2) in
  parse Tdef [TOp Spec.not_; TAtom 0; TOp Spec.eq_; TAtom 1; TOp Spec.and_; TAtom 2] = Some t /\ wf Tdef t.
Proof. parsed_wf. Qed.

(* a -> b -> c *)
Example ex_arrow_right :
  let t := Bin Spec.arrow (Atom 0) (Bin Spec.arrow (Atom 1) (Atom 2)) in
  parse Tdef [TAtom 0; TOp Spec.arrow; TAtom 1; TOp Spec.arrow; TAtom 2] = Some t /\ wf Tdef t.
Proof. parsed_wf. Qed.

(* -a.b[0] *)
Example ex_neg_dot_index :
  let t := Un Spec.minus (Index (Bin Spec.dot (Atom 0) (Atom 1)) (AVal (Atom 2) ANil)) in
  parse Tdef [TOp Spec.minus; TAtom 0; TOp Spec.dot; TAtom 1; TLB; TAtom 2; TRB] = Some t /\ wf Tdef t.
Proof. parsed_wf. Qed.

(* f(a, , b => c).m(d)[e, f] - calls, empty slot, named argument, method call, index *)
Example ex_calls :
  exists t,
  parse Tdef [TFunc [102]; TAtom 0; TComma; TComma; TAtom 1; TMap; TAtom 2; TRP; TOp Spec.dot;
              TFunc [109]; TAtom 3; TRP; TLB; TAtom 4; TComma; TAtom 5; TRB] = Some t /\ wf Tdef t.
Proof. eexists. parsed_wf. Qed.

(* with delegates: a + b (c)  is  (a + b)(c);  - a (b)[0]  is  ((- a)(b))[0] *)
Definition Tdel : table :=
  match build_table Spec.default_ops with
  | Some b => table_of_delegates b
  | None => {| pre := fun _ => None; suf := fun _ => None; bin := fun _ => None; callr := None |}
  end.
Example ex_delegate_calls :
  parse Tdel [TAtom 0; TOp Spec.plus; TAtom 1; TLP; TAtom 2; TRP]
    = Some (CallV (Bin Spec.plus (Atom 0) (Atom 1)) (AVal (Atom 2) ANil)) /\
  parse Tdel [TOp Spec.minus; TAtom 0; TLP; TAtom 1; TRP; TLB; TAtom 2; TRB]
    = Some (Index (CallV (Un Spec.minus (Atom 0)) (AVal (Atom 1) ANil)) (AVal (Atom 2) ANil)) /\
  parse Tdef [TAtom 0; TOp Spec.plus; TAtom 1; TLP; TAtom 2; TRP] = None.
Proof. repeat split; vm_compute; reflexivity. Qed.

(* wf discriminates: the other bracketings of these texts do not obey the table *)
Example ex_wrong_grouping_not_wf :
  ~ wf Tdef (Bin Spec.star (Atom 0) (Bin Spec.plus (Un Spec.minus (Atom 1)) (Atom 2))) /\
  ~ wf Tdef (Bin Spec.arrow (Bin Spec.arrow (Atom 0) (Atom 1)) (Atom 2)) /\
  ~ wf Tdef (Bin Spec.and_ (Bin Spec.eq_ (Un Spec.not_ (Atom 0)) (Atom 1)) (Atom 2)).
Proof.
  split; [|split].
  - intros [q [Q [_ [_ [_ [[q' [Q' C]] _]]]]]]. vm_compute in Q, Q'. inversion Q; inversion Q'; subst.
    vm_compute in C. discriminate.
  - intros [q [Q [_ [_ [[[q' [Q' C]] _] _]]]]]. vm_compute in Q, Q'. inversion Q; inversion Q'; subst.
    vm_compute in C. discriminate.
  - intros [q [Q [[q1 [Q1 [_ [_ [[[q' [Q' C]] _] _]]]]] _]]]. vm_compute in Q1, Q'. inversion Q1; inversion Q'; subst.
    vm_compute in C. discriminate.
Qed.

(* insert_operator as legacy.py uses it: `=>` after `or` in a group of its own *)
Example ex_legacy_insert :
  insert_operator Spec.standard (Some Spec.or_) true (Op Spec.fat KLeft None) true = Some Spec.legacy_ops.
Proof. vm_compute. reflexivity. Qed.

(* why C02_insert_no_empty_group asks for [has_role new]: a NAME_VALUE_PAIR operator gives its
   group no precedence level; inserted with create_group it leaves a level unused and the
   range loop of parser.py then never reaches the loosest level (outside the property's
   quantifier: such a group is not homogeneous) *)
Example ex_namevalue_group_is_empty :
  exists ops',
    insert_operator Spec.legacy_ops (Some Spec.or_) true (Op [58; 61] KNameValue None) true = Some ops' /\
    ~ groups_ok ops' /\
    option_map all_levels_visited (build_table ops') = Some false.
Proof.
  eexists. split; [vm_compute; reflexivity|]. split; [|vm_compute; reflexivity].
  intro H. unfold groups_ok in H. rewrite Forall_forall in H.
  specialize (H [Op [58; 61] KNameValue None]).
  assert (I : In [Op [58; 61] KNameValue None]
                (groups (firstn 32 Spec.standard ++ [Sep; Op [58; 61] KNameValue None; Sep; Op Spec.fat KLeft None] ++ skipn 32 Spec.standard))).
  { vm_compute. repeat (try (left; reflexivity); right). }
  apply H in I. vm_compute in I. discriminate.
Qed.
