(* C19 - String and regex functions agree with their reference model.
   Property theorems only; every proof is `exact <lemma>`.  The model is
   Model/Strings.v (+ Model/Regex.v), tied to yaql/standard_library/strings.py and
   regex.py by the value correspondence of harness/props/c19.py. *)
From Coq Require Import List ZArith Bool.
From YV Require Import Common.Corr Model.Strings Lemmas.StringsSlice.
Import ListNotations.
Open Scope Z_scope.

(* substring(start, length): for -len <= start the result is L characters from position S,
   S = start (+ len if negative), L = length (all of the rest if negative) *)
Theorem C19_substring : forall s start length, - zlen s <= start ->
  substring s start length = firstn (sub_len s length) (skipn (sub_start s start) s).
Proof. exact substring_spec. Qed.

Example C19_substring_ex :
  substring [97; 98; 99; 100] (-3) 2 = [98; 99] /\ substring [97; 98; 99; 100] 1 (-1) = [98; 99; 100].
Proof. vm_compute. split; reflexivity. Qed.

Print Assumptions C19_substring.
