(* C19 - String and regex functions agree with their reference model.
   Property theorems only; every proof is `exact <lemma>`.  The models are
   Model/Strings.v and Model/Regex.v, tied to yaql/standard_library/strings.py and
   regex.py by the value correspondence of harness/props/c19.py.
   Strings are lists of code points; all theorems hold for ALL strings and integers. *)
From Coq Require Import List ZArith Bool Sorted.
From YV Require Import Common.Corr Model.Strings Model.Regex Model.RegexEngine Gen.CaseMap Model.CaseMap Model.StringKinds.
From YV Require Import Lemmas.StringsSlice Lemmas.StringsFind Lemmas.StringsSplit Lemmas.StringsTrim Lemmas.StringsOrder Lemmas.RegexPublish Lemmas.RegexEngineFacts Lemmas.CaseMapFacts Lemmas.StringsMisc.
Import ListNotations.
Open Scope Z_scope.

(* ---- substring -------------------------------------------------------------------- *)
(* substring(start, length): for -len <= start the result is L characters from position S,
   S = start (+ len if negative), L = length (all of the rest if negative) *)
Theorem C19_substring : forall s start length, - zlen s <= start ->
  substring s start length = firstn (sub_len s length) (skipn (sub_start s start) s).
Proof. exact substring_spec. Qed.

Theorem C19_substring_rest : forall s start length, - zlen s <= start -> length < 0 ->
  substring s start length = skipn (sub_start s start) s.
Proof. exact substring_rest. Qed.

(* ---- indexOf / lastIndexOf ------------------------------------------------------------ *)
(* [occurs_at s sub i]: s = pre ++ sub ++ post with |pre| = i.
   [first_in_window s sub lo hi r]: r = -1 and sub occurs nowhere in [lo, hi], or r is the
   least position in [lo, hi] where it occurs; [last_in_window]: the greatest. *)
Theorem C19_index_of : forall s sub start,
  first_in_window s sub (io_lo s start) (zlen s - zlen sub) (index_of s sub start).
Proof. exact index_of_spec. Qed.

Theorem C19_last_index_of : forall s sub start,
  last_in_window s sub (io_lo s start) (zlen s - zlen sub) (last_index_of s sub start).
Proof. exact last_index_of_spec. Qed.

(* the overloads without start: soundness, leastness (greatestness), completeness *)
Theorem C19_index_of_default : forall s sub,
  let r := index_of s sub 0 in
  (r = -1 /\ forall i, ~ occurs_at s sub i) \/ (occurs_at s sub r /\ forall i, occurs_at s sub i -> r <= i).
Proof. exact index_of_default. Qed.

Theorem C19_last_index_of_default : forall s sub,
  let r := last_index_of s sub 0 in
  (r = -1 /\ forall i, ~ occurs_at s sub i) \/ (occurs_at s sub r /\ forall i, occurs_at s sub i -> i <= r).
Proof. exact last_index_of_default. Qed.

(* with start and length, -len <= start: the occurrence lies inside [S, min(len, S + L)) *)
Theorem C19_index_of_window : forall s sub start length, - zlen s <= start ->
  first_in_window s sub (io_start s start)
    (Z.min (zlen s) (io_start s start + io_length s start length) - zlen sub) (index_of3 s sub start length).
Proof. exact index_of3_spec. Qed.

Theorem C19_last_index_of_window : forall s sub start length, - zlen s <= start ->
  last_in_window s sub (io_start s start)
    (Z.min (zlen s) (io_start s start + io_length s start length) - zlen sub) (last_index_of3 s sub start length).
Proof. exact last_index_of3_spec. Qed.

Theorem C19_in : forall sub s, str_in sub s = true <-> exists i, occurs_at s sub i.
Proof. exact str_in_spec. Qed.

(* ---- split / join --------------------------------------------------------------------- *)
(* joining what split (or rightSplit) produced gives the string back, for every maxSplits;
   an empty separator is the only error *)
Theorem C19_split_join : forall s sep cnt,
  (sep <> [] -> join sep (split_sep sep s cnt) = s /\ join sep (rsplit_sep sep s cnt) = s) /\
  (forall l, str_split s (Some sep) cnt = inr l -> sep <> [] /\ join sep l = s) /\
  (forall l, str_rsplit s (Some sep) cnt = inr l -> sep <> [] /\ join sep l = s) /\
  str_split s (Some []) cnt = inl EValue.
Proof.
  exact (fun s sep cnt => conj (fun H => conj (split_join sep s cnt H) (rsplit_join sep s cnt H))
          (conj (str_split_join s sep cnt) (conj (str_rsplit_join s sep cnt) (proj1 (str_split_empty_sep s cnt))))).
Qed.

(* splitting what join produced gives the parts back - for a one-character separator that
   occurs in no part.  (DESIGN.md states it for every separator that no part contains; that
   is refuted below, so this is the _partial form.) *)
Theorem C19_join_split_partial : forall c parts cnt, parts <> [] -> cnt < 0 ->
  Forall (fun p => ~ In c p) parts -> split_sep [c] (join [c] parts) cnt = parts.
Proof. exact join_split_single. Qed.

Theorem C19_join_split_refuted : exists sep parts,
  parts <> [] /\ Forall (fun p => str_in sep p = false) parts /\ split_sep sep (join sep parts) (-1) <> parts.
Proof.
  exists [97; 97], [[97]; []]. split; [discriminate|]. split; [repeat constructor|]. vm_compute. discriminate.
Qed.

(* at most maxSplits separators are consumed *)
Theorem C19_split_count : forall s sep cnt, 0 <= cnt ->
  (length (split_sep sep s cnt) <= Z.to_nat cnt + 1)%nat.
Proof. exact (fun s sep cnt => replace_fields_bound s sep cnt). Qed.

(* ---- trim ------------------------------------------------------------------------------- *)
(* s = p ++ trim s ++ q with p, q made of set characters only, maximal *)
Theorem C19_trim : forall s chars, exists p q,
  s = p ++ trim s chars ++ q /\ all_in (charset chars) p /\ all_in (charset chars) q /\
  head_out (charset chars) (trim s chars) /\ last_out (charset chars) (trim s chars).
Proof. exact (fun s chars => strip_spec (charset chars) s). Qed.

Theorem C19_trim_left : forall s chars, exists p,
  s = p ++ trim_left s chars /\ all_in (charset chars) p /\ head_out (charset chars) (trim_left s chars).
Proof. exact (fun s chars => lstrip_spec (charset chars) s). Qed.

Theorem C19_trim_right : forall s chars, exists q,
  s = trim_right s chars ++ q /\ all_in (charset chars) q /\ last_out (charset chars) (trim_right s chars).
Proof. exact (fun s chars => rstrip_spec (charset chars) s). Qed.

Theorem C19_charset : forall cs c, charset (Some cs) c = true <-> In c cs.
Proof. exact (fun cs c => memb_In c cs). Qed.

(* ---- norm / isEmpty ------------------------------------------------------------------------ *)
Theorem C19_norm_isempty : forall s chars,
  (is_empty s true chars = true <-> norm s chars = None) /\
  (forall t v, s = Some t -> (norm s chars = Some v <-> v = trim t chars /\ v <> [])) /\
  (forall t, s = Some t -> (is_empty s false chars = true <-> t = [])).
Proof.
  exact (fun s chars => conj (norm_isempty s chars)
          (conj (fun t v E => eq_ind_r (fun s0 => norm s0 chars = Some v <-> v = trim t chars /\ v <> []) (norm_some t chars v) E)
                (fun t E => eq_ind_r (fun s0 => is_empty s0 false chars = true <-> t = []) (is_empty_notrim t chars) E))).
Qed.

(* ---- startsWith / endsWith -------------------------------------------------------------------- *)
Theorem C19_starts_ends : forall s ps,
  (starts_with s ps = true <-> exists p, In p ps /\ exists t, s = p ++ t) /\
  (ends_with s ps = true <-> exists p, In p ps /\ exists t, s = t ++ p).
Proof. exact (fun s ps => conj (starts_with_spec s ps) (ends_with_spec s ps)). Qed.

(* ---- replace ------------------------------------------------------------------------------------ *)
(* replace(old, new, count) is split on old (count splits at most) joined by new; count = 0 and
   new = old change nothing *)
Theorem C19_replace_count : forall s old new cnt,
  (old <> [] -> str_replace s old new cnt = join new (split_sep old s cnt)) /\
  str_replace s old new 0 = s /\
  (old <> [] -> str_replace s old old cnt = s).
Proof.
  exact (fun s old new cnt => conj (replace_split_join s old new cnt) (conj (replace_zero s old new) (replace_same s old cnt))).
Qed.

(* a dictionary is applied sequentially, in item order *)
Theorem C19_replace_dict : forall s k v rest cnt,
  replace_dict s ((k, v) :: rest) cnt = replace_dict (str_replace s (str_of k) (str_of v) cnt) rest cnt /\
  replace_dict s [] cnt = s.
Proof. exact (fun s k v rest cnt => conj eq_refl eq_refl). Qed.

(* ---- toCharArray, *, characters -------------------------------------------------------------------- *)
Theorem C19_to_char_array : forall s,
  concat (to_char_array s) = s /\ join [] (to_char_array s) = s /\ length (to_char_array s) = length s.
Proof. exact to_char_array_spec. Qed.

Theorem C19_mul : forall s n,
  (n <= 0 -> str_mul s n = []) /\ (0 <= n -> zlen (str_mul s n) = n * zlen s) /\
  str_mul s (n + 1) = (if n <? 0 then str_mul s (n + 1) else s ++ str_mul s n).
Proof. exact str_mul_spec. Qed.

(* characters(): exactly the members of the selected documented classes, as a set *)
Theorem C19_characters : forall f,
  (forall c, In c (characters f) <-> In c (characters_string f)) /\ StronglySorted Z.lt (characters f).
Proof. exact characters_spec. Qed.

(* ---- < <= > >= and toUpper/toLower (ASCII) ------------------------------------------------------------ *)
(* the comparison operators are one strict total order by code point (and its reflexive closure):
   a proper prefix is smaller, otherwise the first differing code point decides *)
Theorem C19_compare : forall a b c,
  str_ltb a a = false /\ (str_ltb a b = true \/ a = b \/ str_ltb b a = true) /\
  (str_ltb a b = true -> str_ltb b c = true -> str_ltb a c = true) /\
  (c <> [] -> str_ltb a (a ++ c) = true) /\
  str_cmp OpGt a b = str_cmp OpLt b a /\ str_cmp OpGe a b = str_cmp OpLe b a /\
  str_cmp OpLe a b = negb (str_cmp OpLt b a) /\
  (str_cmp OpLe a b = true <-> str_cmp OpLt a b = true \/ a = b).
Proof.
  exact (fun a b c => conj (str_ltb_irrefl a) (conj (str_ltb_trichotomy a b) (conj (str_ltb_trans a b c)
          (conj (str_ltb_prefix a c) (str_cmp_spec a b))))).
Qed.

Theorem C19_compare_first_diff : forall p x y a b, x < y -> str_ltb (p ++ x :: a) (p ++ y :: b) = true.
Proof. exact str_ltb_first_diff. Qed.

Theorem C19_case_ascii : forall s,
  length (ascii_upper s) = length s /\ length (ascii_lower s) = length s /\
  ascii_upper (ascii_upper s) = ascii_upper s /\ ascii_lower (ascii_lower s) = ascii_lower s /\
  ascii_upper (ascii_lower s) = ascii_upper s /\ ascii_lower (ascii_upper s) = ascii_lower s.
Proof. exact case_map_spec. Qed.

(* ---- toUpper / toLower on the regenerated simple case mapping (BMP) ------------------------------------------
   [upper_pairs] / [lower_pairs] are regenerated from the running interpreter on every run (Gen/CaseMap.v);
   the facts below are re-checked against the regenerated table. *)
Theorem C19_case_unicode : forall s,
  length (uni_upper s) = length s /\ length (uni_lower s) = length s /\
  uni_upper (uni_upper s) = uni_upper s /\ uni_lower (uni_lower s) = uni_lower s /\
  (is_ascii s = true -> uni_upper s = ascii_upper s /\ uni_lower s = ascii_lower s).
Proof. exact case_unicode_spec. Qed.

(* per code point: the result is the table row of the code point, or the code point itself *)
Theorem C19_case_table : forall c,
  (In (c, uni_upper_c c) upper_pairs \/ uni_upper_c c = c) /\ (In (c, uni_lower_c c) lower_pairs \/ uni_lower_c c = c).
Proof. exact (fun c => conj (uni_upper_c_spec c) (uni_lower_c_spec c)). Qed.

Example C19_case_ex :
  uni_upper [233; 1103; 97] = [201; 1071; 65] /\ uni_lower [201; 1071; 65] = [233; 1103; 97] /\
  covered_upper [223] = false /\ covered_lower [304] = false /\ covered_lower [931] = false.
Proof. vm_compute. repeat split. Qed.

(* ---- hex, escapeRegex, isString, isRegex ---------------------------------------------------------------------- *)
(* escapeRegex: reading the escaped text back (a backslash makes the next character literal) gives the
   text; text without special characters is unchanged; at most one backslash per character *)
Theorem C19_escape_regex : forall s,
  unescape (escape_regex s) = s /\
  (forallb (fun c => negb (memb c re_special)) s = true -> escape_regex s = s) /\
  (length s <= length (escape_regex s) <= 2 * length s)%nat.
Proof. exact (fun s => conj (unescape_escape s) (conj (escape_plain s) (escape_length s))). Qed.

(* hex: sign and the one-digit numbers; the multi-digit recursion is covered by C only (hence _partial) *)
Theorem C19_hex_partial : forall n,
  (n < 0 -> hex_of n = 45 :: hex_of (- n)) /\ (0 <= n < 16 -> hex_of n = [48; 120; hex_digit n]).
Proof. exact (fun n => conj (hex_negative n) (hex_small n)). Qed.

Example C19_hex_ex : hex_of 256 = [48; 120; 49; 48; 48] /\ hex_of (-255) = [45; 48; 120; 102; 102] /\ hex_of 0 = [48; 120; 48].
Proof. vm_compute. repeat split. Qed.

Theorem C19_is_string_regex : forall v,
  (is_string v = true <-> exists s, v = SStr s) /\ is_regex (Some v) = false /\ is_regex None = true.
Proof. exact is_string_regex_spec. Qed.

(* ---- the KIND of the collection results ---------------------------------------------------------------------
   toCharArray, split, rightSplit, characters, regex split return a yaql list (never a mutable Python list,
   which is not a yaql value), searchAll a lazy sequence; finalised: a list by default, a tuple for a list
   when yaql.convertTuplesToLists is off (legacy engine).  On the current tree split / rightSplit / regex
   split returned a Python list (F23, fixed by 808fb38); any function doing so is a VIOLATION. *)
Theorem C19_collection_kinds : forall f,
  result_kind f <> RKList /\ result_kind f <> RKOther /\
  finalised true (result_kind f) = FKList /\
  (finalised false (result_kind f) = FKTuple <-> result_kind f = RKTuple) /\
  (result_kind f = RKIter <-> f = FSearchAll \/ f = FSearchAllSel).
Proof. exact collection_kinds_spec. Qed.

(* ---- join / replace(dict) use the context's str conversion (the injected delegate), in every spelling ---- *)
Theorem C19_join_conv : forall f parts sep s k v rest cnt,
  join_with f parts sep = join sep (map f parts) /\
  join_with str_of parts sep = join_scalars parts sep /\
  replace_dict_with str_of s rest cnt = replace_dict s rest cnt /\
  replace_dict_with f s ((k, v) :: rest) cnt = replace_dict_with f (str_replace s (f k) (f v) cnt) rest cnt /\
  (forall g, (forall x, In x parts -> f x = g x) -> join_with f parts sep = join_with g parts sep).
Proof. exact conv_spec. Qed.

(* ---- _publish_match ------------------------------------------------------------------------------------ *)
(* after _publish_match m: $1 is the whole match, $(i+2) is group i+1, $name is the record of the
   group of that name; nothing else is published *)
Theorem C19_publish : forall m,
  ctx_get (KNum 1) (publish m) = Some (m_whole m) /\
  (forall i, (i < length (m_groups m))%nat -> ctx_get (KNum (i + 2)) (publish m) = Some (nth i (m_groups m) none_rec)) /\
  (NoDup (map fst (m_named m)) -> forall nm idx, In (nm, idx) (m_named m) ->
     ctx_get (KName nm) (publish m) = Some (group m idx)) /\
  (forall n, (n = 0 \/ length (m_groups m) + 2 <= n)%nat -> ctx_get (KNum n) (publish m) = None) /\
  (forall nm, ~ In nm (map fst (m_named m)) -> ctx_get (KName nm) (publish m) = None).
Proof.
  exact (fun m => conj (publish_whole m) (conj (publish_group m) (conj (fun H nm idx => publish_named m nm idx H)
          (conj (publish_no_other_number m) (publish_no_other_name m))))).
Qed.

(* searchAll with a selector that returns a LAZY sequence: element i of the result shows the
   records of match i, also when the outer sequence is materialised, reversed or sliced first *)
Theorem C19_search_all_per_match : forall ms sel,
  search_all_lazy ms sel CToList = map (lsel_eval sel) ms /\
  search_all_lazy ms sel CPlain = search_all_lazy ms sel CToList /\
  search_all_lazy ms sel CReverse = rev (search_all_lazy ms sel CToList) /\
  search_all_lazy ms sel CTake1 = firstn 1 (search_all_lazy ms sel CToList) /\
  search_all_lazy ms sel CSkip1 = skipn 1 (search_all_lazy ms sel CToList) /\
  (forall i m, nth_error ms i = Some m ->
     nth_error (search_all_lazy ms sel CToList) i = Some (lsel_eval sel m)).
Proof. exact search_all_per_match. Qed.

Theorem C19_lazy_selector_reads_own_match : forall m k g, ctx_get k (publish m) = Some g ->
  (forall n, lsel_eval (LValue k n) m = repeat (VStr (fst (fst g))) n) /\
  lsel_eval (LSpan k) m = [VInt (snd (fst g)); VInt (snd g)] /\
  (forall thr, lsel_eval (LWhere k thr) m = if snd g >? thr then [VStr (Some [120])] else []).
Proof. exact lsel_reads_published. Qed.

(* regex 'a(.)' on "abac": [0].select($2.value) per match, materialised first *)
Example C19_search_all_lazy_ex :
  let m1 := {| m_whole := (Some [97; 98], 0, 2); m_groups := [(Some [98], 1, 2)]; m_named := [] |} in
  let m2 := {| m_whole := (Some [97; 99], 2, 4); m_groups := [(Some [99], 3, 4)]; m_named := [] |} in
  search_all_lazy [m1; m2] (LValue (KNum 2) 1) CToList = [[VStr (Some [98])]; [VStr (Some [99])]] /\
  search_all_lazy [m1; m2] (LValue (KNum 2) 1) CReverse = [[VStr (Some [99])]; [VStr (Some [98])]].
Proof. vm_compute. split; reflexivity. Qed.

(* replaceBy/replace/split: no match, nothing changes; one match: prefix ++ replacement ++ suffix *)
Theorem C19_replace_by_partial : forall s items repl cnt,
  replace_by s [] items cnt = s /\ replace_lit s [] repl cnt = s /\ regex_split s [] cnt = [Some s].
Proof. exact no_match_identity. Qed.

Theorem C19_replace_by_one : forall s m f v st en, m_whole m = (v, st, en) ->
  splice s 0 [m] f = firstn (Z.to_nat st) s ++ f m ++ skipn (Z.to_nat en) s.
Proof. exact splice_one. Qed.

(* ---- the modelled regex engine (Model/RegexEngine.v) ------------------------------------------------------
   For patterns of the modelled language the match records are no longer an arbitrary oracle: they are
   computed by the backtracking matcher, and matches / search / searchAll / split / replace / replaceBy
   are stated on top of it ([eeval]).  Positions are [nat] here. *)

(* fuel suffices: a result obtained with some fuel is the result for every larger fuel; the bound on the
   number of matches (2 * length + 3) is never what runs out *)
Theorem C19_engine_fuel_suffices : forall f f' fl p s op r, (f <= f')%nat ->
  eeval f fl p s op = Some r -> eeval f' fl p s op = Some r.
Proof. exact eeval_mono. Qed.

Theorem C19_engine_run_fuel : forall fl ma st0 f f' k st c x, (f <= f')%nat ->
  run f fl ma st0 k st c = Some x -> run f' fl ma st0 k st c = Some x.
Proof. exact run_mono_le. Qed.

Theorem C19_engine_gas_suffices : forall fuel fl p s gas, (2 * length s + 2 <= gas)%nat ->
  find_all_go gas fuel fl p s 0 false = find_all fuel fl p s.
Proof. exact find_all_gas_suffices. Qed.

(* every reported match is a slice [b, e) of the subject, every group that took part is a slice inside
   the match, there are exactly as many group records as the pattern has groups; searchAll's matches
   are in increasing order and do not overlap (after an empty match the next one at the same position is
   not empty) *)
Theorem C19_engine_matches_inside : forall fuel fl p s ms, engine_finditer fuel fl p s = Some ms ->
  Forall (mrec_ok p s) ms /\ matches_ordered ms.
Proof. exact engine_finditer_spec. Qed.

Theorem C19_engine_search : forall fuel fl p s,
  (forall m, engine_search fuel fl p s = Some (Some m) -> mrec_ok p s m) /\
  (forall ms, engine_finditer fuel fl p s = Some ms -> engine_search fuel fl p s = Some (hd_error ms)).
Proof. exact (fun fuel fl p s => conj (engine_search_spec fuel fl p s) (engine_search_head fuel fl p s)). Qed.

(* the yaql functions on the modelled engine: each is the function of Model/Regex.v applied to the
   engine's own matches; matches / search use the first of them *)
Theorem C19_engine_functions : forall fuel fl p s ms, engine_finditer fuel fl p s = Some ms ->
  (forall sel, eeval fuel fl p s (ESearchAll sel) = Some (reval (RSearchAll ms sel))) /\
  (forall items cnt, eeval fuel fl p s (EReplaceBy items cnt) = Some (XStr (replace_by s ms items cnt))) /\
  (forall repl cnt, eeval fuel fl p s (EReplaceLit repl cnt) = Some (XStr (replace_lit s ms repl cnt))) /\
  (forall cnt, eeval fuel fl p s (ESplit cnt) = Some (XOStrs (regex_split s ms cnt))) /\
  (forall sel c, eeval fuel fl p s (ESearchAllLazy sel c) = Some (XVals (search_all_lazy ms sel c))) /\
  eeval fuel fl p s EMatches = Some (XBool (match ms with [] => false | _ => true end)) /\
  (forall sel, eeval fuel fl p s (ESearch sel) = Some (reval (RSearch (hd_error ms) sel))).
Proof. exact eeval_all. Qed.

(* no match: replace / replaceBy are the identity, split gives the subject, search gives null *)
Theorem C19_engine_no_match_identity : forall fuel fl p s, engine_finditer fuel fl p s = Some [] ->
  (forall items cnt, eeval fuel fl p s (EReplaceBy items cnt) = Some (XStr s)) /\
  (forall repl cnt, eeval fuel fl p s (EReplaceLit repl cnt) = Some (XStr s)) /\
  (forall cnt, eeval fuel fl p s (ESplit cnt) = Some (XOStrs [Some s])) /\
  eeval fuel fl p s EMatches = Some (XBool false) /\
  (forall sel, eeval fuel fl p s (ESearch sel) = Some XNull).
Proof. exact eeval_no_match. Qed.

(* pattern "(?P<x>a)(b)?" on "cab": one match [1,3[ with groups a = [1,2[, b = [2,3[.  Lazy "a??" on "a": the empty
   match at 0, then - it must advance - the non-empty one at 0, then the empty one at 1.  A starred group
   whose body is a starred "a", on "b": terminates (zero-width iteration protection). *)
Example C19_engine_ex :
  let fl := {| ignore_case := false; multi_line := false; dot_all := false |} in
  let p := {| p_re := Seq (Grp 1 (Chr 97)) (Rep (Grp 2 (Chr 98)) 0 (Some 1%nat) true); p_groups := 2; p_names := [([120], 1%nat)] |} in
  engine_finditer 100 fl p [99; 97; 98] =
    Some [{| m_whole := (Some [97; 98], 1, 3); m_groups := [(Some [97], 1, 2); (Some [98], 2, 3)]; m_named := [([120], 1%nat)] |}]
  /\ find_all 100 fl {| p_re := Rep (Chr 97) 0 (Some 1%nat) false; p_groups := 0; p_names := [] |} [97] =
    Some [(0, 0, []); (0, 1, []); (1, 1, [])]%nat
  /\ find_all 100 fl {| p_re := Rep (Grp 1 (Rep (Chr 97) 0 None true)) 0 None true; p_groups := 1; p_names := [] |} [98] =
    Some [(0, 0, [Some (0, 0)]); (1, 1, [Some (1, 1)])]%nat.
Proof. vm_compute. repeat split. Qed.

(* ---- non-vacuity ------------------------------------------------------------------------------------------ *)
Example C19_substring_ex :
  substring [97; 98; 99; 100] (-3) 2 = [98; 99] /\ substring [97; 98; 99; 100] 1 (-1) = [98; 99; 100].
Proof. vm_compute. split; reflexivity. Qed.

(* "cabcdab": indexOf("ab") = 1, indexOf("ab", 2) = 5, indexOf("ab", 6) = -1, lastIndexOf("ab") = 5,
   indexOf("bc", 2, 2) = 2, "cabcdbc".lastIndexOf("bc", 2, 5) = 5 (the docstring examples) *)
Example C19_index_ex :
  let s := [99; 97; 98; 99; 100; 97; 98] in
  index_of s [97; 98] 0 = 1 /\ index_of s [97; 98] 2 = 5 /\ index_of s [97; 98] 6 = -1 /\
  last_index_of s [97; 98] 0 = 5 /\ index_of3 s [98; 99] 2 2 = 2 /\
  last_index_of3 [99; 97; 98; 99; 100; 98; 99] [98; 99] 2 5 = 5 /\ occurs_at s [97; 98] 5.
Proof.
  vm_compute. repeat split.
  exists [99; 97; 98; 99; 100], []. split; reflexivity.
Qed.

Example C19_split_ex :
  split_sep [44] [97; 44; 44; 98; 44] (-1) = [[97]; []; [98]; []] /\
  split_sep [97; 97] [97; 97; 97] (-1) = [[]; [97]] /\ rsplit_sep [97; 97] [97; 97; 97] (-1) = [[97]; []] /\
  str_replace [97; 98; 97; 97; 98] [97; 98] [99; 100] (-1) = [99; 100; 97; 99; 100] /\
  trim [32; 97; 32; 98; 32] None = [97; 32; 98] /\ norm (Some [97; 97]) (Some [97]) = None.
Proof. vm_compute. repeat split. Qed.

(* pattern (?P<x>a)(b)? on "ab": $1 = ab, $2 = $x = a, $3 = b *)
Example C19_publish_ex :
  let m := {| m_whole := (Some [97; 98], 0, 2); m_groups := [(Some [97], 0, 1); (Some [98], 1, 2)];
              m_named := [([120], 1%nat)] |} in
  select [KNum 1; KNum 2; KNum 3; KNum 4; KName [120]; KName [121]] m =
  [Some (Some [97; 98], 0, 2); Some (Some [97], 0, 1); Some (Some [98], 1, 2); None; Some (Some [97], 0, 1); None]
  /\ NoDup (map fst (m_named m)).
Proof. vm_compute. split; [reflexivity|]. constructor; [intros []|constructor]. Qed.

Print Assumptions C19_substring.
Print Assumptions C19_index_of.
Print Assumptions C19_index_of_window.
Print Assumptions C19_last_index_of_window.
Print Assumptions C19_split_join.
Print Assumptions C19_join_split_partial.
Print Assumptions C19_trim.
Print Assumptions C19_norm_isempty.
Print Assumptions C19_starts_ends.
Print Assumptions C19_replace_count.
Print Assumptions C19_characters.
Print Assumptions C19_publish.
Print Assumptions C19_compare.
Print Assumptions C19_search_all_per_match.
Print Assumptions C19_engine_matches_inside.
Print Assumptions C19_engine_fuel_suffices.
Print Assumptions C19_case_unicode.
