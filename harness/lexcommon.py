"""Shared by props/c03.py and props/c16.py: driving the real lexer/parser,
canonical observations, and printing texts/cases as Gallina terms."""
import codecs
import re
import signal

import gal
import yaql
from yaql.language import exceptions, expressions

_engine = None


def engine():
    global _engine
    if _engine is None:
        _engine = yaql.YaqlFactory().create()
    return _engine


class Timeout(BaseException):
    pass


def _alarm(signum, frame):
    raise Timeout()


def with_watchdog(fn, seconds=5.0):
    """Run fn(); returns (result, None) or (None, exception).  A call that does not
    return within `seconds` yields a Timeout exception object."""
    old = signal.signal(signal.SIGALRM, _alarm)
    signal.setitimer(signal.ITIMER_REAL, seconds)
    try:
        return fn(), None
    except Timeout as e:
        return None, e
    except BaseException as e:
        return None, e
    finally:
        signal.setitimer(signal.ITIMER_REAL, 0)
        signal.signal(signal.SIGALRM, old)


def qualname(e):
    t = type(e)
    return "%s.%s" % (t.__module__, t.__name__)


# ---------------------------------------------------------------- numerals
def digits_to_int(s):
    """int() of a string of (any Unicode) decimal digits without tripping the
    interpreter's digit limit."""
    acc = 0
    for i in range(0, len(s), 4000):
        chunk = s[i:i + 4000]
        acc = acc * 10 ** len(chunk) + int(chunk)
    return acc


def exact_float(src):
    """Correctly rounded value of a '<digits>.<digits>' text, computed by integer
    division (independent of float()'s parser)."""
    ip, fp = src.split(".")
    num, den = digits_to_int(ip + fp), 10 ** len(fp)
    try:
        return num / den
    except OverflowError:
        return float("inf")


def canon_value(v, src):
    """Token/constant value -> canonical tuple; `src` is the token's source text."""
    if v is True:
        return ("true",)
    if v is False:
        return ("false",)
    if v is None:
        return ("null",)
    if isinstance(v, str):
        return ("text", v)
    if isinstance(v, int):
        return ("int", v)
    if isinstance(v, float):
        try:
            if "." in src and v.hex() == exact_float(src).hex():
                return ("float", src)
        except Exception:
            pass
        return ("other", "float %s for source %r" % (v.hex(), src[:40]))
    return ("other", type(v).__name__)


def big_z(n):
    """Z literal; hexadecimal when long (Coq reads decimal literals in quadratic time)."""
    if -10 ** 40 < n < 10 ** 40:
        return gal.z(n)
    return "(-0x%x)%%Z" % -n if n < 0 else "0x%x%%Z" % n


def val_term(c):
    k = c[0]
    if k == "text":
        return gal.app("VText", text_term(c[1]))
    if k == "int":
        return gal.app("VInt", big_z(c[1]))
    if k == "float":
        return gal.app("VFloat", text_term(c[1]))
    return {"true": "VTrue", "false": "VFalse", "null": "VNull"}.get(k, "VOther")


# ---------------------------------------------------------------- running the real code
def run_lexer(text):
    """The real ply lexer on its own (a clone of the engine's, as YaqlEngine.__call__
    makes one).  Returns ([(type, lexpos, length, canon value)], ending) with
    ending = ('ok',) | ('lex', pos) | ('foreign', class name)."""
    lx = engine().lexer.clone()
    lx.input(text)
    toks = []
    while True:
        try:
            t = lx.token()
        except exceptions.YaqlLexicalException as e:
            return toks, ("lex", e.position)
        except Timeout:
            raise
        except BaseException as e:
            return toks, ("foreign", qualname(e))
        if t is None:
            return toks, ("ok",)
        end = lx.lexpos
        toks.append((str(t.type), t.lexpos, end - t.lexpos, canon_value(t.value, text[t.lexpos:end])))


_CONFIRMED = [0]


def run_engine(text, seconds=5.0):
    """engine(text): ('ok', statement) | ('lex', pos) | ('gram', pos|None) |
    ('foreign', class) | ('timeout',)"""
    res, e = with_watchdog(lambda: engine()(text), seconds)
    if isinstance(e, Timeout) and _CONFIRMED[0] < 2:
        # a loaded machine must not turn a slow-but-terminating parse into an alarm: confirm with a long watchdog
        # (at most twice per process - after that the violation is established and the short watchdog suffices)
        res, e = with_watchdog(lambda: engine()(text), 90.0)
        if isinstance(e, Timeout):
            _CONFIRMED[0] += 1
    if e is None:
        return ("ok", res)
    if isinstance(e, Timeout):
        return ("timeout",)
    if isinstance(e, exceptions.YaqlLexicalException):
        return ("lex", e.position)
    if isinstance(e, exceptions.YaqlGrammarException):
        return ("gram", e.position)
    if isinstance(e, exceptions.YaqlParsingException):
        return ("parsing-other", e.position)
    return ("foreign", qualname(e))


# ---------------------------------------------------------------- \N{name} oracle
_NAME_RE = re.compile(r"N\{([^}]+)\}")


def names_in(text):
    """Every name that a \\N{...} escape of the text could mention, resolved by the codec."""
    out = {}
    for m in _NAME_RE.finditer(text):
        for name in {m.group(1)}:
            if name in out:
                continue
            try:
                v = codecs.decode("\\N{%s}" % name, "unicode-escape")
                if len(v) == 1:
                    out[name] = ord(v)
            except Exception:
                pass
    # overlapping candidates: a name may itself contain 'N{'
    i = text.find("N{")
    while i >= 0:
        j = text.find("}", i + 2)
        if j > i + 2:
            name = text[i + 2:j]
            if name not in out:
                try:
                    v = codecs.decode("\\N{%s}" % name, "unicode-escape")
                    if len(v) == 1:
                        out[name] = ord(v)
                except Exception:
                    pass
        i = text.find("N{", i + 1)
    return sorted(out.items())


# ---------------------------------------------------------------- Gallina printing
def blocks(text):
    """[(block, count)]: greedy factorisation into repeated blocks of <= 8 code points;
    unrepeated stretches become one block with count 1."""
    out, lit, i, n = [], [], 0, len(text)

    def flush():
        if lit:
            out.append(("".join(lit), 1))
            del lit[:]

    while i < n:
        best = None
        for k in range(1, 9):
            if i + 2 * k > n:
                break
            b = text[i:i + k]
            r = 1
            while text.startswith(b, i + r * k):
                r += 1
            if r * k >= 24 and (best is None or r * k > best[0] * best[1]):
                best = (k, r)
        if best:
            flush()
            k, r = best
            out.append((text[i:i + k], r))
            i += k * r
        else:
            lit.append(text[i])
            if len(lit) >= 250:
                flush()
            i += 1
    flush()
    return out


def text_term(text):
    """Code-point list; block-coded when long."""
    if len(text) <= 300:
        return gal.s(text)
    bl = blocks(text)
    return "(unblocks [%s])" % "; ".join("(%s, %d%%Z)" % (gal.s(b), r) for b, r in bl)


def names_term(names):
    if not names:
        return "[]"
    return "[" + "; ".join("(%s, %s)" % (gal.s(n), gal.z(v)) for n, v in names) + "]"


def printable(text, limit=120):
    s = text if len(text) <= limit else text[:limit // 2] + "...(%d chars)..." % len(text) + text[-limit // 4:]
    return s.encode("unicode_escape").decode("ascii")


def compress(text):
    """JSON-friendly form of a possibly huge text (for replay files)."""
    if len(text) <= 2000:
        return {"text": [ord(c) for c in text]}
    return {"blocks": [[[ord(c) for c in b], r] for b, r in blocks(text)]}


def decompress(d):
    if "text" in d:
        return "".join(chr(c) for c in d["text"])
    return "".join("".join(chr(c) for c in b) * r for b, r in d["blocks"])
