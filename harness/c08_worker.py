"""C08 subprocess worker: runs calls that may never return.

Protocol: one JSON task per stdin line; for every call the worker prints a
`{"begin": id}` line BEFORE and a `{"end": id, ...}` line AFTER, so the parent
knows which call was running when it had to kill the process (a C-level loop such
as `deque.extend(endless)` cannot be interrupted by a Python signal handler).

Task kinds
  sweep  {fd: index in registry order, key: parameter key, N: limit}   -> all call variants
  expr   {expr, N, Q, ctx: {name: spec}, trace: bool}                      -> one evaluation
"""
import itertools
import json
import re
import resource
import signal
import sys
import tracemalloc

import yaql
from yaql.language import exceptions, expressions, specs, utils, yaqltypes

import gen_limitfacts

PULL_CAP = 20000          # an "endless" source gives up (BaseException) after this many pulls
CALL_SECONDS = 4.0


class PullCap(BaseException):
    pass


class CallTimeout(BaseException):
    pass


class Src:
    """Instrumented one-shot source: a finite prefix, then (optionally) endless integers."""
    registry = []

    def __init__(self, items=(), endless=True, cap=PULL_CAP):
        self.items, self.endless, self.cap, self.pulls = list(items), endless, cap, 0
        Src.registry.append(self)

    def __iter__(self):
        return self

    def __next__(self):
        i = self.pulls
        if i < len(self.items):
            self.pulls += 1
            return self.items[i]
        if not self.endless:
            raise StopIteration
        if self.pulls >= self.cap:
            raise PullCap()
        self.pulls += 1
        return i


class ReIter:
    """A lazy RE-ITERABLE host object: __iter__ only (a fresh instrumented iterator each time),
    no __next__, no __len__ - neither an iterator nor sized."""

    def __init__(self, items=(), endless=True, cap=PULL_CAP):
        self.items, self.endless, self.cap, self.iters = list(items), endless, cap, []

    def __iter__(self):
        it = Src(self.items, self.endless, self.cap)
        self.iters.append(it)
        return it

    @property
    def pulls(self):            # per iterator: each walk of the object is bounded separately
        return max([it.pulls for it in self.iters] or [0])


class SizedIter(ReIter):
    """Sized and iterable, but no Sequence / Set / Mapping."""

    def __init__(self, items=(), endless=False, cap=PULL_CAP):
        ReIter.__init__(self, items, False, cap)

    def __len__(self):
        return len(self.items)


def gen_source(items=(), endless=True, cap=PULL_CAP):
    """A generator object over an instrumented source -> (generator, the source that counts)."""
    inner = Src(items, endless, cap)

    def g():
        yield from inner
    return g(), inner


SOURCE_KINDS = ["iterator", "generator", "reiterable"]


def make_source(kind, items=(), endless=True, cap=PULL_CAP):
    """-> (object to hand to yaql, object whose .pulls counts)"""
    if kind == "generator":
        return gen_source(items, endless, cap)
    if kind == "reiterable":
        o = ReIter(items, endless, cap)
        return o, o
    if kind == "sized-iterable":
        o = SizedIter(items, False, cap)
        return o, o
    o = Src(items, endless, cap)
    return o, o


class CountInt(int):
    """An int that notices being used as the repetition count of a str/tuple/list."""
    log = []

    def __rmul__(self, other):
        r = other * int(self)
        if isinstance(other, (str, tuple, list)):
            CountInt.log.append(sys.getsizeof(r))
        return r

    def __mul__(self, other):          # the same product written `count * x`
        if isinstance(other, (str, tuple, list)):
            return self.__rmul__(other)
        return int(self) * other


def outcome_of(exc):
    if isinstance(exc, exceptions.CollectionTooLargeException):
        return "TooLarge"
    if isinstance(exc, exceptions.MemoryQuotaExceededException):
        return "Quota"
    if isinstance(exc, PullCap):
        return "PullCap"
    if isinstance(exc, CallTimeout):
        return "Timeout"
    if isinstance(exc, MemoryError):
        return "MemoryError"
    if isinstance(exc, RecursionError):
        return "RecursionError"
    return "Other:" + type(exc).__name__


def _alarm(signum, frame):
    raise CallTimeout()


def guarded(fn, seconds=CALL_SECONDS):
    """-> (outcome, value)"""
    signal.signal(signal.SIGALRM, _alarm)
    signal.setitimer(signal.ITIMER_REAL, seconds)
    try:
        try:
            v = fn()
            return "Ok", v
        finally:
            signal.setitimer(signal.ITIMER_REAL, 0)
    except BaseException as e:          # noqa: B902 - every class is an observation here
        if isinstance(e, (KeyboardInterrupt, SystemExit)):
            raise
        return outcome_of(e), None


# --------------------------------------------------------------------------
# the sweep
# --------------------------------------------------------------------------
def value_corpus():
    import datetime
    return [
        1, 0, 2, "a", "ab", True, None, 1.5,
        (1, 2), ((1, 2), (3, 4)), ("a", "b"),
        utils.FrozenDict({"a": 1}), frozenset([1, 2]),
        datetime.timedelta(seconds=5),
        datetime.datetime(2020, 1, 2, tzinfo=datetime.timezone.utc),
        re.compile("a"),
    ]


def lambda_corpus():
    return [
        ("first", lambda *a, **k: a[0] if a else 0),
        ("true", lambda *a, **k: True),
        ("endless", lambda *a, **k: Src()),
        ("endless-reiterable", lambda *a, **k: ReIter()),
        ("pair", lambda *a, **k: (1, 2)),
    ]


EXPR_CORPUS = [expressions.Function("len"), expressions.Function("toList")]


def is_hidden(p):
    return isinstance(p.value_type, yaqltypes.HiddenParameterType)


def is_lazy(p):
    return isinstance(p.value_type, yaqltypes.LazyParameterType)


def visible_params(fd):
    """(key, ParameterDefinition) of the parameters a caller supplies, positional ones in order."""
    pos = sorted(((p.position, k, p) for k, p in fd.parameters.items()
                  if p.position is not None and k != "*" and not is_hidden(p)), key=lambda t: t[0])
    kwonly = [(k, p) for k, p in fd.parameters.items()
              if p.position is None and k not in ("*", "**") and not is_hidden(p)]
    return [(k, p) for _, k, p in pos], kwonly


def candidates(p, ctx, eng):
    vt = p.value_type
    if isinstance(vt, yaqltypes.Lambda):
        return [("lambda:" + n, f) for n, f in lambda_corpus()]
    if isinstance(vt, yaqltypes.LazyParameterType):
        out = []
        for e in EXPR_CORPUS:
            try:
                if vt.check(e, ctx, eng):
                    out.append(("expr:" + str(e), e))
            except Exception:
                pass
        return out
    out = []
    for v in value_corpus():
        try:
            if vt.check(v, ctx, eng):
                out.append((repr(v)[:40], v))
        except Exception:
            pass
    return out


def sweep_variants(fd, key, ctx, eng, max_variants):
    """Argument assignments {param key: (label, value)} with the tested position marked SRC."""
    pos, kwonly = visible_params(fd)
    others = [(k, p) for k, p in pos + kwonly if k != key]
    cands = {}
    for k, p in others:
        cands[k] = candidates(p, ctx, eng)
    required = [k for k, p in others if p.default is specs.NO_DEFAULT]
    optional = [k for k, p in others if p.default is not specs.NO_DEFAULT]
    if any(not cands[k] for k in required):
        return None
    base = {k: cands[k][0] for k in required}
    variants = [dict(base)]
    for k in required:                       # vary one required argument at a time
        for alt in cands[k][1:4]:
            v = dict(base)
            v[k] = alt
            variants.append(v)
    full = dict(base)                        # ... and give the optional ones as well
    for k in optional:
        if cands[k]:
            full[k] = cands[k][0]
            v = dict(base)
            v[k] = cands[k][0]
            variants.append(v)
            for alt in cands[k][1:3]:
                v = dict(base)
                v[k] = alt
                variants.append(v)
    if optional:
        variants.append(full)
    seen, out = set(), []
    for v in variants:
        sig = tuple(sorted((k, lab) for k, (lab, _) in v.items()))
        if sig not in seen:
            seen.add(sig)
            out.append(v)
    return out[:max_variants]


def do_call(fd, key, assignment, mode, ctx, eng, srckind="iterator"):
    """Call exactly `fd` with the tested parameter `key` fed according to `mode`
    ('src': the endless source itself; 'lambda': a callable returning a fresh endless source)."""
    pos, kwonly = visible_params(fd)
    src = make_source(srckind)[0] if mode == "src" else (lambda *a, **k: make_source(srckind)[0])
    args, kwargs = [], {}
    gap = False
    for k, p in pos:
        if k == key:
            val = src
        elif k in assignment:
            val = assignment[k][1]
        else:
            gap = True
            continue
        if gap:
            kwargs[p.alias or p.name] = val
        else:
            args.append(val)
    for k, p in kwonly:
        if k == key:
            kwargs[p.alias or p.name] = src
        elif k in assignment:
            kwargs[p.alias or p.name] = assignment[k][1]
    if key == "*":
        args.append(src)
    elif "*" in fd.parameters and fd.parameters["*"].default is specs.NO_DEFAULT and False:
        pass
    if key == "**":
        kwargs["extra"] = src
    only = lambda f, c: f is fd                                    # noqa: E731
    if fd.is_method and not fd.is_function:
        if not args:
            raise LookupError("method without receiver")
        call = ctx(fd.name, eng, receiver=args[0], function_filter=only)
        args = args[1:]
    else:
        call = ctx(fd.name, eng, function_filter=only)
    res = call(*args, **kwargs)
    return ctx("#finalize", eng)(res)


LAX = {"yaql.limitIterators": 1000, "yaql.memoryQuota": 10 ** 8}


def make_statement(expr, opts, optroute):
    """The three public ways of configuring the limits: options of the engine itself, per-expression
    options over a plain engine, per-expression options over an engine with laxer limits."""
    if optroute in (None, "create") or not opts:
        return yaql.YaqlFactory().create(options=opts)(expr)
    base = yaql.YaqlFactory().create(options=dict(LAX) if optroute == "per-expression-over-lax" else {})
    return base(expr, options=opts)


def engine_for(opts, optroute):
    if optroute in (None, "create") or not opts:
        return yaql.YaqlFactory().create(options=opts)
    return getattr(make_statement("$", opts, optroute), "engine", None) or yaql.YaqlFactory().create(options=opts)


def width(v, depth=0):
    """Size of the largest collection at any depth of a finalised result, dictionary KEYS included;
    anything lazy left in it counts as unbounded."""
    if v is None or isinstance(v, (str, int, float, bool)) or depth > 50:
        return 0
    if isinstance(v, (dict, utils.FrozenDict)):
        return max([len(v)] + [max(width(k, depth + 1), width(x, depth + 1)) for k, x in v.items()])
    if isinstance(v, (list, tuple, set, frozenset)):
        return max([len(v)] + [width(x, depth + 1) for x in v])
    if utils.is_iterable(v):
        return 10 ** 9
    return 0


def run_sweep(task, emit):
    ctx = yaql.create_context()
    N = task["N"]
    eng = engine_for({"yaql.limitIterators": N}, task.get("optroute"))
    reg = gen_limitfacts.layers(ctx)
    depth, name, fd = reg[task["fd"]]
    key = task["key"]
    mode = task.get("mode", "src")
    variants = sweep_variants(fd, key, ctx, eng, task.get("max_variants", 8))
    if variants is None:
        emit({"end": task["id"], "uncallable": True, "calls": []})
        return
    calls = []
    for vi, assignment in enumerate(variants):
        cid = "%s/%d" % (task["id"], vi)
        emit({"begin": cid})
        del Src.registry[:]
        out, _ = guarded(lambda: do_call(fd, key, assignment, mode, ctx, eng, task.get("srckind", "iterator")))
        pulls = max([s.pulls for s in Src.registry] or [0])
        rec = {"variant": {k: lab for k, (lab, _) in assignment.items()}, "outcome": out,
               "pulls": pulls, "sources": len(Src.registry)}
        calls.append(rec)
        emit({"endcall": cid, **rec})
    emit({"end": task["id"], "uncallable": False, "calls": calls})


# --------------------------------------------------------------------------
# expressions under limits
# --------------------------------------------------------------------------
def build(spec):
    """JSON description -> Python value for a context variable."""
    t = spec[0]
    if t == "src":
        return Src(spec[1], spec[2])
    if t == "count":
        return CountInt(spec[1])
    if t == "str":
        return "".join(chr(c) for c in spec[1]) if isinstance(spec[1], list) else chr(spec[2]) * spec[1]
    if t == "tuple":
        return tuple(range(spec[1]))
    if t == "grown_list":
        l = []
        for i in range(spec[1]):
            l.append(i)
        return l
    if t == "list":
        return list(range(spec[1]))
    if t == "int":
        return spec[1]
    if t == "fdict":
        return utils.FrozenDict((i, i) for i in range(spec[1]))
    raise ValueError(spec)


def own_size(v):
    """(what sys.getsizeof reports, the storage the value itself owns).  A FrozenDict is a
    thin wrapper: the dict inside is its own storage, not a referenced element."""
    if isinstance(v, utils.FrozenDict):
        return sys.getsizeof(v, 0), max(sys.getsizeof(v, 0), sys.getsizeof(v._d))
    return sys.getsizeof(v, 0), None


def deep_max(v, budget):
    """Largest own size among the str / collection nodes of a (materialised) value."""
    best = 0
    stack = [v]
    while stack and budget[0] > 0:
        x = stack.pop()
        budget[0] -= 1
        if isinstance(x, (str, tuple, list, dict, set, frozenset, utils.FrozenDict)):
            rep, inner = own_size(x)
            best = max(best, inner or rep)
        if isinstance(x, str) or x is None or isinstance(x, (int, float)):
            continue
        if isinstance(x, (dict, utils.FrozenDict)):
            for k, y in x.items():
                stack.append(k)
                stack.append(y)
        elif utils.is_iterable(x):
            n = 0
            for y in x:                 # lazy results are drained here (bounded)
                stack.append(y)
                n += 1
                if n > 2000:
                    break
    return best


_recorded = []
_patched = [False]


def patch_payloads(ctx):
    """Wrap every registered payload so that the own size of every argument it is handed
    is recorded (the quota says no over-quota value is passed on)."""
    for depth, name, fd in gen_limitfacts.layers(ctx):
        if getattr(fd.payload, "_c08_wrapped", False):
            continue
        orig = fd.payload

        def make(orig, name):
            def wrapped(*a, **k):
                for v in list(a) + list(k.values()):
                    if isinstance(v, (str, tuple, list, dict, set, frozenset, utils.FrozenDict)):
                        rep, inner = own_size(v)
                        _recorded.append((name, inner or rep, type(v).__name__))
                return orig(*a, **k)
            wrapped._c08_wrapped = True
            wrapped.__name__ = getattr(orig, "__name__", "payload")
            wrapped.__module__ = getattr(orig, "__module__", "")
            return wrapped
        fd.payload = make(orig, name)


def run_expr(task, emit):
    opts = {}
    if task.get("N") is not None:
        opts["yaql.limitIterators"] = task["N"]
    if task.get("Q") is not None:
        opts["yaql.memoryQuota"] = task["Q"]
    if task.get("raw"):
        opts["yaql.convertOutputData"] = False
    ctx = yaql.create_context()
    if task.get("record_args"):
        patch_payloads(ctx)
    del Src.registry[:]
    del CountInt.log[:]
    del _recorded[:]
    for k, spec in (task.get("ctx") or {}).items():
        ctx[k] = build(spec)
    emit({"begin": task["id"]})
    stmt = make_statement(task["expr"], opts, task.get("optroute"))
    if task.get("trace"):
        tracemalloc.start()
        tracemalloc.reset_peak()
        base = tracemalloc.get_traced_memory()[0]
    out, val = guarded(lambda: stmt.evaluate(context=ctx), task.get("seconds", CALL_SECONDS))
    peak = None
    if task.get("trace"):
        peak = tracemalloc.get_traced_memory()[1] - base
        tracemalloc.stop()
    size, inner, deep = (None, None, None)
    if out == "Ok":
        size, inner = own_size(val)
        if task.get("deep"):
            o2, deep = guarded(lambda: deep_max(val, [20000]), 4.0)
            if o2 != "Ok":
                out, deep = o2, None
    over = [r for r in _recorded if task.get("Q") and task["Q"] > 0 and r[1] > task["Q"]]
    wd = None
    if out == "Ok" and task.get("N") is not None and not task.get("raw"):
        o3, wd = guarded(lambda: width(val), 4.0)
        if o3 != "Ok":
            wd = None
    emit({"end": task["id"], "outcome": out, "width": wd, "size": size, "inner_size": inner, "peak": peak, "deep_max": deep,
          "pulls": max([s.pulls for s in Src.registry] or [0]),
          "products": list(CountInt.log), "args_over_quota": over[:5],
          "kind": type(val).__name__ if out == "Ok" else None})


def main():
    resource.setrlimit(resource.RLIMIT_AS, (2 << 30, 2 << 30))

    def emit(obj):
        sys.stdout.write(json.dumps(obj) + "\n")
        sys.stdout.flush()

    for line in sys.stdin:
        line = line.strip()
        if not line:
            continue
        task = json.loads(line)
        try:
            if task["kind"] == "sweep":
                run_sweep(task, emit)
            else:
                run_expr(task, emit)
        except BaseException as e:      # noqa: B902
            if isinstance(e, (KeyboardInterrupt, SystemExit)):
                raise
            emit({"end": task["id"], "error": "%s: %s" % (type(e).__name__, e)})


if __name__ == "__main__":
    main()
