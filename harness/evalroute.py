"""The module-level convenience route yaql.eval(text) (process-wide engine, expression
cache and context), run over a HISTORY of texts in this fresh process.  Reads
{"texts": [[code points]...]} on stdin, prints one canonical result per text:
["str", [code points]] | ["int", n] | ["float", hex] | ["bool", b] | ["null"] |
["raised", class name] | ["other", type name]."""
import json
import sys


def canon(v):
    if v is True or v is False:
        return ["bool", v]
    if v is None:
        return ["null"]
    if isinstance(v, str):
        return ["str", [ord(c) for c in v]]
    if isinstance(v, int):
        return ["int", str(v)]
    if isinstance(v, float):
        return ["float", v.hex()]
    return ["other", type(v).__name__]


def main():
    import warnings
    warnings.simplefilter("ignore")
    import yaql
    out = []
    for cps in json.load(sys.stdin)["texts"]:
        text = "".join(chr(c) for c in cps)
        try:
            out.append(canon(yaql.eval(text)))
        except Exception as e:   # noqa
            out.append(["raised", type(e).__name__])
    json.dump(out, sys.stdout)


if __name__ == "__main__":
    main()
