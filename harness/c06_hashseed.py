"""C06 helper, run in FRESH interpreters with different PYTHONHASHSEED values: calls with several eager keyword
arguments whose evaluation is observable (ticked probes; probes that raise different exceptions).  Prints a JSON list
[ [call description, outcome, evaluation log], ... ]; the caller requires the same list for every hash seed and the
log in source order.  argv[1] = generator seed."""
import json
import random
import sys

import yaql
from yaql.language import contexts, expressions, specs, yaqltypes

NAMES = ["alpha", "beta", "gamma", "delta", "k1", "k2", "zz", "a", "b", "omega", "x_1", "key", "value", "item"]


class Tick(expressions.Expression):
    def __init__(self, pid, log, boom=None):
        self.pid, self.log, self.boom = pid, log, boom
        self.uses_receiver = False

    def __call__(self, receiver, context, engine):
        self.log.append(self.pid)
        if self.boom is not None:
            raise self.boom("probe %d" % self.pid)
        return self.pid


def main():
    rng = random.Random(int(sys.argv[1]))
    engine = yaql.YaqlFactory().create()
    out = []
    for case in range(40):
        n = rng.choice([2, 3, 3, 4, 5])
        names = rng.sample(NAMES, n)
        src = "def payload(%s):\n    return [%s]\n" % (", ".join("%s=None" % x for x in names), ", ".join(names))
        env = {}
        exec(src, env)
        fn = env["payload"]
        for x in names:
            specs.parameter(x, yaqltypes.PythonType(object, True))(fn)
        ctx = contexts.Context()
        ctx.register_function(fn, name="f")
        ctx.register_function(lambda *a, **k: "varkw", name="g")
        log = []
        order = rng.sample(names, len(names))
        raising = rng.random() < 0.4
        booms = [ValueError, KeyError, IndexError, TypeError, ZeroDivisionError]
        args = []
        for i, x in enumerate(order):
            boom = booms[i % len(booms)] if raising and i < 2 + rng.randrange(2) else None
            args.append(expressions.MappingRuleExpression(expressions.KeywordConstant(x), Tick(i + 1, log, boom)))
        name = "f" if rng.random() < 0.8 else "g"
        try:
            res = ctx(name, engine)(*args)
            outcome = ["ok", res]
        except Exception as e:
            outcome = ["error", type(e).__name__]
        out.append([{"function": name, "keywords_in_source_order": order, "raising": raising}, outcome, list(log)])
    print(json.dumps(out))


if __name__ == "__main__":
    main()
