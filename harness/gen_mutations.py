"""Gen/Mutations.v: fail-closed AST scan of every payload registered in the standard contexts for
operations that mutate an object in place, with the provenance of the mutated object.

Row = (function qualified name, line, operation, receiver root name, provenance class).
Provenance classes:
  0 Fresh    - a local that is only ever bound (in this payload, nested functions included) to a freshly
               built object: a display/comprehension, a call of dict/list/set/tuple/sorted/deque/OrderedDict/
               defaultdict/bytearray, `.copy()`, or arithmetic on such
  1 OwnCtx   - the payload's own injected child context (parameter typed yaqltypes.Context, or named
               `context`/`__context__`), or a context created in the payload by create_child_context()
  2 Param    - a parameter of the payload (or anything derived from one): host data could be reached
  3 Unknown  - anything the scanner cannot classify (fail-closed)
  4 Engine   - helper object private to the evaluation by construction (listed by name with a reason)
The Coq obligation (Props/C09.v) is `forallb row_ok rows = true` with row_ok = class in {Fresh, OwnCtx, Engine}."""
import ast
import inspect
import textwrap

OUTPUT = "Mutations.v"

MUTATORS = {"append", "extend", "insert", "pop", "remove", "clear", "sort", "reverse", "update", "setdefault",
            "add", "discard", "popitem", "appendleft", "extendleft", "popleft", "rotate", "__setitem__", "__delitem__",
            "difference_update", "intersection_update", "symmetric_difference_update", "move_to_end"}
FRESH_CALLS = {"dict", "list", "set", "tuple", "sorted", "deque", "OrderedDict", "defaultdict", "bytearray", "frozenset",
               "FrozenDict", "reversed", "enumerate", "zip", "map", "filter", "iter", "range", "str", "int", "float", "len",
               "chain", "islice", "object", "Context", "GroupAggregator", "OrderingIterable", "QueueType"}
# helper objects that yaql itself creates during the evaluation and that no host can hold (reason recorded)
ENGINE_PRIVATE = {
    ("yaql.standard_library.yaqlized.op_dot", "kwargs"): "dict built by runner.translate_args for this very call",
    ("yaql.standard_library.queries.then_by", "collection"): "OrderingIterable created by orderBy in this evaluation",
    ("yaql.standard_library.queries.then_by_descending", "collection"): "OrderingIterable created by orderBy in this evaluation",
}


def all_function_definitions():
    import yaql
    from yaql import legacy
    seen, out = set(), []

    def walk(ctx):
        c = ctx
        while c is not None:
            fm = getattr(c, "_functions", None)
            if fm:
                for name, fds in fm.items():
                    for fd in fds:
                        if id(fd) not in seen:
                            seen.add(id(fd))
                            out.append((name, fd))
            c = c.parent
    walk(yaql.create_context())
    try:
        walk(legacy.create_context())
    except Exception:
        pass
    return out


_LIVE = []


def _live():
    if not _LIVE:
        import yaql
        _LIVE.append((yaql.YaqlFactory().create(), yaql.create_context()))
    return _LIVE[0]


def is_fresh_expr(node, fresh_names):
    if isinstance(node, (ast.Dict, ast.List, ast.Set, ast.Tuple, ast.ListComp, ast.DictComp, ast.SetComp,
                         ast.GeneratorExp, ast.Constant, ast.JoinedStr)):
        return True
    if isinstance(node, ast.Call):
        f = node.func
        name = f.id if isinstance(f, ast.Name) else f.attr if isinstance(f, ast.Attribute) else None
        if name in FRESH_CALLS:
            return True
        if isinstance(f, ast.Attribute) and f.attr in ("copy", "create_child_context", "split", "join", "keys", "values", "items"):
            return True
        return False
    if isinstance(node, ast.BinOp):
        return is_fresh_expr(node.left, fresh_names) or is_fresh_expr(node.right, fresh_names)
    if isinstance(node, ast.Name):
        return node.id in fresh_names
    if isinstance(node, ast.IfExp):
        return is_fresh_expr(node.body, fresh_names) and is_fresh_expr(node.orelse, fresh_names)
    return False


def root_name(node):
    while isinstance(node, (ast.Attribute, ast.Subscript, ast.Call)):
        node = node.value if not isinstance(node, ast.Call) else node.func
    return node.id if isinstance(node, ast.Name) else None


def scan_function(qual, fn, fd):
    from yaql.language import yaqltypes
    rows = []
    try:
        src = textwrap.dedent(inspect.getsource(fn))
        tree = ast.parse(src)
    except Exception as e:
        return [(qual, 0, "source-unavailable:%s" % type(e).__name__, "?", 3)]
    fdef = next((n for n in ast.walk(tree) if isinstance(n, (ast.FunctionDef, ast.Lambda))), None)
    if fdef is None:
        return [(qual, 0, "no-function-node", "?", 3)]
    params = set()
    a = fdef.args
    for arg in list(a.posonlyargs) + list(a.args) + list(a.kwonlyargs) + ([a.vararg] if a.vararg else []) + ([a.kwarg] if a.kwarg else []):
        params.add(arg.arg)
    per_call = {x.arg for x in ([a.vararg] if a.vararg else []) + ([a.kwarg] if a.kwarg else [])}
    ctx_params = {n for n in params if n in ("context", "__context__")}
    # parameters whose declared type rejects every mutable container (live check): rebinding only
    immut = set()
    try:
        eng, cx = _live()
        for key, p in fd.parameters.items():
            try:
                if not any(p.value_type.check(v, cx, eng) for v in ([], {}, set())):
                    immut.add(p.name)
            except Exception:
                pass
    except Exception:
        pass
    for key, p in fd.parameters.items():
        if isinstance(p.value_type, yaqltypes.Context):
            ctx_params.add(p.name)
    # names bound in the payload (incl. nested functions): fresh iff every binding is a fresh expression
    bindings = {}
    nested_params = set()
    for n in ast.walk(fdef):
        if isinstance(n, (ast.FunctionDef, ast.Lambda)) and n is not fdef:
            for arg in n.args.args:
                nested_params.add(arg.arg)
        if isinstance(n, ast.Assign):
            for t in n.targets:
                for nm in ast.walk(t):
                    if isinstance(nm, ast.Name) and isinstance(t, (ast.Name, ast.Tuple)):
                        bindings.setdefault(nm.id, []).append(n.value if isinstance(t, ast.Name) else None)
        elif isinstance(n, (ast.For, ast.comprehension)):
            for nm in ast.walk(n.target):
                if isinstance(nm, ast.Name):
                    bindings.setdefault(nm.id, []).append(None)      # loop variable: element of something
        elif isinstance(n, ast.With):
            for it in n.items:
                if it.optional_vars is not None:
                    for nm in ast.walk(it.optional_vars):
                        if isinstance(nm, ast.Name):
                            bindings.setdefault(nm.id, []).append(None)
    fresh = set()
    changed = True
    while changed:
        changed = False
        for nm, vals in bindings.items():
            if nm in fresh or nm in params:
                continue
            if all(v is not None and is_fresh_expr(v, fresh) for v in vals):
                fresh.add(nm)
                changed = True
    own_ctx = set(ctx_params)
    for nm, vals in bindings.items():
        if all(v is not None and isinstance(v, ast.Call) and isinstance(v.func, ast.Attribute)
               and v.func.attr == "create_child_context" for v in vals):
            own_ctx.add(nm)

    def classify(rn):
        if rn is None:
            return 3
        if (qual, rn) in ENGINE_PRIVATE:
            return 4
        if rn in own_ctx:
            return 1
        if rn in per_call:
            return 0          # the *args tuple / **kwargs dict are built by Python for this call
        if rn in fresh and rn not in params:
            return 0
        if rn in params or rn in nested_params or rn in bindings:
            return 2
        return 3

    def add(node, op, target):
        rn = root_name(target)
        rows.append((qual, getattr(node, "lineno", 0), op, rn or "?", classify(rn)))

    for n in ast.walk(fdef):
        if isinstance(n, ast.Call) and isinstance(n.func, ast.Attribute) and n.func.attr in MUTATORS:
            # str/bytes methods of the same name do not exist; set.add/list.append etc. mutate
            add(n, "call:" + n.func.attr, n.func.value)
        elif isinstance(n, (ast.Assign, ast.AugAssign, ast.AnnAssign)):
            targets = n.targets if isinstance(n, ast.Assign) else [n.target]
            for t in targets:
                for sub in ([t] if not isinstance(t, (ast.Tuple, ast.List)) else t.elts):
                    if isinstance(sub, (ast.Subscript, ast.Attribute)):
                        add(n, "store:" + type(sub).__name__.lower(), sub.value)
                    elif isinstance(n, ast.AugAssign) and isinstance(sub, ast.Name) and \
                            ((sub.id in params and sub.id not in immut) or
                             (sub.id in nested_params and not is_fresh_expr(n.value, fresh) is None and
                              isinstance(n.op, (ast.Add, ast.BitOr)) and not isinstance(n.value, ast.Constant))):
                        # `param += x` mutates in place when param is a list/set/dict
                        if isinstance(n.op, (ast.Add, ast.BitOr, ast.BitAnd, ast.Sub, ast.BitXor, ast.Mult)):
                            rows.append((qual, n.lineno, "augassign:name", sub.id, 5))
        elif isinstance(n, ast.Delete):
            for t in n.targets:
                if isinstance(t, (ast.Subscript, ast.Attribute)):
                    add(n, "del:" + type(t).__name__.lower(), t.value)
    return rows


def scan():
    rows, nfun = [], 0
    done = set()
    for name, fd in all_function_definitions():
        fn = fd.payload
        fn = getattr(fn, "__wrapped__", fn)
        qual = "%s.%s" % (getattr(fn, "__module__", "?"), getattr(fn, "__qualname__", getattr(fn, "__name__", "?")))
        if qual in done:
            continue
        done.add(qual)
        nfun += 1
        rows += scan_function(qual, fn, fd)
    # class 5 = augmented assignment to a parameter NAME: only rebinding for immutable operands (ints, strs,
    # tuples); yaql passes tuples / frozen data for converted input, but with conversion off a host list would
    # be extended in place -> treated as Param (2)
    rows = [(q, l, op, rn, 2 if c == 5 else c) for q, l, op, rn, c in rows]
    return rows, nfun


def generate():
    import gal
    rows, nfun = scan()
    lines = ["(* REGENERATED from /repo on every run by harness/gen_mutations.py *)",
             "From Coq Require Import List ZArith.", "Import ListNotations.",
             "Inductive prov := Fresh | OwnCtx | Param | Unknown | EnginePrivate.",
             "Record mrow := { m_fun : list Z; m_line : nat; m_op : list Z; m_recv : list Z; m_prov : prov }.",
             "Definition payloads_scanned : nat := %d." % nfun,
             "Definition rows : list mrow := ["]
    pv = ["Fresh", "OwnCtx", "Param", "Unknown", "EnginePrivate"]
    body = []
    for q, l, op, rn, c in sorted(rows):
        body.append("  {| m_fun := %s; m_line := %d; m_op := %s; m_recv := %s; m_prov := %s |}" % (
            gal.s(q), min(l, 4999), gal.s(op), gal.s(rn), pv[c]))
    lines.append(";\n".join(body))
    lines.append("].")
    return "\n".join(lines) + "\n"


if __name__ == "__main__":
    rows, n = scan()
    print(n, "payloads;", len(rows), "mutating operations")
    for r in sorted(rows):
        if r[4] in (2, 3):
            print("NOT OK", r)
