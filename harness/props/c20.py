"""C20 - date/time values denote instants consistently.

C: single yaql calls (datetime(timestamp, offset), .timestamp, .utc, .offset, + and -,
the six comparisons, .date/.time/wall-clock fields, timespan(...) and its unit
properties, timespan arithmetic) on a grid of datetimes (years 1, 1969, 1970, 2000,
2038, 9999 x microseconds; naive and aware host objects of several tzinfo classes and
values built by yaql itself; offsets at minute resolution in (-24h, 24h)) are run on the
real engine with yaql.convertOutputData off; the observation (reading and offset in
integer microseconds obtained with Python's own timedelta arithmetic, floats as exact
fractions, error class) is compared inside Coq with Model/DateTime.v, about which
Props/C20.v proves the laws for all integers.

O: the laws of the property statement themselves, evaluated as compound yaql
expressions on the implementation with Python's datetime arithmetic as reference."""
import datetime
import fractions
import json
import math
import os
import time

# A host whose local zone is UTC cannot tell "naive means UTC" from "naive means local time";
# give this process a local zone that is not UTC (POSIX TZ string, no tz database needed: UTC+05:45).
os.environ["TZ"] = "VRF-05:45"
time.tzset()

import gal
import yaql
from dateutil import tz as du_tz

GEN = ["dtdecls"]
RULE = ("one yaql call per case on host data; datetimes from the year grid {1,1969,1970,2000,2038,9999} + range "
        "edges x random month/day/time/microsecond, as naive objects, aware objects (datetime.timezone, "
        "dateutil tzoffset/tzutc), aware objects whose tzinfo has a VARYING offset (zoneinfo.ZoneInfo, dateutil "
        "tzstr/tzrange/tzfile, a toy tzinfo subclass; sampled on both sides of their offset changes, around the epoch "
        "and over the year grid) and values built by yaql's own datetime(...); offsets at minute resolution in "
        "(-24h,24h) (edge list + uniform); timespans from signed integer components, including for EVERY component "
        "parameter of timespan() values at and beyond the machine-word boundaries (2^31, 2^53, 2^63 +-1, 2^64, ...) up to "
        "python's timedelta limits (+-999999999 days), alone and compensated by another component, and totals at those "
        "boundaries (the timedelta range is the only guard of model and property); non-trivial = the call "
        "involves a non-zero offset, a naive host datetime, a range edge or a non-zero timespan; distinct = "
        "distinct (operation, canonical inputs)")
TRUSTED = ["Model/DateTime.v is a hand transcription of yaql/standard_library/date_time.py and yaqltypes.DateTime; "
           "tied by this correspondence",
           "Python's datetime/timedelta arithmetic (CPython _datetime) is the reference for readings, offsets and "
           "instants of host objects; dateutil.tz fixed offsets",
           "float results are compared with the exact rational through a relative tolerance of 2^-51 "
           "(C20_float_tolerance states what that means); float->fraction conversion by float.as_integer_ratio"]
ASSUMPTIONS = ["a host datetime denotes (wall reading, utcoffset() at that reading), whatever its tzinfo class; "
               "variable-offset zones are sampled only at readings whose offset is constant within +-3 h (no ambiguous "
               "or non-existent wall times: PEP 495 fold semantics are not modelled); calls whose result keeps the host's "
               "variable-offset tzinfo (+, -, .date) are compared only when the offset at the result equals the offset at "
               "the operand (python moves the wall reading, not the instant); two operands of one call never share one "
               "variable-offset tzinfo object (python then compares/subtracts wall readings, ignoring the offsets)",
               "offsets are whole minutes strictly inside (-24h, 24h) as in the property's quantifier",
               "timestamps handed to datetime(timestamp, offset) are integers or floats that determine their "
               "microsecond exactly; datetime(string) and format() only for the ISO-8601 shape "
               "YYYY-MM-DDTHH:MM:SS[.ffffff](Z|+HH:MM|-HH:MM|nothing), format() only for years >= 1000 (the C library does "
               "not zero-pad %Y); not modelled: other strings/formats, now(), localtz(), "
               "strings and formats of other shapes"]
EXPLANATION = ("algebraic proof (lia/ring over Z, Q) of the instant laws on the model + differential check of every "
               "single call of date_time.py against the model inside Coq + the laws themselves run on the real engine")
ALLOWED_AXIOMS = []

US = datetime.timedelta(microseconds=1)
UTC = datetime.timezone.utc
DMIN = datetime.datetime.min
EPOCH_AWARE = datetime.datetime(1970, 1, 1, tzinfo=UTC)
EPOCH_WALL = (datetime.datetime(1970, 1, 1) - DMIN) // US
MAXWALL = (datetime.datetime.max - DMIN) // US + 1
DAY = 86400000000
HEADER = "From YV Require Import Model.DateTime."

_engine = None
_context = None
_parsed = {}


def ev(text, data=None):
    """Evaluate on the real engine; raw (unconverted) result or the exception object."""
    global _engine, _context
    if _engine is None:
        _engine = yaql.YaqlFactory().create(options={"yaql.convertOutputData": False})
        _context = yaql.create_context()
    try:
        p = _parsed.get(text)
        if p is None:
            p = _engine(text)
            if len(_parsed) < 20000:
                _parsed[text] = p
        return p.evaluate(data=data, context=_context.create_child_context())
    except Exception as e:       # noqa: the class is the observation
        return e


# --------------------------------------------------------------------------
# specs (JSON-able) -> host objects / yaql text, and their canonical meaning
# --------------------------------------------------------------------------
def wall_of(d):
    return (d.replace(tzinfo=None) - DMIN) // US


def off_of(d):
    o = d.utcoffset()
    return None if o is None else o // US


class ToyZone(datetime.tzinfo):
    """a tzinfo subclass whose offset depends on the date: +02:00 from April to September, +01:00 otherwise"""

    def utcoffset(self, dt):
        return datetime.timedelta(hours=2 if 4 <= dt.month <= 9 else 1)

    def dst(self, dt):
        return datetime.timedelta(hours=1 if 4 <= dt.month <= 9 else 0)

    def tzname(self, dt):
        return "TOY"

    def __repr__(self):
        return "ToyZone()"


def _make_zones():
    """name -> tzinfo with a varying offset; only what can be built offline on this host"""
    zones = {"toy": ToyZone()}
    for name, text in (("tzstr:CET", "CET-1CEST,M3.5.0,M10.5.0/3"), ("tzstr:EST", "EST5EDT,M3.2.0,M11.1.0"),
                       ("tzstr:LHST", "LHST-10:30LHDT-11,M10.1.0,M4.1.0")):
        try:
            zones[name] = du_tz.tzstr(text)
        except Exception:
            pass
    try:
        zones["tzrange:AEST"] = du_tz.tzrange("AEST", 36000, "AEDT", 39600)
    except Exception:
        pass
    for key in ("Europe/Berlin", "America/New_York", "Australia/Lord_Howe", "America/St_Johns"):
        try:
            import zoneinfo
            z = zoneinfo.ZoneInfo(key)
            z.utcoffset(datetime.datetime(2020, 7, 1))
            zones["zoneinfo:" + key] = z
        except Exception:
            pass
        try:
            z = du_tz.gettz(key)
            if z is not None:
                zones["tzfile:" + key] = z
        except Exception:
            pass
    return zones


ZONES = _make_zones()
ZONE_NAMES = sorted(ZONES)
_transitions = {}


def zone_offset(z, naive):
    return naive.replace(tzinfo=z).utcoffset()


def steady(z, naive):
    """the zone's offset is the same 3 h before and after this wall reading, a whole number of minutes inside
    (-24h, 24h), and the reading exists: no ambiguous / non-existent wall time, no change of offset nearby"""
    try:
        offs = {zone_offset(z, naive + datetime.timedelta(hours=h)) for h in (-3, -1, 0, 1, 3)}
        if len(offs) != 1:
            return False
        o = offs.pop()
        if o is None or o % datetime.timedelta(minutes=1) or abs(o) >= datetime.timedelta(hours=24):
            return False
        aware = naive.replace(tzinfo=z)
        return aware.astimezone(UTC).astimezone(z).replace(tzinfo=None) == naive
    except (OverflowError, ValueError):
        return False


def zone_transitions(name, year):
    """noon of every day of the year after which the zone's noon offset differs from the next day's"""
    key = (name, year)
    if key not in _transitions:
        z, out = ZONES[name], []
        day = datetime.datetime(year, 1, 1, 12)
        prev = zone_offset(z, day)
        for i in range(1, 366):
            try:
                nxt = day + datetime.timedelta(days=1)
                cur = zone_offset(z, nxt)
            except OverflowError:
                break
            if cur != prev:
                out.append(day)
            day, prev = nxt, cur
        _transitions[key] = out
    return _transitions[key]


def host(spec):
    """spec = {"kind", "wall", "offmin"[, "zone"]} -> python datetime (None for kind 'yaql')."""
    naive = DMIN + spec["wall"] * US
    k = spec["kind"]
    if k == "naive":
        return naive
    if k == "zone":
        d = naive.replace(tzinfo=ZONES[spec["zone"]])
        assert d.utcoffset() == datetime.timedelta(minutes=spec["offmin"]), "zone %s gives another offset here" % spec["zone"]
        return d
    delta = datetime.timedelta(minutes=spec["offmin"])
    if k == "timezone":
        return naive.replace(tzinfo=datetime.timezone(delta))
    if k == "tzoffset":
        return naive.replace(tzinfo=du_tz.tzoffset(None, spec["offmin"] * 60))
    if k == "tzutc":
        return naive.replace(tzinfo=du_tz.tzutc())
    return None


def ts_text(us_total):
    """a timespan as yaql text (exact: one integer component)."""
    return "timespan(microseconds => %d)" % us_total


def host_text(spec, var):
    """yaql text denoting the datetime: a data reference or a constructor call."""
    if spec["kind"] != "yaql":
        return "$.%s" % var
    n = DMIN + spec["wall"] * US
    return "datetime(%d, %d, %d, %d, %d, %d, %d, timespan(minutes => %d))" % (
        n.year, n.month, n.day, n.hour, n.minute, n.second, n.microsecond, spec["offmin"])


def is_naive(spec):
    return spec["kind"] == "naive"


def ref_aware(spec):
    """Python reference value: naive taken as UTC."""
    naive = DMIN + spec["wall"] * US
    if is_naive(spec):
        return naive.replace(tzinfo=UTC)
    return naive.replace(tzinfo=datetime.timezone(datetime.timedelta(minutes=spec["offmin"])))


def hdt_term(spec):
    if is_naive(spec):
        return gal.app("Naive", gal.z(spec["wall"]))
    return "(Aware (mk_adt %s %s))" % (gal.z(spec["wall"]), gal.z(spec["offmin"] * 60000000))


# --------------------------------------------------------------------------
# observations
# --------------------------------------------------------------------------
def observe(r):
    if isinstance(r, BaseException):
        if isinstance(r, (OverflowError, ValueError)):
            return ("err", "RangeErr")
        if isinstance(r, TypeError):
            return ("err", "TypeErr")
        if isinstance(r, ZeroDivisionError):
            return ("err", "ZeroDiv")
        return ("other", type(r).__name__)
    if isinstance(r, bool):
        return ("bool", r)
    if isinstance(r, int):
        return ("int", r)
    if isinstance(r, float):
        if math.isinf(r) or math.isnan(r):
            return ("other", "nonfinite")
        n, d = r.as_integer_ratio()
        return ("float", n, d)
    if isinstance(r, datetime.datetime):
        o = off_of(r)
        return ("naive", wall_of(r)) if o is None else ("dt", wall_of(r), o)
    if isinstance(r, datetime.timedelta):
        return ("ts", r // US)
    if isinstance(r, str):
        return ("str", r)
    return ("other", type(r).__name__)


def obs_term(o):
    k = o[0]
    if k == "dt":
        return gal.app("ODt", gal.z(o[1]), gal.z(o[2]))
    if k == "naive":
        return gal.app("ONaive", gal.z(o[1]))
    if k == "ts":
        return gal.app("OTs", gal.z(o[1]))
    if k == "bool":
        return gal.app("OBool", gal.boolean(o[1]))
    if k == "int":
        return gal.app("OInt", gal.z(o[1]))
    if k == "float":
        return gal.app("OFloat", gal.z(o[1]), "%d%%positive" % o[2])
    if k == "err":
        return gal.app("OErr", o[1])
    if k == "str":
        return gal.app("OStr", gal.s(o[1]))
    return "OOther"


def float_close(fn, fd, n, d):
    return abs(fn * d - n * fd) * (1 << 51) <= abs(n * fd)


def obs_agree(obs, ref):
    """ref may contain ("rat", n, d): the exact rational a float must round."""
    if ref[0] == "rat":
        return obs[0] == "float" and float_close(obs[1], obs[2], ref[1], ref[2])
    if ref[0] == "tsnear":
        return obs[0] == "ts" and ts_near(obs[1], ref[1], ref[2])
    return tuple(obs) == tuple(ref)


# --------------------------------------------------------------------------
# cases: (op name, args) ; text + data for yaql ; Gallina term ; Python reference
# --------------------------------------------------------------------------
CMPS = {"Lt": "<", "Le": "<=", "Gt": ">", "Ge": ">=", "Eq": "=", "Ne": "!="}
FIELDS = {"FYear": "year", "FMonth": "month", "FDay": "day", "FHour": "hour", "FMinute": "minute", "FSecond": "second", "FMicrosecond": "microsecond",
          "FWeekday": "weekday"}
UNITS = {"UMicroseconds": ("microseconds", 1), "UMilliseconds": ("milliseconds", 1000),
         "USeconds": ("seconds", 10 ** 6), "UMinutes": ("minutes", 6 * 10 ** 7),
         "UHours": ("hours", 36 * 10 ** 8), "UDays": ("days", 864 * 10 ** 8)}
ISO_FORMAT = "%Y-%m-%dT%H:%M:%S.%f%:z"
FIELD_NAMES = ["year", "month", "day", "hour", "minute", "second", "microsecond"]
TSOPS = {"TAdd": "%s + %s", "TSub": "%s - %s", "TMulInt": "%s * %s", "TDivTs": "%s / %s", "TNeg": "-%s", "TPos": "+%s"}


def num_value(n):
    """number spec ["int", k] | ["float", hex] -> python number"""
    return int(n[1]) if n[0] == "int" else float.fromhex(n[1])


def num_term(n):
    if n[0] == "int":
        return gal.app("NInt", gal.z(n[1]))
    a, b = float.fromhex(n[1]).as_integer_ratio()
    return gal.app("NFloat", gal.z(a), "%d%%positive" % b)


def num_fraction(n):
    return fractions.Fraction(num_value(n))


def ts_near(r, num, den):
    return abs(r * den - num) * (1 << 52) <= den * (1 << 51) + 2 * abs(num)


def timestamp_literal(s_us, style):
    """a timestamp that denotes exactly s_us microseconds: yaql text of an integer number of
    seconds, or "float:<hex>" for a float handed over as data; None when there is none."""
    if style == "int":
        return "%d" % (s_us // 10 ** 6) if s_us % 10 ** 6 == 0 else None
    f = s_us / 1e6
    # the float must determine the microsecond: exact, or well inside the half-microsecond
    err = abs(fractions.Fraction(f) * 10 ** 6 - s_us)
    if err > fractions.Fraction(1, 8):
        return None
    if "e" not in repr(f) and "inf" not in repr(f) and s_us % 2 == 0:
        return repr(f)            # as a yaql float literal (exercises the lexer's float conversion too)
    return "float:" + f.hex()


def ts_arg(txt):
    """-> (yaql text, data) for a timestamp produced by timestamp_literal"""
    if txt.startswith("float:"):
        return "$.s", {"s": float.fromhex(txt[6:])}
    return txt, None


def case_text(c):
    """-> (yaql text, data)"""
    op, a = c["op"], c["args"]
    data = {}

    def H(i, var):
        spec = a[i]
        if spec["kind"] != "yaql":
            data[var] = host(spec)
        return host_text(spec, var)

    if op == "OpFromTimestamp":
        t, d = ts_arg(c["ts_text"])
        return "datetime(%s, timespan(minutes => %d))" % (t, a[1]), d
    if op == "OpTimestamp":
        return "%s.timestamp" % H(0, "a"), data
    if op == "OpUtc":
        return "%s.utc" % H(0, "a"), data
    if op == "OpOffset":
        return "%s.offset" % H(0, "a"), data
    if op == "OpAdd":
        return "%s + %s" % (H(0, "a"), ts_text(a[1])), data
    if op == "OpAddR":
        return "%s + %s" % (ts_text(a[0]), H(1, "a")), data
    if op == "OpSubTs":
        return "%s - %s" % (H(0, "a"), ts_text(a[1])), data
    if op == "OpDiff":
        return "%s - %s" % (H(0, "a"), H(1, "b")), data
    if op == "OpCmp":
        return "%s %s %s" % (H(1, "a"), CMPS[a[0]], H(2, "b")), data
    if op == "OpDate":
        return "%s.date" % H(0, "a"), data
    if op == "OpTime":
        return "%s.time" % H(0, "a"), data
    if op == "OpField":
        return "%s.%s" % (H(1, "a"), FIELDS[a[0]]), data
    if op == "OpBuild":
        return "datetime(%s, timespan(minutes => %d))" % (", ".join("%d" % v for v in a[:7]), a[7]), None
    if op == "OpReplace":
        kw = ["%s => %d" % (n, v) for n, v in zip(FIELD_NAMES, a[1]) if v is not None]
        if a[2] is not None:
            kw.append("offset => timespan(minutes => %d)" % a[2])
        return "%s.replace(%s)" % (H(0, "a"), ", ".join(kw)), data
    if op == "OpUnit":
        return "$.t.%s" % UNITS[a[0]][0], {"t": a[1] * US}
    if op == "OpTimespan":
        names = ["days", "hours", "minutes", "seconds", "milliseconds", "microseconds"]
        return "timespan(%s)" % ", ".join("%s => %d" % (n, v) for n, v in zip(names, a)), None
    if op == "OpTsCmp":
        return "$.x %s $.y" % CMPS[a[0]], {"x": a[1] * US, "y": a[2] * US}
    if op == "OpFormatIso":
        return "%s.format('%s')" % (H(0, "a"), ISO_FORMAT), data
    if op == "OpParseIso":
        return "datetime($.s)", {"s": a[0]}
    if op == "OpTsMul":
        return "$.x * $.n", {"x": a[0] * US, "n": num_value(a[1])}
    if op == "OpTsMulR":
        return "$.n * $.x", {"x": a[1] * US, "n": num_value(a[0])}
    if op == "OpTsDiv":
        return "$.x / $.n", {"x": a[0] * US, "n": num_value(a[1])}
    if op == "OpTsOp":
        if a[0] == "TMulInt":
            return "$.x * $.y", {"x": a[1] * US, "y": a[2]}
        if a[0] in ("TNeg", "TPos"):
            return TSOPS[a[0]] % "$.x", {"x": a[1] * US}
        return TSOPS[a[0]] % ("$.x", "$.y"), {"x": a[1] * US, "y": a[2] * US}
    raise ValueError(op)


def case_op_term(c):
    op, a = c["op"], c["args"]
    z = gal.z
    if op == "OpFromTimestamp":
        return gal.app(op, z(a[0]), z(a[1] * 60000000))
    if op in ("OpTimestamp", "OpUtc", "OpOffset", "OpDate", "OpTime"):
        return gal.app(op, hdt_term(a[0]))
    if op in ("OpAdd", "OpSubTs"):
        return gal.app(op, hdt_term(a[0]), z(a[1]))
    if op == "OpAddR":
        return gal.app(op, z(a[0]), hdt_term(a[1]))
    if op == "OpDiff":
        return gal.app(op, hdt_term(a[0]), hdt_term(a[1]))
    if op == "OpCmp":
        return gal.app(op, a[0], hdt_term(a[1]), hdt_term(a[2]))
    if op == "OpField":
        return gal.app(op, a[0], hdt_term(a[1]))
    if op == "OpBuild":
        return gal.app(op, *([z(v) for v in a[:7]] + [z(a[7] * 60000000)]))
    if op == "OpReplace":
        return gal.app(op, hdt_term(a[0]), *([gal.opt(v, z) for v in a[1]] +
                                             [gal.opt(None if a[2] is None else a[2] * 60000000, z)]))
    if op == "OpUnit":
        return gal.app(op, a[0], z(a[1]))
    if op == "OpTimespan":
        return gal.app(op, *[z(v) for v in a])
    if op == "OpTsCmp":
        return gal.app(op, a[0], z(a[1]), z(a[2]))
    if op == "OpTsOp":
        return gal.app(op, a[0], z(a[1]), z(a[2]))
    if op == "OpFormatIso":
        return gal.app(op, hdt_term(a[0]))
    if op == "OpParseIso":
        return gal.app(op, gal.s(a[0]))
    if op in ("OpTsMul", "OpTsDiv"):
        return gal.app(op, z(a[0]), num_term(a[1]))
    if op == "OpTsMulR":
        return gal.app(op, num_term(a[0]), z(a[1]))
    raise ValueError(op)


def case_term(c, obs):
    return "{| c_op := %s; c_obs := %s |}" % (case_op_term(c), obs_term(obs))


def py_cmp(name, x, y):
    return {"Lt": x < y, "Le": x <= y, "Gt": x > y, "Ge": x >= y, "Eq": x == y, "Ne": x != y}[name]


def _dt_obs(d):
    return ("dt", wall_of(d), off_of(d))


def _ts_obs(us_total):
    if not (-999999999 * DAY <= us_total < 10 ** 9 * DAY):
        return ("err", "RangeErr")
    return ("ts", us_total)


def reference(c):
    """What the property requires, computed with Python's own datetime arithmetic
    (never with yaql): the canonical observation, floats as ("rat", n, d).
    Returns (obs, also_acceptable_obs_or_None)."""
    op, a = c["op"], c["args"]
    try:
        if op == "OpFromTimestamp":
            inst = EPOCH_AWARE + a[0] * US
            return _dt_obs(inst.astimezone(datetime.timezone(datetime.timedelta(minutes=a[1])))), None
        if op == "OpTimestamp":
            d = ref_aware(a[0])
            lenient = None
            try:
                d.astimezone(UTC)
            except OverflowError:
                lenient = ("err", "RangeErr")
            return ("rat", (d - EPOCH_AWARE) // US, 10 ** 6), lenient
        if op == "OpUtc":
            return _dt_obs(ref_aware(a[0]).astimezone(UTC)), None
        if op == "OpOffset":
            return ("ts", 0 if is_naive(a[0]) else a[0]["offmin"] * 60000000), None
        if op == "OpAdd":
            return _dt_obs(ref_aware(a[0]) + a[1] * US), None
        if op == "OpAddR":
            return _dt_obs(a[0] * US + ref_aware(a[1])), None
        if op == "OpSubTs":
            return _dt_obs(ref_aware(a[0]) - a[1] * US), None
        if op == "OpDiff":
            return ("ts", (ref_aware(a[0]) - ref_aware(a[1])) // US), None
        if op == "OpCmp":
            return ("bool", py_cmp(a[0], ref_aware(a[1]), ref_aware(a[2]))), None
        if op == "OpDate":
            d = ref_aware(a[0])
            return _dt_obs(d.replace(hour=0, minute=0, second=0, microsecond=0)), None
        if op == "OpTime":
            d = ref_aware(a[0])
            return ("ts", (d - d.replace(hour=0, minute=0, second=0, microsecond=0)) // US), None
        if op == "OpField":
            d = ref_aware(a[1])
            f = FIELDS[a[0]]
            return ("int", d.weekday() if f == "weekday" else getattr(d, f)), None
        if op == "OpBuild":
            try:
                d = datetime.datetime(*a[:7], tzinfo=datetime.timezone(datetime.timedelta(minutes=a[7])))
            except ValueError:
                return ("err", "RangeErr"), None
            return _dt_obs(d), None
        if op == "OpReplace":
            d = ref_aware(a[0])
            kw = {n: v for n, v in zip(FIELD_NAMES, a[1]) if v is not None}
            if a[2] is not None:
                kw["tzinfo"] = datetime.timezone(datetime.timedelta(minutes=a[2]))
            try:
                return _dt_obs(d.replace(**kw)), None
            except ValueError:
                return ("err", "RangeErr"), None
        if op == "OpUnit":
            if a[0] == "UMicroseconds":
                return ("int", a[1]), None
            return ("rat", a[1], UNITS[a[0]][1]), None
        if op == "OpTimespan":
            d, h, m, s, ms, us = a
            return _ts_obs(((((d * 24 + h) * 60 + m) * 60 + s) * 1000 + ms) * 1000 + us), None
        if op == "OpFormatIso":
            return ("str", ref_aware(a[0]).isoformat(timespec="microseconds")), None
        if op == "OpParseIso":
            try:
                d = datetime.datetime.fromisoformat(a[0])
            except ValueError:
                return ("err", "RangeErr"), None
            return _dt_obs(d if d.tzinfo is not None else d.replace(tzinfo=UTC)), None
        if op in ("OpTsMul", "OpTsMulR", "OpTsDiv"):
            t, n = (a[1], a[0]) if op == "OpTsMulR" else (a[0], a[1])
            if op == "OpTsDiv":
                if num_value(n) == 0:
                    return ("err", "ZeroDiv"), None
                q = fractions.Fraction(t) / num_fraction(n)
            else:
                q = fractions.Fraction(t) * num_fraction(n)
                if n[0] == "int":
                    return _ts_obs(t * int(n[1])), None
            fl = q.numerator // q.denominator
            if _ts_obs(fl - 1)[0] == "err" or _ts_obs(fl + 2)[0] == "err":
                return ("err", "RangeErr"), None
            return ("tsnear", q.numerator, q.denominator), None
        if op == "OpTsCmp":
            return ("bool", py_cmp(a[0], a[1], a[2])), None
        if op == "OpTsOp":
            o, x, y = a
            if o == "TAdd":
                return _ts_obs(x + y), None
            if o == "TSub":
                return _ts_obs(x - y), None
            if o == "TMulInt":
                return _ts_obs(x * y), None
            if o == "TNeg":
                return _ts_obs(-x), None
            if o == "TPos":
                return ("ts", x), None
            if o == "TDivTs":
                if y == 0:
                    return ("err", "ZeroDiv"), None
                return (("rat", x, y) if y > 0 else ("rat", -x, -y)), None
    except OverflowError:
        return ("err", "RangeErr"), None
    raise ValueError(op)


LAW = {
    "OpFromTimestamp": "datetime(s, o) is not the instant s shown at offset o",
    "OpTimestamp": "d.timestamp is not the instant of d (seconds since 1970-01-01T00:00Z; naive taken as UTC)",
    "OpUtc": "d.utc is not the same instant as d expressed at offset zero",
    "OpOffset": "d.offset is not the offset of d (zero for a naive host datetime)",
    "OpAdd": "d + t does not move the instant by t keeping the offset",
    "OpAddR": "t + d does not move the instant by t keeping the offset",
    "OpSubTs": "d - t does not move the instant by -t keeping the offset",
    "OpDiff": "d1 - d2 is not the difference of the instants",
    "OpCmp": "equality/ordering of datetimes is not that of their instants (naive taken as UTC)",
    "OpDate": "d.date is not midnight of d's wall day in d's zone",
    "OpTime": "d.time is not d's wall time of day",
    "OpField": "wall-clock field of d is wrong",
    "OpBuild": "datetime(year, ..., offset) is not the reading with these fields at that offset",
    "OpReplace": "d.replace(...) is not d's reading with the given fields / offset replaced (naive taken as UTC)",
    "OpUnit": "timespan unit property is not microseconds / unit",
    "OpTimespan": "timespan(...) is not the sum of its components",
    "OpTsCmp": "timespan comparison is not that of the microsecond counts",
    "OpTsOp": "timespan arithmetic is not that of the microsecond counts",
    "OpFormatIso": "d.format(ISO-8601 format) is not the ISO text of d's reading and offset (naive taken as UTC)",
    "OpParseIso": "datetime(ISO-8601 text) is not the reading and offset the text spells (no zone = UTC)",
    "OpTsMul": "timespan * number is not the timespan nearest microseconds * number",
    "OpTsMulR": "number * timespan is not the timespan nearest microseconds * number",
    "OpTsDiv": "timespan / number is not the timespan nearest microseconds / number",
}


def run_case(c):
    text, data = case_text(c)
    return text, observe(ev(text, data))


def judge(c, obs):
    """None when the implementation meets the property on this case, else the required observation."""
    ref, alt = reference(c)
    if obs_agree(obs, ref) or (alt is not None and obs_agree(obs, alt)):
        return None
    return ref


# --------------------------------------------------------------------------
# generators
# --------------------------------------------------------------------------
YEARS = [1, 1969, 1970, 2000, 2038, 9999]
OFF_EDGES = [0, 1, -1, 59, -59, 60, -60, 90, -90, 180, -180, 330, -330, 345, 570, -570, 720, -720, 840, 1439, -1439]
FIXED_KINDS = ["naive", "timezone", "tzoffset", "yaql", "tzutc"]
KINDS = FIXED_KINDS + ["zone"]


def gen_wall(rng):
    r = rng.random()
    if r < 0.12:
        return rng.choice([0, 1, MAXWALL - 1, MAXWALL - 2, EPOCH_WALL, EPOCH_WALL - 1, EPOCH_WALL + 1,
                           DAY - 1, DAY, MAXWALL - DAY, MAXWALL - DAY - 1,
                           (datetime.datetime(2000, 2, 29, 23, 59, 59, 999999) - DMIN) // US,
                           (datetime.datetime(2038, 1, 19, 3, 14, 7) - DMIN) // US,
                           (datetime.datetime(2038, 1, 19, 3, 14, 8) - DMIN) // US])
    y = rng.choice(YEARS)
    start = (datetime.datetime(y, 1, 1) - DMIN) // US
    days = 366 if (y % 4 == 0 and (y % 100 != 0 or y % 400 == 0)) else 365
    w = start + rng.randrange(days) * DAY
    t = rng.random()
    if t < 0.15:
        w += rng.choice([0, 1, DAY - 1, DAY // 2, 3600 * 10 ** 6 - 1])
    elif t < 0.3:
        w += rng.randrange(86400) * 10 ** 6
    else:
        w += rng.randrange(DAY)
    return w


def gen_offmin(rng):
    return rng.choice(OFF_EDGES) if rng.random() < 0.4 else rng.randrange(-1439, 1440)


def gen_zone_host(rng):
    """an aware host datetime in a zone with a varying offset, at a steady wall reading: on both sides of the
    zone's changes of offset, around the epoch, and anywhere in the grid years"""
    for _ in range(80):
        name = rng.choice(ZONE_NAMES)
        z = ZONES[name]
        year = rng.choice([1970, 1970, 1969, 2000, 2021, 2038, 9999, 1])
        r = rng.random()
        try:
            if r < 0.55:
                trs = zone_transitions(name, year)
                if not trs:
                    continue
                naive = rng.choice(trs) + datetime.timedelta(days=rng.choice([-2, -1, 0, 0, 1, 1, 2, 3]),
                                                             seconds=rng.randrange(-43200, 43200),
                                                             microseconds=rng.randrange(10 ** 6))
            elif r < 0.75:
                naive = datetime.datetime(1970, 1, 1) + datetime.timedelta(seconds=rng.randrange(-4 * 86400, 4 * 86400),
                                                                           microseconds=rng.choice([0, 1, 999999, rng.randrange(10 ** 6)]))
            else:
                naive = datetime.datetime(year, 1, 1) + datetime.timedelta(days=rng.randrange(365), seconds=rng.randrange(86400),
                                                                           microseconds=rng.randrange(10 ** 6))
        except OverflowError:
            continue
        if not steady(z, naive):
            continue
        return {"kind": "zone", "zone": name, "wall": (naive - DMIN) // US,
                "offmin": zone_offset(z, naive) // datetime.timedelta(minutes=1)}
    return gen_host(rng, FIXED_KINDS)


def keeps_offset(spec, result_naive):
    """for a zone host: the zone has the operand's offset at this other wall reading too (and steadily)"""
    z = ZONES[spec["zone"]]
    return steady(z, result_naive) and zone_offset(z, result_naive) == datetime.timedelta(minutes=spec["offmin"])


def gen_host(rng, kinds=KINDS):
    k = rng.choice(kinds)
    if k == "zone":
        return gen_zone_host(rng)
    spec = {"kind": k, "wall": gen_wall(rng), "offmin": 0}
    if k in ("timezone", "tzoffset", "yaql"):
        spec["offmin"] = gen_offmin(rng)
    return spec


def gen_related(rng, spec):
    """another datetime near the same instant (equal instants with different offsets matter)."""
    k = rng.choice(FIXED_KINDS)       # never a second operand in a variable-offset zone (see ASSUMPTIONS)
    offmin = gen_offmin(rng) if k in ("timezone", "tzoffset", "yaql") else 0
    inst = spec["wall"] - spec["offmin"] * 60000000
    delta = rng.choice([0, 0, 0, 1, -1, 60000000, -60000000, 3600000000, -3600000000, rng.randrange(-DAY, DAY)])
    w = inst + delta + offmin * 60000000
    if not (0 <= w < MAXWALL):
        return gen_host(rng, FIXED_KINDS)
    return {"kind": k, "wall": w, "offmin": offmin}


TS_MIN = -999999999 * DAY                 # timedelta.min in microseconds
TS_MAX = 10 ** 9 * DAY - 1                # timedelta.max in microseconds
COMPONENT_UNITS = [DAY, 3600 * 10 ** 6, 60 * 10 ** 6, 10 ** 6, 1000, 1]     # days .. microseconds
COMPONENT_NAMES = ["days", "hours", "minutes", "seconds", "milliseconds", "microseconds"]
WORD_EDGES = [2 ** 31 - 1, 2 ** 31, 2 ** 31 + 1, 2 ** 32, 2 ** 53 - 1, 2 ** 53, 2 ** 53 + 1, 2 ** 62, 2 ** 63 - 1, 2 ** 63,
              2 ** 63 + 1, 2 ** 64 - 1, 2 ** 64, 2 ** 64 + 1, 2 ** 65, 2 ** 66]
# microsecond counts at and beyond the machine-word boundaries, up to python's timedelta limits, both signs
# (the only guard of the model and of the property is the timedelta range itself)
BOUNDARY_TOTALS = sorted({sg * v for v in WORD_EDGES for sg in (1, -1) if TS_MIN <= sg * v <= TS_MAX} |
                         {TS_MIN, TS_MIN + 1, TS_MAX, TS_MAX - 1, TS_MAX - DAY, TS_MIN + DAY, -(2 ** 63) - 1, -(2 ** 63)})


def gen_boundary_components(rng):
    """timespan(...) arguments in which ONE component parameter sits at / beyond a machine-word boundary or at
    the largest value the timedelta range allows for it; half of the time another component brings the total
    back into (or next to) the timedelta range, so that the component itself is what is large"""
    i = rng.randrange(6)
    unit = COMPONENT_UNITS[i]
    top = TS_MAX // unit
    b = rng.choice(WORD_EDGES + [top, top + 1, top - 1, (-TS_MIN) // unit, (-TS_MIN) // unit + 1])
    b *= rng.choice([1, -1])
    comps = [0] * 6
    for j in range(6):
        if j != i and rng.random() < 0.3:
            comps[j] = rng.randrange(-50, 51)
    comps[i] = b
    if rng.random() < 0.5:
        j = rng.choice([k for k in range(6) if k != i])
        target = rng.choice([0, 0, rng.randrange(-10 ** 6, 10 ** 6), TS_MAX, TS_MIN, TS_MAX + 1, TS_MIN - 1,
                             rng.choice(BOUNDARY_TOTALS)])
        total = sum(c * u for c, u in zip(comps, COMPONENT_UNITS)) - comps[j] * COMPONENT_UNITS[j]
        comps[j] = (target - total) // COMPONENT_UNITS[j]
    return comps


def gen_ts(rng):
    r = rng.random()
    if r < 0.06:
        return min(TS_MAX, max(TS_MIN, rng.choice(BOUNDARY_TOTALS) + rng.choice([0, 0, 1, -1])))
    r = (r - 0.06) / 0.94
    if r < 0.2:
        return rng.choice([0, 1, -1, 999, 1000, -1000, 10 ** 6, -10 ** 6, 59999999, 6 * 10 ** 7, 36 * 10 ** 8, DAY, -DAY,
                           DAY - 1, 1 - DAY, 365 * DAY, -366 * DAY])
    comps = gen_components(rng)
    d, h, m, s, ms, us = comps
    return ((((d * 24 + h) * 60 + m) * 60 + s) * 1000 + ms) * 1000 + us


def gen_components(rng):
    def c(lim):
        r = rng.random()
        if r < 0.35:
            return 0
        return rng.randrange(-lim, lim + 1)
    big = rng.random() < 0.1
    return [c(4000000 if big else 800), c(100), c(200), c(100000), c(5000), c(3000000)]


def gen_number(rng):
    r = rng.random()
    if r < 0.45:
        return ["int", rng.choice([0, 1, -1, 2, -2, 3, 7, 10, -10, 24, 60, 1000, rng.randrange(-10 ** 4, 10 ** 4)])]
    if r < 0.7:
        return ["float", float(rng.choice([0.5, -0.5, 0.1, 1.5, -2.25, 0.001, 1e-6, 3.0, 0.0, 1 / 3, 2 / 3, 1e3, 24.0])).hex()]
    return ["float", float(rng.uniform(-100, 100)).hex()]


def gen_scale(rng):
    t = gen_ts(rng)
    if rng.random() < 0.25:
        t = rng.randrange(-10 ** 7, 10 ** 7)          # small counts: ties at half a microsecond matter
    n = gen_number(rng)
    q = rng.random()
    if q < 0.3:
        return {"op": "OpTsMul", "args": [t, n]}
    if q < 0.5:
        return {"op": "OpTsMulR", "args": [n, t]}
    if q < 0.75 or n[0] != "int" or int(n[1]) == 0 or abs(t * int(n[1])) >= 8 * 10 ** 19:
        return {"op": "OpTsDiv", "args": [t, n]}
    return {"op": "OpTsDiv", "args": [t * int(n[1]), n]}       # a multiple: (t * k) / k


def gen_iso_text(rng):
    """a string of the modelled shape YYYY-MM-DDTHH:MM:SS[.ffffff](Z|+HH:MM|-HH:MM|nothing); sometimes with
    a field out of range (the shape is kept: the parser must refuse, not reinterpret)"""
    n = DMIN + gen_wall(rng) * US
    f = [n.year, n.month, n.day, n.hour, n.minute, n.second, n.microsecond]
    if rng.random() < 0.15:
        i = rng.randrange(1, 6)
        f[i] = rng.choice([[13, 0], [0, 32, 30, 31], [24], [60], [60]][i - 1])
    txt = "%04d-%02d-%02dT%02d:%02d:%02d" % tuple(f[:6])
    if rng.random() < 0.7:
        txt += ".%06d" % f[6]
    q = rng.random()
    if q < 0.2:
        txt += "Z"
    elif q < 0.9:
        o = gen_offmin(rng)
        if o == 0 and rng.random() < 0.5:
            o = 1
        txt += "%s%02d:%02d" % ("-" if o < 0 else "+", abs(o) // 60, abs(o) % 60)
    return txt


def gen_iso(rng):
    if rng.random() < 0.5:
        return {"op": "OpParseIso", "args": [gen_iso_text(rng)]}
    for _ in range(20):
        h = gen_host(rng)
        if (DMIN + h["wall"] * US).year >= 1000:      # the C library's %Y does not pad smaller years
            return {"op": "OpFormatIso", "args": [h]}
    return {"op": "OpParseIso", "args": [gen_iso_text(rng)]}


def gen_case(rng):
    r = rng.random()
    if r < 0.05:
        return gen_scale(rng)
    if r < 0.10:
        return gen_iso(rng)
    r = (r - 0.10) / 0.90
    if r < 0.14:
        # datetime(timestamp, offset): timestamps over the whole range, near the edges, and just outside
        style = rng.choice(["int", "float", "float"])
        for _ in range(50):
            q = rng.random()
            if q < 0.1:
                s = rng.choice([0, 1, -1, -EPOCH_WALL, MAXWALL - EPOCH_WALL - 10 ** 6, -EPOCH_WALL - 60 * 10 ** 6,
                                MAXWALL - EPOCH_WALL, 10 ** 12, 2 ** 31 * 10 ** 6, -2 ** 31 * 10 ** 6])
                s += rng.choice([0, 0, 60, -60, 3600, -3600, 86399]) * 10 ** 6
            else:
                s = gen_wall(rng) - EPOCH_WALL
            if style == "int":
                s -= s % 10 ** 6
            elif rng.random() < 0.3:
                s -= s % 10 ** 6
                s += rng.choice([500000, 250000, 750000, 125000, 0])
            txt = timestamp_literal(s, style)
            if txt is not None:
                return {"op": "OpFromTimestamp", "args": [s, gen_offmin(rng)], "ts_text": txt}
        return {"op": "OpFromTimestamp", "args": [0, gen_offmin(rng)], "ts_text": "0"}
    if r < 0.26:
        return {"op": "OpTimestamp", "args": [gen_host(rng)]}
    if r < 0.36:
        return {"op": "OpUtc", "args": [gen_host(rng)]}
    if r < 0.40:
        return {"op": "OpOffset", "args": [gen_host(rng)]}
    if r < 0.52:
        op = rng.choice(["OpAdd", "OpAddR", "OpSubTs"])
        h, t = gen_host(rng), gen_ts(rng)
        if rng.random() < 0.1:      # push across the range edge
            t = rng.choice([-1, 1]) * (h["wall"] if rng.random() < 0.5 else MAXWALL - h["wall"]) + rng.choice([-1, 0, 1])
        if h["kind"] == "zone":
            try:
                ok = keeps_offset(h, DMIN + (h["wall"] + (-t if op == "OpSubTs" else t)) * US)
            except OverflowError:
                ok = True            # a range error either way
            if not ok:
                h = gen_host(rng, FIXED_KINDS)
        return {"op": op, "args": [t, h] if op == "OpAddR" else [h, t]}
    if r < 0.60:
        a = gen_host(rng)
        return {"op": "OpDiff", "args": [a, gen_related(rng, a)]}
    if r < 0.78:
        a = gen_host(rng)
        return {"op": "OpCmp", "args": [rng.choice(list(CMPS)), a, gen_related(rng, a)]}
    if r < 0.82:
        op, h = rng.choice(["OpDate", "OpTime"]), gen_host(rng)
        if op == "OpDate" and h["kind"] == "zone" and not keeps_offset(h, DMIN + (h["wall"] - h["wall"] % DAY) * US):
            h = gen_host(rng, FIXED_KINDS)
        return {"op": op, "args": [h]}
    if r < 0.85:
        return {"op": "OpField", "args": [rng.choice(list(FIELDS)), gen_host(rng)]}
    if r < 0.875:
        return gen_build(rng)
    if r < 0.90:
        return gen_replace(rng)
    if r < 0.935:
        t = gen_ts(rng)
        if rng.random() < 0.05:
            t = rng.choice([-999999999 * DAY, 10 ** 9 * DAY - 1, 2 ** 53 + 1, -(2 ** 53) - 1, 2 ** 60 + 12345])
        return {"op": "OpUnit", "args": [rng.choice(list(UNITS)), t]}
    if r < 0.96:
        comps = gen_components(rng)
        if rng.random() < 0.3:
            comps = gen_boundary_components(rng)
        elif rng.random() < 0.07:
            comps = rng.choice([[999999999, 23, 59, 59, 999, 999], [999999999, 24, 0, 0, 0, 0], [-999999999, 0, 0, 0, 0, 0],
                                [-999999999, 0, 0, 0, 0, -1], [10 ** 9, -1, 0, 0, 0, 0], [0, 0, 0, 0, 0, gen_ts(rng)]])
        return {"op": "OpTimespan", "args": comps}
    if r < 0.98:
        x = gen_ts(rng)
        return {"op": "OpTsCmp", "args": [rng.choice(list(CMPS)), x, rng.choice([x, x + 1, x - 1, gen_ts(rng)])]}
    o = rng.choice(list(TSOPS))
    y = gen_ts(rng)
    if o == "TMulInt":
        y = rng.choice([0, 1, -1, 2, -3, 1000, rng.randrange(-10 ** 6, 10 ** 6)])
    if o in ("TNeg", "TPos"):
        y = 0
    return {"op": "OpTsOp", "args": [o, gen_ts(rng), y]}


def gen_field_values(rng, n):
    """plausible and slightly-out-of-range values for the seven fields"""
    return [rng.choice([n.year, n.year, 1, 9999, 2000, 1900, 2100, 0, 10000, rng.randrange(1, 10000)]),
            rng.choice([n.month, 1, 2, 12, 0, 13, rng.randrange(1, 13)]),
            rng.choice([n.day, 1, 28, 29, 30, 31, 0, 32, rng.randrange(1, 29)]),
            rng.choice([n.hour, 0, 23, 24, -1, rng.randrange(24)]),
            rng.choice([n.minute, 0, 59, 60, rng.randrange(60)]),
            rng.choice([n.second, 0, 59, 60, rng.randrange(60)]),
            rng.choice([n.microsecond, 0, 999999, 1000000, -1, rng.randrange(10 ** 6)])]


def gen_build(rng):
    n = DMIN + gen_wall(rng) * US
    vals = [n.year, n.month, n.day, n.hour, n.minute, n.second, n.microsecond]
    if rng.random() < 0.5:
        alt = gen_field_values(rng, n)
        for i in range(7):
            if rng.random() < 0.3:
                vals[i] = alt[i]
    return {"op": "OpBuild", "args": vals + [gen_offmin(rng)]}


def gen_replace(rng):
    h = gen_host(rng, FIXED_KINDS)        # the result would keep a variable-offset tzinfo at another reading
    n = DMIN + h["wall"] * US
    alt = gen_field_values(rng, n)
    reps = [alt[i] if rng.random() < 0.3 else None for i in range(7)]
    off = gen_offmin(rng) if rng.random() < 0.4 else None
    if all(v is None for v in reps) and off is None:
        reps[2] = rng.choice([1, 2, 3])
    return {"op": "OpReplace", "args": [h, reps, off]}


def specs_of(c):
    return [x for x in c["args"] if isinstance(x, dict)]


def nontrivial(c):
    hs = specs_of(c)
    if hs:
        return any(h["offmin"] != 0 or is_naive(h) or h["wall"] < DAY or h["wall"] >= MAXWALL - DAY for h in hs)
    if c["op"] == "OpFromTimestamp":
        return c["args"][1] != 0
    if c["op"] == "OpParseIso":
        return True
    return any(isinstance(x, int) and x != 0 for x in c["args"])


# --------------------------------------------------------------------------
# C
# --------------------------------------------------------------------------
def load_corpus():
    path = os.path.join(os.path.dirname(os.path.dirname(os.path.dirname(os.path.abspath(__file__)))), "corpus", "C20.json")
    if not os.path.exists(path):
        return [], []
    j = json.load(open(path))

    def usable(x):       # entries that name a variable-offset zone this host cannot build are skipped
        if isinstance(x, dict):
            if x.get("kind") == "zone" and x.get("zone") not in ZONES:
                return False
            return all(usable(v) for v in x.values())
        if isinstance(x, list):
            return all(usable(v) for v in x)
        return True
    return [c for c in j.get("cases", []) if usable(c)], [l for l in j.get("laws", []) if usable(l)]


_seen_fail = {}


def report_case(run, c, text, obs, model_disagrees):
    req = judge(c, obs)
    key = (c["op"], c["args"][0] if c["op"] in ("OpCmp", "OpField", "OpUnit", "OpTsOp") else
           [x[0] for x in c["args"] if isinstance(x, list)][0] if c["op"] in ("OpTsMul", "OpTsMulR", "OpTsDiv") else None,
           tuple(sorted({h["kind"] == "naive" for h in specs_of(c)})),
           any(h["kind"] == "zone" for h in specs_of(c)), req is None)
    _seen_fail[key] = _seen_fail.get(key, 0) + 1
    if _seen_fail[key] > 1:
        return
    data = {"case": c, "yaql": text, "observed": list(obs),
            "required": None if req is None else list(req),
            "theorems": THEOREMS.get(c["op"], [])}
    if req is not None:
        what = LAW[c["op"]]
        if c["op"] == "OpCmp":
            what += " [%s%s]" % (CMPS[c["args"][0]], ", naive operand" if any(is_naive(h) for h in specs_of(c)) else "")
        elif any(is_naive(h) for h in specs_of(c)):
            what += " [naive host datetime]"
        if any(h["kind"] == "zone" for h in specs_of(c)):
            what += " [host datetime in a zone with a varying offset]"
        run.fail("violation", what, data)
    elif model_disagrees:
        run.fail("mismatch", "model and implementation disagree on a call the Python reference accepts: %s" % c["op"], data)


THEOREMS = {
    "OpFromTimestamp": ["C20_timestamp_roundtrip", "C20_datetime_of_timestamp_roundtrip"],
    "OpTimestamp": ["C20_timestamp_roundtrip", "C20_naive_is_utc"],
    "OpUtc": ["C20_utc_same_instant", "C20_naive_is_utc"],
    "OpAdd": ["C20_add_sub"], "OpAddR": ["C20_add_sub"], "OpSubTs": ["C20_add_sub"], "OpDiff": ["C20_add_sub"],
    "OpCmp": ["C20_order_is_instant_order", "C20_naive_is_utc"],
    "OpUnit": ["C20_units"], "OpTimespan": ["C20_units"],
    "OpTsMul": ["C20_timespan_scale", "C20_timespan_scale_rational"], "OpTsMulR": ["C20_timespan_scale_rational"],
    "OpTsDiv": ["C20_timespan_scale", "C20_timespan_scale_rational"], "OpTsOp": ["C20_timespan_ratio", "C20_timespan_order"],
    "OpTsCmp": ["C20_timespan_order"], "OpFormatIso": ["C20_iso_roundtrip"], "OpParseIso": ["C20_iso_roundtrip"],
    "OpBuild": ["C20_civil_roundtrip"], "OpReplace": ["C20_fields_determine_reading", "C20_naive_is_utc"],
    "OpField": ["C20_civil_roundtrip"], "OpDate": ["C20_date_time_split"], "OpTime": ["C20_date_time_split"],
}


def correspondence(run):
    n = run.n(6000, 90000)
    corpus, _ = load_corpus()
    cases, meta = [], []
    for i in range(len(corpus) + n):
        c = corpus[i] if i < len(corpus) else gen_case(run.rng)
        text, obs = run_case(c)
        run.case((c["op"], json.dumps(c["args"], sort_keys=True)), nontrivial=nontrivial(c))
        run.count("op:" + c["op"])
        run.count("obs:" + (obs[0] if obs[0] != "err" else "err:" + obs[1]))
        for h in specs_of(c):
            run.count("host:" + h["kind"])
            if h["kind"] == "zone":
                run.count("zone:" + h["zone"].split(":")[0])
                run.count("zone-offset-vs-epoch:" + ("same" if zone_offset(ZONES[h["zone"]], datetime.datetime(1970, 1, 1))
                                                     == datetime.timedelta(minutes=h["offmin"]) else "different"))
            run.count("offset:" + ("zero" if h["offmin"] == 0 else "nonzero"))
        if i % 499 == 0:
            run.sample({"yaql": text, "case": c, "observed": list(obs)})
        cases.append(case_term(c, obs))
        meta.append((c, text, obs))
    bad = set(run.coq_mismatches(HEADER, "case", "case_ok", cases, shard=run.n(500, 2500)))
    # the Python reference is evaluated on every case too, so that a defect the model shares
    # (or a slip of the model) cannot hide: reference and model must both accept
    for i, (c, text, obs) in enumerate(meta):
        if i in bad or judge(c, obs) is not None:
            report_case(run, c, text, obs, i in bad)


# --------------------------------------------------------------------------
# O: the laws of the statement on the implementation
# --------------------------------------------------------------------------
def ulp_us(x):
    return max(1, int(math.ceil(math.ulp(x) * 1e6)) + 1)


def same_dt(a, b):
    """equal reading and equal offset"""
    return (isinstance(a, datetime.datetime) and isinstance(b, datetime.datetime) and a.tzinfo is not None
            and b.tzinfo is not None and wall_of(a) == wall_of(b) and off_of(a) == off_of(b))


def exc_name(r):
    return type(r).__name__ if isinstance(r, BaseException) else None


def law_roundtrip_ts(inp):
    """datetime(s, o).timestamp = s"""
    s_us, offmin, txt = inp["s_us"], inp["offmin"], inp["ts_text"]
    try:
        (EPOCH_AWARE + s_us * US).astimezone(datetime.timezone(datetime.timedelta(minutes=offmin)))
    except OverflowError:
        return None       # datetime(s, o) does not exist
    t, data = ts_arg(txt)
    r = ev("datetime(%s, timespan(minutes => %d)).timestamp" % (t, offmin), data)
    if isinstance(r, float) and float_close(*r.as_integer_ratio(), s_us, 10 ** 6):
        return None
    return {"observed": repr(r), "required": "%s (within float rounding)" % (s_us / 1e6)}


def law_roundtrip_dt(inp):
    """datetime(d.timestamp, d.offset) = d"""
    spec = inp["d"]
    d = ref_aware(spec)
    try:
        d.astimezone(UTC)
    except OverflowError:
        return None
    data = {"a": host(spec)}
    t = host_text(spec, "a")
    r = ev("datetime(%s.timestamp, %s.offset)" % (t, t), data)
    ts = (d - EPOCH_AWARE).total_seconds()
    if isinstance(r, datetime.datetime) and r.tzinfo is not None:
        if off_of(r) == off_of(d) and abs((r - d) // US) <= ulp_us(ts):
            return None
    inst = wall_of(d) - off_of(d)
    if isinstance(r, (ValueError, OverflowError)) and min(inst, wall_of(d), MAXWALL - 1 - inst, MAXWALL - 1 - wall_of(d)) <= ulp_us(ts):
        return None       # the float timestamp rounds across the edge of the range
    return {"observed": repr(r), "required": "%r (within float rounding of the timestamp)" % d}


def law_utc(inp):
    """d.utc is the same instant at offset zero; its timestamp is d's"""
    spec = inp["d"]
    d = ref_aware(spec)
    data = {"a": host(spec)}
    t = host_text(spec, "a")
    try:
        want = d.astimezone(UTC)
    except OverflowError:
        return None
    r = ev("%s.utc" % t, data)
    if not (isinstance(r, datetime.datetime) and r.tzinfo is not None and r == d and off_of(r) == 0):
        return {"observed": repr(r), "required": repr(want)}
    r2 = ev("%s.utc.timestamp = %s.timestamp and %s.utc = %s and %s.utc.offset = timespan()" % (t, t, t, t, t), data)
    if r2 is not True:
        return {"observed": "d.utc.timestamp = d.timestamp and d.utc = d and d.utc.offset = timespan() -> %r" % (r2,),
                "required": True}
    return None


def law_add_sub(inp):
    """(d + t) - t = d ; (d + t) - d = t"""
    spec, t_us = inp["d"], inp["t"]
    d = ref_aware(spec)
    try:
        d + t_us * US
    except OverflowError:
        return None
    data = {"a": host(spec), "t": t_us * US}
    t = host_text(spec, "a")
    r1 = ev("(%s + $.t) - $.t" % t, data)
    r2 = ev("(%s + $.t) - %s" % (t, t), data)
    r3 = ev("($.t + %s) - $.t" % t, data)
    if not same_dt(r1, d):
        return {"observed": "(d + t) - t -> %r" % (r1,), "required": repr(d)}
    if not same_dt(r3, d):
        return {"observed": "(t + d) - t -> %r" % (r3,), "required": repr(d)}
    if not (isinstance(r2, datetime.timedelta) and r2 == t_us * US):
        return {"observed": "(d + t) - d -> %r" % (r2,), "required": repr(t_us * US)}
    return None


def law_order(inp):
    """equality and ordering compare instants; exactly one of <, =, > ; agreement with the sign of a - b"""
    sa, sb = inp["a"], inp["b"]
    a, b = ref_aware(sa), ref_aware(sb)
    data = {"a": host(sa), "b": host(sb)}
    ta, tb = host_text(sa, "a"), host_text(sb, "b")
    got = {}
    for name, sym in CMPS.items():
        got[name] = ev("%s %s %s" % (ta, sym, tb), data)
        want = py_cmp(name, a, b)
        if got[name] is not want:
            return {"observed": "a %s b -> %r" % (sym, got[name]), "required": want,
                    "instants_us": [(a - EPOCH_AWARE) // US, (b - EPOCH_AWARE) // US]}
    if [got["Lt"], got["Eq"], got["Gt"]].count(True) != 1:
        return {"observed": "a<b, a=b, a>b -> %r" % ([got["Lt"], got["Eq"], got["Gt"]],), "required": "exactly one true"}
    diff = ev("%s - %s" % (ta, tb), data)
    if not (isinstance(diff, datetime.timedelta) and diff == a - b):
        return {"observed": "a - b -> %r" % (diff,), "required": repr(a - b)}
    return None


def law_units(inp):
    """the unit properties are one quantity in different units; timespan(microseconds => x.microseconds) = x"""
    t_us = inp["t"]
    data = {"t": t_us * US}
    for name, (prop, div) in UNITS.items():
        r = ev("$.t.%s" % prop, data)
        if name == "UMicroseconds":
            ok = type(r) is int and r == t_us
        else:
            ok = isinstance(r, float) and float_close(*r.as_integer_ratio(), t_us, div)
        if not ok:
            return {"observed": "t.%s -> %r" % (prop, r), "required": "%d / %d" % (t_us, div)}
    for big, small, k in [("days", "hours", 24), ("hours", "minutes", 60), ("minutes", "seconds", 60),
                          ("seconds", "milliseconds", 1000), ("milliseconds", "microseconds", 1000)]:
        x, y = ev("$.t.%s * %d" % (big, k), data), ev("$.t.%s" % small, data)
        if not (isinstance(x, float) and isinstance(y, (int, float)) and abs(x - y) <= 4 * math.ulp(float(y))):
            return {"observed": "t.%s * %d -> %r ; t.%s -> %r" % (big, k, x, small, y), "required": "equal up to float rounding"}
    r = ev("timespan(microseconds => $.t.microseconds) = $.t", data)
    r2 = ev("timespan(microseconds => $.t.microseconds)", data)
    if r is not True or r2 != t_us * US:
        return {"observed": "timespan(microseconds => t.microseconds) -> %r" % (r2,), "required": repr(t_us * US)}
    return None


def law_components(inp):
    """for every component parameter p of timespan(): timespan(p => k) is k units, of any magnitude the timedelta
    range allows, whether k comes from data or is spelled in the text; x = timespan(p => k) round-trips through
    timespan(microseconds => x.microseconds)"""
    i, k = inp["param"], inp["k"]
    name, unit = COMPONENT_NAMES[i], COMPONENT_UNITS[i]
    total = k * unit
    for text, data in (("timespan(%s => $.k)" % name, {"k": k}), ("timespan(%s => %d)" % (name, k), None)):
        r = ev(text, data)
        if TS_MIN <= total <= TS_MAX:
            if not (isinstance(r, datetime.timedelta) and r == total * US):
                return {"expression": text, "observed": repr(r), "required": "timedelta of %d microseconds" % total}
        elif not isinstance(r, OverflowError):
            return {"expression": text, "observed": repr(r), "required": "OverflowError (outside the timedelta range)"}
    if TS_MIN <= total <= TS_MAX:
        data = {"k": k}
        r = ev("timespan(%s => $.k).microseconds" % name, data)
        if not (type(r) is int and r == total):
            return {"expression": "timespan(%s => k).microseconds" % name, "observed": repr(r), "required": total}
        r = ev("timespan(microseconds => timespan(%s => $.k).microseconds) = timespan(%s => $.k)" % (name, name), data)
        if r is not True:
            return {"expression": "timespan(microseconds => x.microseconds) = x  with x = timespan(%s => k)" % name,
                    "observed": repr(r), "required": True}
    return None


def law_scale(inp):
    """(t * k) / k = t ; k * t = t * k ; (t * k) / t = k ; -(-t) = t ; t + (-t) = 0"""
    t_us, k = inp["t"], inp["k"]
    data = {"t": t_us * US, "k": k}
    want = t_us * US
    r = ev("($.t * $.k) / $.k", data)
    if not (isinstance(r, datetime.timedelta) and r == want):
        return {"observed": "(t * k) / k -> %r" % (r,), "required": repr(want)}
    r = ev("$.k * $.t = $.t * $.k and ($.k * $.t).microseconds = $.t.microseconds * $.k", data)
    if r is not True:
        return {"observed": "k * t = t * k and (k * t).microseconds = t.microseconds * k -> %r" % (r,), "required": True}
    if t_us != 0:
        r = ev("($.t * $.k) / $.t", data)
        if not (isinstance(r, float) and float_close(*r.as_integer_ratio(), k, 1)):
            return {"observed": "(t * k) / t -> %r" % (r,), "required": float(k)}
    r = ev("-(-$.t) = $.t and $.t + (-$.t) = timespan() and (-$.t).microseconds = -($.t.microseconds)", data)
    if r is not True:
        return {"observed": "-(-t) = t and t + (-t) = timespan() and (-t).microseconds = -(t.microseconds) -> %r" % (r,),
                "required": True}
    return None


def law_date_time(inp):
    """d.date + d.time = d ; d - d.date = d.time ; d.date is midnight"""
    spec = inp["d"]
    d = ref_aware(spec)
    data = {"a": host(spec)}
    t = host_text(spec, "a")
    r = ev("%s.date + %s.time" % (t, t), data)
    if not same_dt(r, d):
        return {"observed": "d.date + d.time -> %r" % (r,), "required": repr(d)}
    r = ev("%s - %s.date = %s.time and %s.date.hour = 0 and %s.date.time = timespan() and %s.date <= %s" % ((t,) * 7), data)
    if r is not True:
        return {"observed": "d - d.date = d.time and d.date.hour = 0 and d.date.time = timespan() and d.date <= d -> %r" % (r,),
                "required": True}
    return None


def law_replace_offset(inp):
    """d.replace(offset => o) keeps the wall reading and moves the instant by the offset difference"""
    spec, offmin = inp["d"], inp["offmin"]
    d = ref_aware(spec)
    want = d.replace(tzinfo=datetime.timezone(datetime.timedelta(minutes=offmin)))
    data = {"a": host(spec), "o": datetime.timedelta(minutes=offmin)}
    t = host_text(spec, "a")
    r = ev("%s.replace(offset => $.o)" % t, data)
    if not same_dt(r, want):
        return {"observed": "d.replace(offset => o) -> %r" % (r,), "required": repr(want)}
    r = ev("%s.replace(offset => $.o) - %s" % (t, t), data)
    if not (isinstance(r, datetime.timedelta) and r == want - d and r == d.utcoffset() - datetime.timedelta(minutes=offmin)):
        return {"observed": "d.replace(offset => o) - d -> %r" % (r,), "required": repr(want - d)}
    return None


def law_iso(inp):
    """datetime(d.format(ISO)) = d with the same offset (years >= 1000)"""
    spec = inp["d"]
    d = ref_aware(spec)
    data = {"a": host(spec)}
    t = host_text(spec, "a")
    r = ev("datetime(%s.format('%s'))" % (t, ISO_FORMAT), data)
    if not same_dt(r, d):
        return {"observed": "datetime(d.format(ISO)) -> %r" % (r,), "required": repr(d)}
    r = ev("datetime(%s.format('%s')) = %s" % (t, ISO_FORMAT, t), data)
    if r is not True:
        return {"observed": "datetime(d.format(ISO)) = d -> %r" % (r,), "required": True}
    return None


UNARY = ["timestamp", "utc", "offset", "date", "time", "year", "month", "day", "hour", "minute", "second", "microsecond",
         "weekday"]


def canon_any(r):
    o = observe(r)
    if o[0] == "other" and isinstance(r, BaseException):
        return o
    if o[0] == "other":
        return ("value", repr(r))
    return o


def law_naive(inp):
    """every datetime function/operator gives a naive host datetime the result it gives the same reading at UTC"""
    w, other, t_us = inp["wall"], inp["other"], inp["t"]
    naive = DMIN + w * US
    aware = naive.replace(tzinfo=UTC)
    o = host(other) if other["kind"] != "yaql" else ref_aware(other)
    exprs = ["$.d.%s" % f for f in UNARY] + [
        "$.d + $.t", "$.t + $.d", "$.d - $.t", "$.d - $.o", "$.o - $.d", "$.d - $.d",
        "$.d.replace(hour => 1)", "$.d.format('%Y-%m-%dT%H:%M:%S.%f%z')", "isDatetime($.d)",
    ] + ["$.d %s $.o" % s for s in CMPS.values()] + ["$.o %s $.d" % s for s in CMPS.values()]
    for e in exprs:
        rn = canon_any(ev(e, {"d": naive, "o": o, "t": t_us * US}))
        ra = canon_any(ev(e, {"d": aware, "o": o, "t": t_us * US}))
        if rn != ra:
            return {"expression": e, "observed": "with the naive datetime: %r" % (rn,),
                    "required": "as with the same reading at UTC: %r" % (ra,)}
    for s in ("=", "<=", ">="):
        r = ev("$.d %s $.a" % s, {"d": naive, "a": aware})
        if r is not True:
            return {"expression": "$.d %s $.a" % s, "observed": repr(r), "required": True}
    return None


LAWS = {
    "timestamp_roundtrip": (law_roundtrip_ts, "datetime(s, o).timestamp = s fails"),
    "datetime_of_timestamp_roundtrip": (law_roundtrip_dt, "datetime(d.timestamp, d.offset) = d fails"),
    "utc_same_instant": (law_utc, "d.utc is not the same instant as d at offset zero"),
    "add_sub": (law_add_sub, "(d + t) - t = d / (d + t) - d = t fails"),
    "order_is_instant_order": (law_order, "equality/ordering of datetimes is not that of their instants (naive taken as UTC)"),
    "units": (law_units, "timespan unit properties are not one quantity in different units"),
    "timespan_components": (law_components, "timespan(<component> => k) is not k units / does not round-trip through microseconds"),
    "naive_is_utc": (law_naive, "a naive host datetime is not treated as the same reading at UTC"),
    "iso_roundtrip": (law_iso, "datetime(d.format(ISO-8601)) = d fails"),
    "timespan_scale": (law_scale, "timespan scaling / ratio / negation laws fail"),
    "date_plus_time": (law_date_time, "d.date + d.time = d fails"),
    "replace_offset": (law_replace_offset, "d.replace(offset => o) does not keep the wall reading / move the instant by the offset difference"),
}
_law_fail = {}


def check_law(run, name, inp):
    fn, what = LAWS[name]
    run.count("law:" + name)
    try:
        bad = fn(inp)
    except Exception as e:      # a harness slip must be visible, not silent
        bad = {"observed": "oracle raised %s: %r" % (type(e).__name__, e), "required": "no exception"}
    if bad is None:
        return True
    sub = ""
    if name == "order_is_instant_order":
        sub = " [naive operand]" if is_naive(inp["a"]) != is_naive(inp["b"]) else ""
    if name == "naive_is_utc":
        e = bad.get("expression", "")
        sub = " [%s]" % ("timestamp" if ".timestamp" in e else "equality" if (" = " in e or " != " in e) else "other")
    if any(isinstance(v, dict) and v.get("kind") == "zone" for v in inp.values()):
        sub += " [host datetime in a zone with a varying offset]"
    key = (name, sub)
    _law_fail[key] = _law_fail.get(key, 0) + 1
    if _law_fail[key] == 1:
        run.fail("violation", what + sub, dict({"law": name, "input": inp}, **bad))
    return False


def ts_input(rng, style=None):
    for _ in range(100):
        c = gen_case_fromts(rng)
        if c is not None:
            return {"s_us": c["args"][0], "offmin": c["args"][1], "ts_text": c["ts_text"]}
    return {"s_us": 0, "offmin": 0, "ts_text": "0"}


def gen_case_fromts(rng):
    style = rng.choice(["int", "float"])
    s = gen_wall(rng) - EPOCH_WALL
    if style == "int":
        s -= s % 10 ** 6
    txt = timestamp_literal(s, style)
    if txt is None:
        return None
    return {"op": "OpFromTimestamp", "args": [s, gen_offmin(rng)], "ts_text": txt}


def oracle(run, deep):
    rng = run.rng
    _, corpus_laws = load_corpus()
    for item in corpus_laws:
        check_law(run, item["law"], item["input"])
    # exhaustive part: every component parameter of timespan() x every machine-word edge and the largest value
    # the timedelta range allows for it, both signs; the unit laws on every boundary total
    for i, unit in enumerate(COMPONENT_UNITS):
        for v in WORD_EDGES + [TS_MAX // unit, TS_MAX // unit + 1, (-TS_MIN) // unit, (-TS_MIN) // unit + 1, 0, 1]:
            for sg in (1, -1):
                check_law(run, "timespan_components", {"param": i, "k": sg * v})
    for t in BOUNDARY_TOTALS:
        check_law(run, "units", {"t": t})
    # exhaustive part: every offset at minute resolution x one datetime per grid year (thorough),
    # every 7th minute + the edges (quick)
    step = 1 if (not run.quick or deep) else 7
    offs = sorted(set(list(range(-1439, 1440, step)) + OFF_EDGES))
    anchors = [(datetime.datetime(y, 6, 15, 12, 30, 15, 123456) - DMIN) // US for y in YEARS]
    for k, offmin in enumerate(offs):
        w = anchors[k % len(anchors)]
        for kind in (("timezone", "yaql") if k % 2 else ("tzoffset",)):
            spec = {"kind": kind, "wall": w, "offmin": offmin}
            check_law(run, "utc_same_instant", {"d": spec})
            check_law(run, "datetime_of_timestamp_roundtrip", {"d": spec})
        s = (w - EPOCH_WALL) - (w - EPOCH_WALL) % 10 ** 6
        check_law(run, "timestamp_roundtrip", {"s_us": s, "offmin": offmin, "ts_text": "%d" % (s // 10 ** 6)})
        check_law(run, "order_is_instant_order",
                  {"a": {"kind": "timezone", "wall": w, "offmin": offmin},
                   "b": {"kind": "naive", "wall": w - offmin * 60000000, "offmin": 0}})
    # seeded random part
    n = run.n(500, 6000) * (3 if deep else 1)
    for i in range(n):
        check_law(run, "timestamp_roundtrip", ts_input(rng))
        d = gen_host(rng)
        check_law(run, "datetime_of_timestamp_roundtrip", {"d": d})
        check_law(run, "utc_same_instant", {"d": gen_host(rng)})
        check_law(run, "add_sub", {"d": gen_host(rng), "t": gen_ts(rng)})
        a = gen_host(rng)
        check_law(run, "order_is_instant_order", {"a": a, "b": gen_related(rng, a)})
        check_law(run, "units", {"t": gen_ts(rng)})
        if i % 2 == 0:
            t = gen_ts(rng)
            t = t if abs(t) < 2 ** 50 else t % (2 ** 40)
            check_law(run, "timespan_scale", {"t": t, "k": rng.choice([1, -1, 2, 3, -7, 10, 60, 1000, rng.randrange(1, 10 ** 4)])})
            check_law(run, "date_plus_time", {"d": gen_host(rng)})
            hd = gen_host(rng)
            if (DMIN + hd["wall"] * US).year >= 1000:
                check_law(run, "iso_roundtrip", {"d": hd})
            check_law(run, "replace_offset", {"d": gen_host(rng), "offmin": gen_offmin(rng)})
        if i % 4 == 0:
            check_law(run, "naive_is_utc", {"wall": gen_wall(rng), "other": gen_host(rng, ["naive", "timezone", "tzoffset", "tzutc"]),
                                            "t": gen_ts(rng)})


# --------------------------------------------------------------------------
# replay / known findings
# --------------------------------------------------------------------------
def replay(run, data):
    d = data["data"]
    if "law" in d:
        fn, _ = LAWS[d["law"]]
        return fn(d["input"]) is None
    c = d["case"]
    text, obs = run_case(c)
    if judge(c, obs) is not None:
        return False
    return not run.coq_mismatches(HEADER, "case", "case_ok", [case_term(c, obs)])


def classify(failure, known_entries):
    """F17 (only if it stays open): `=` / `!=` between a NAIVE host datetime and an AWARE datetime."""
    for k in known_entries:
        if k.get("class") != "equality-naive-vs-aware":
            continue
        d = failure.data
        if "case" in d:
            c = d["case"]
            if c["op"] == "OpCmp" and c["args"][0] in ("Eq", "Ne") and is_naive(c["args"][1]) != is_naive(c["args"][2]):
                return k["line"]
        elif d.get("law") == "order_is_instant_order":
            i = d["input"]
            if is_naive(i["a"]) != is_naive(i["b"]) and (" = " in str(d.get("observed")) or " != " in str(d.get("observed"))):
                return k["line"]
        elif d.get("law") == "naive_is_utc":
            e = d.get("expression", "")
            if e.startswith("$.d") and (" = " in e or " != " in e) or e.startswith("$.o") and (" = " in e or " != " in e):
                return k["line"]
    return None
